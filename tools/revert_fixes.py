#!/usr/bin/env python3
"""revert_fixes.py [CNN ...] — regression self-test of the `fixed:` entries.

For every `fixed: property=<id> <commit> ...` line in findings/*.txt: take a scratch worktree of /repo HEAD,
reverse-apply that one commit (the defect returns, everything else stays as it is now), run the property's quick
check against it and expect a VIOLATION.  "A fixed entry suppresses nothing: the check reports the violation again if
it ever returns" — this shows it for every recorded fix.  Results: /verif/build/revert_fixes.json and a table on stdout.
Not a registered command; a tool for the maintainer of /verif."""
import json, os, re, subprocess, sys
V = "/verif"
WT = os.environ.get("REVERT_WT", "/tmp/wt-revert")
def sh(c, **k): return subprocess.run(c, shell=True, capture_output=True, text=True, **k)
only = set(a.upper() for a in sys.argv[1:])
entries = []
for f in sorted(os.listdir(f"{V}/findings")):
    for l in open(f"{V}/findings/{f}"):
        m = re.match(r"fixed:\s+property=(C\d\d)\s+([0-9a-f]{7,40})\s+(.*)", l)
        if m and (not only or m.group(1) in only):
            entries.append((m.group(1), m.group(2), m.group(3).strip()))
if not os.path.isdir(WT):
    assert sh(f"git -C /repo worktree add --detach {WT} HEAD").returncode == 0
out = []
for pid, h, what in entries:
    sh(f"git -C {WT} reset -q --hard && git -C {WT} checkout -q --detach $(git -C /repo rev-parse HEAD) && git -C {WT} reset -q --hard && git -C {WT} clean -fdq -e _build")
    r = sh(f"git -C /repo show --format= {h} | git -C {WT} apply -R --3way 2>&1")
    st = sh(f"git -C {WT} status --short | grep -v '^??' | head -20").stdout
    rec = {"property": pid, "commit": h, "what": what[:160]}
    if r.returncode != 0 or "U" in [x[:2].strip()[:1] for x in st.splitlines()] or "<<<<<<<" in sh(f"git -C {WT} diff").stdout:
        rec["result"] = "revert does not apply cleanly (later changes touch the same lines)"
    else:
        sh(f"git -C {WT} reset -q")
        c = sh(f"cd {V} && IGRIS_REPO={WT} VERIF_JOBS={os.environ.get('VERIF_JOBS','8')} ./check {pid} --tier quick --evidence {WT}/.evidence.json 2>/dev/null", timeout=3000)
        viol = [l for l in c.stdout.splitlines() if l.startswith("VIOLATION")]
        rec["check_exit"] = c.returncode
        rec["violations"] = len(viol)
        rec["result"] = "reported again" if c.returncode == 1 and viol else ("HARNESS-ERROR" if c.returncode == 2 else "NOT reported")
        rec["first"] = viol[0][:200] if viol else ""
    out.append(rec)
    print(f"{pid} {h} {rec['result']:>16}  {what[:90]}", flush=True)
    json.dump(out, open(f"{V}/build/revert_fixes.json", "w"), indent=1)
sh(f"git -C {WT} reset -q --hard")
n = len(out); ok = sum(r["result"] == "reported again" for r in out); na = sum(r["result"].startswith("revert does not") for r in out)
print(f"\n{ok} of {n - na} reverted fixes are reported again by the quick tier ({na} reverts do not apply to the current tree)")
