#!/bin/bash
# tools/coverage.sh CNN [tier]  — which lines of the repository does the check for CNN actually execute?
#
# Not a verdict and not part of any registered command: a gap finder for the harness author.  Builds the
# harness through compiler wrappers that add `--coverage -DMC_COVERAGE`, runs the quick tier, then prints per
# repository source file the executable lines no explored case reached (gcov; template code that was never
# instantiated is invisible to it).  Output: build/cov/CNN/uncovered.txt
set -e
V=$(cd $(dirname $0)/.. && pwd)
ID=$1; TIER=${2:-quick}
REPO=${IGRIS_REPO:-/repo}
W=$V/build/cov-bin
mkdir -p $W
for c in gcc g++ cc c++ clang clang++; do
    real=$(PATH=$(echo $PATH | tr ':' '\n' | grep -v "^$W\$" | paste -sd:) command -v $c) || continue
    printf '#!/bin/bash\ncase "$*" in *mc.cpp*|*sched.cpp*) exec %s "$@" -DMC_COVERAGE;; esac\ncase " $* " in *" -c "*) exec %s "$@" --coverage -DMC_COVERAGE;; esac\nexec %s "$@" --coverage -Wl,-u,__gcov_dump\n' "$real" "$real" "$real" > $W/$c
    chmod +x $W/$c
done
lc=$(echo $ID | tr A-Z a-z)
rm -rf $V/build/$ID
cd $V
IGC_KEEP_EXTRA="__gcov_init __gcov_exit __gcov_merge_add __gcov_dump __gcov_merge_topn __gcov_indirect_call __gcov_time_profiler_counter __gcov_indirect_call_profiler_v4 __gcov_average_profiler __gcov_ior_profiler __gcov_interval_profiler __gcov_pow2_profiler __gcov_topn_values_profiler" PATH=$W:$PATH VERIF_KEEP_BUILD=1 ./check $ID --tier $TIER --evidence $V/build/$ID.cov.evidence.json > $V/build/$ID.cov.log 2>&1 || true
tail -3 $V/build/$ID.cov.log
OUT=$V/build/cov/$ID
rm -rf $OUT; mkdir -p $OUT
cd $OUT
for g in $(find $V/build/$ID -name '*.gcda'); do
    d=$(dirname $g)
    if strings $d/$(basename $g .gcda).gcno 2>/dev/null | head -c 64 | grep -q "LLVM\|\*204"; then tool="llvm-cov-14 gcov"; else tool=gcov; fi
    (mkdir -p $OUT/$(basename $g .gcda) && cd $OUT/$(basename $g .gcda) && ( gcov -p -o $d $g >/dev/null 2>&1 || llvm-cov-14 gcov -p -o $d $g >/dev/null 2>&1 || true ))
done
python3 - "$REPO" "$OUT" <<'EOF'
import sys,os,re,glob,collections
repo,out=sys.argv[1],sys.argv[2]
cov=collections.defaultdict(dict)   # file -> line -> max count ; -1 = executable never run
txt={}
for f in glob.glob(out+'/*/*.gcov'):
    src=None
    for ln in open(f,errors='replace'):
        m=re.match(r'\s*([^:]+):\s*(\d+):(.*)$',ln)
        if not m: continue
        c,n,t=m.group(1).strip(),int(m.group(2)),m.group(3)
        if n==0:
            if t.startswith('Source:'): src=os.path.realpath(os.path.join(repo,t[7:])) if not t[7:].startswith('/') else os.path.realpath(t[7:])
            continue
        if not src or not src.startswith(os.path.realpath(repo)+'/'): continue
        if c=='-': continue
        v=0 if c.startswith('#####') or c.startswith('=====') else 1
        cov[src][n]=max(cov[src].get(n,0),v)
        txt[(src,n)]=t
with open(out+'/uncovered.txt','w') as o:
    for src in sorted(cov):
        un=[n for n,v in sorted(cov[src].items()) if v==0]
        tot=len(cov[src])
        o.write(f"== {os.path.relpath(src,os.path.realpath(repo))}: {tot-len(un)}/{tot} executable lines reached\n")
        for n in un: o.write(f"   {n}: {txt[(src,n)].rstrip()}\n")
    print(f"{len(cov)} repository files seen; report {out}/uncovered.txt")
EOF
