#!/bin/bash
# Nothing is prebuilt: every check compiles what it needs from /repo's working tree.
# This only verifies that the toolchain the harnesses rely on is present.
set -e
cd "$(dirname "$0")/.."
for t in g++ gcc clang clang++ objcopy python3; do command -v $t >/dev/null || { echo "missing tool: $t"; exit 1; }; done
mkdir -p build evidence replays
g++ -std=c++17 -O2 -c -Imc mc/mc.cpp -o build/.mc_probe.o && rm -f build/.mc_probe.o
echo "setup ok"
