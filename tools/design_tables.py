#!/usr/bin/env python3
"""Regenerate the generated sections of DESIGN.md (between <!-- GEN:x --> markers): seeded-change table,
benign-change table, per-property as-built summary."""
import glob, json, os, re, subprocess
V = "/verif"
def seeds():
    out = subprocess.run(["python3", f"{V}/tools/seed_table.py"], capture_output=True, text=True).stdout
    return out
def benign():
    rows = []
    for f in sorted(glob.glob(f"{V}/benign/*/meta.json")):
        m = json.load(open(f))
        d = os.path.dirname(f)
        diff = open(d + "/patch.diff").read() if os.path.exists(d + "/patch.diff") else ""
        files = ", ".join(sorted(set(os.path.basename(x) for x in re.findall(r"^\+\+\+ b/(\S+)", diff, re.M))))
        what = ""
        if os.path.exists(d + "/README.md"):
            what = open(d + "/README.md").read().strip().splitlines()[0][:110].lstrip("# ")
        rows.append(f"| {m['name']} | {files} | {what} | {'silent (exit 0)' if m.get('silent') else 'exit %s' % m.get('check_exit')} |")
    n = len(rows); s = sum(1 for r in rows if "silent" in r)
    return "| change | file(s) | what | quick check |\n|---|---|---|---|\n" + "\n".join(rows) + f"\n\n{s} of {n} behaviour-preserving changes leave the property's quick check silent.\n"
def summary():
    rows = []
    for f in sorted(glob.glob(f"{V}/harness/c*/config.json")):
        pid = f.split("/")[-2].upper()
        ev = {}
        try: ev = json.load(open(f"{V}/evidence/{pid}.json"))
        except Exception: pass
        cov = ev.get("coverage", {})
        known = fixed = 0
        fp = f"{V}/findings/{pid.lower()}.txt"
        if os.path.exists(fp):
            for l in open(fp):
                known += l.startswith("known:"); fixed += l.startswith("fixed:")
        nsub = len(cov.get("subchecks", []))
        shapes = sorted(set(s.get("kind", "") for s in cov.get("subchecks", [])))
        rows.append(f"| {pid} | {'+'.join(shapes)} | {nsub} | {cov.get('evaluations', 0):,} | {cov.get('states', 0):,} | {ev.get('wall_s', 0):.0f} | {fixed} | {known} |")
    return ("| id | shapes | sub-checks | executions (quick) | states | wall s | defects fixed in /repo | known findings |\n|---|---|---|---|---|---|---|---|\n"
            + "\n".join(rows) + "\n")
gen = {"seeds": seeds(), "benign": benign(), "summary": summary()}
s = open(f"{V}/DESIGN.md").read()
for k, v in gen.items():
    a, b = f"<!-- GEN:{k} -->", f"<!-- /GEN:{k} -->"
    if a in s:
        s = s[:s.index(a) + len(a)] + "\n" + v + s[s.index(b):]
open(f"{V}/DESIGN.md", "w").write(s)
print("regenerated", list(gen))
