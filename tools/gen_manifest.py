#!/usr/bin/env python3
"""Regenerate MANIFEST.json from harness/*/config.json (single source of truth per property)."""
import json, os, subprocess
V = os.path.dirname(os.path.dirname(os.path.abspath(__file__)))
props = [json.loads(l) for l in open(os.path.join(V, "properties.jsonl"))]
checks, na = [], []
NA_REASONS = json.load(open(os.path.join(V, "tools", "not_applicable.json"))) if os.path.exists(os.path.join(V, "tools", "not_applicable.json")) else {}
READY = set(json.load(open(os.path.join(V, "tools", "ready.json"))))
for p in props:
    pid = p["id"]
    if pid not in READY:
        na.append({"property_id": pid, "reason": NA_REASONS.get(pid, "not claimed yet: its harness has not been run end-to-end against /repo's main branch in this tree (fix commits still being integrated)")})
        continue
    cfgp = os.path.join(V, "harness", pid.lower(), "config.json")
    if not os.path.exists(cfgp) or json.load(open(cfgp)).get("disabled"):
        na.append({"property_id": pid, "reason": NA_REASONS.get(pid, "no check registered yet: the harness for this property has not been built and run end-to-end in this tree")})
        continue
    c = json.load(open(cfgp))
    checks.append({
        "property_id": pid,
        "quick_cmd": f"./check {pid} --tier quick",
        "thorough_cmd": f"./check {pid} --tier thorough",
        "evidence_file": f"evidence/{pid}.json",
        "replay_cmd_template": f"./check {pid} --replay {{path}}",
        "engine": "mc",
        "level_claimed": {"category": "model_checking", "text": c["level_text"], "design_ref": c.get("design_ref", "DESIGN.md section 5 / " + pid)},
        "level_note": c["level_note"],
        "technique": c["technique"],
    })
try:
    hooks = subprocess.run(["git", "-C", "/repo", "log", "--format=%H %s", "--grep=^hook:"], capture_output=True, text=True).stdout.split("\n")
    hooks = [h.split()[0] for h in hooks if h.strip()]
except Exception:
    hooks = []
m = {
    "version": 1,
    "setup_cmd": "bash tools/setup.sh",
    "hooks": {
        "guard": "IGRIS_VERIF",
        "enable": "no source hooks are needed: harnesses compile the anchored igris sources from /repo's working tree directly (templates instantiated with tiny sizes, private state read with -fno-access-control, libc/pthread entry points interposed at link time, compat-libc objects symbol-prefixed with objcopy); -DIGRIS_VERIF is reserved should a hook become necessary",
        "baseline_off_cmd": "cmake -G Ninja -S /repo -B /repo/_build >/dev/null && cmake --build /repo/_build && ctest --test-dir /repo/_build -j8 --timeout 900",
        "source_commits": hooks,
        "add_only": True,
    },
    "engines": [{"name": "mc", "path": "mc/", "serves_properties": [c["property_id"] for c in checks],
                 "kind_free_text": "hand-written bounded exhaustive explorer run on the real igris code in forked workers: choice-tree (odometer/DFS) enumeration of inputs and environment answers, explicit-state BFS over operation histories with canonical impl+reference keys, and (C20) a preemption-bounded thread scheduler over interposed pthread/sem operations"}],
    "checks": checks,
    "not_applicable": na,
    "notes": "All checks rebuild from /repo's working tree (IGRIS_REPO overrides the path) into a per-invocation scratch directory /verif/build/<id>.<pid>/ that is removed at exit. exit 0 = the property held on everything explored (KNOWN-FINDING lines for listed findings); exit 1 + VIOLATION line = an unlisted violation that replayed twice in fresh processes; exit 2 + HARNESS-ERROR = the harness could not decide (build failure, nondeterminism, vacuous run) and is never a verdict. Known findings and repaired defects: findings/cNN.txt (format: findings/00_format.txt), read-only at run time. Each property's check runs several builds of the repository sources (sanitizers, -DNDEBUG, -funsigned-char, second compiler, -Os; see harness/cNN/build.sh) with the project's own language standard (-std=c++20). deadline_s in harness/cNN/config.json is a safety cap, several times the idle run time.",
}
json.dump(m, open(os.path.join(V, "MANIFEST.json"), "w"), indent=1)
print(f"{len(checks)} checks, {len(na)} not_applicable")
