#!/usr/bin/env python3
"""run_benign.py <property-id> <name> <dir with patch.diff README.md>
Applies a behaviour-preserving change to a scratch worktree of /repo (/tmp/wt-benign), runs
`./check <id> --tier quick` against it and records the outcome in /verif/benign/<name>/meta.json.
The expected result is exit 0 (silence): a VIOLATION here is a false alarm, exit 2 a harness that
depends on an internal detail."""
import json, os, shutil, subprocess, sys
pid, name, src = sys.argv[1:4]
WT = "/tmp/wt-benign"
def sh(c, **k): return subprocess.run(c, shell=True, capture_output=True, text=True, **k)
if not os.path.isdir(WT):
    assert sh(f"git -C /repo worktree add --detach {WT} HEAD").returncode == 0
else:
    sh(f"git -C {WT} checkout -q --detach $(git -C /repo rev-parse HEAD) && git -C {WT} checkout -- .")
meta = {"property": pid, "name": name, "repo_head": sh("git -C /repo rev-parse --short HEAD").stdout.strip()}
r = sh(f"git -C {WT} apply {src}/patch.diff")
meta["patch_applies"] = r.returncode == 0
if r.returncode == 0:
    c = sh(f"cd /verif && IGRIS_REPO={WT} ./check {pid} --tier quick --evidence {WT}/.evidence.json 2>/dev/null", timeout=3000)
    meta["check_exit"] = c.returncode
    meta["lines"] = [l[:300] for l in c.stdout.splitlines() if l.startswith(("VIOLATION", "HARNESS-ERROR", "KNOWN", pid))][-8:]
    meta["silent"] = c.returncode == 0 and not any(l.startswith("VIOLATION") for l in c.stdout.splitlines())
    sh(f"git -C {WT} checkout -- .")
else:
    meta["error"] = r.stderr[:300]
out = f"/verif/benign/{name}"
os.makedirs(out, exist_ok=True)
for f in ("patch.diff", "README.md"):
    if os.path.exists(os.path.join(src, f)) and os.path.realpath(src) != os.path.realpath(out): shutil.copy(os.path.join(src, f), out)
json.dump(meta, open(os.path.join(out, "meta.json"), "w"), indent=1)
print(json.dumps({k: meta.get(k) for k in ("name", "patch_applies", "check_exit", "silent")}), meta.get("lines", [])[-2:] if not meta.get("silent") else "")
