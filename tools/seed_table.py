#!/usr/bin/env python3
"""Print the markdown table of seeded changes (from seeded/*/meta.json) for DESIGN.md section 16."""
import glob, json, os, re
rows = []
for f in sorted(glob.glob("/verif/seeded/*/meta.json")):
    m = json.load(open(f))
    d = os.path.dirname(f)
    diff = open(os.path.join(d, "patch.diff")).read() if os.path.exists(os.path.join(d, "patch.diff")) else ""
    files = sorted(set(re.findall(r"^\+\+\+ b/(\S+)", diff, re.M)))
    sigs = m.get("check_violations", [])
    short = ", ".join(s.split(".", 1)[1] if "." in s else s for s in sigs[:3]) + (f" (+{len(sigs)-3})" if len(sigs) > 3 else "")
    rows.append((m["seed"], ", ".join(os.path.basename(x) for x in files), "yes" if m.get("confirmed") else "NO",
                 ("caught on the base it was written for; superseded by a later fix" if m.get("superseded_by_fix") else "**caught**" if m.get("detected") else ("outside the statement" if m.get("outside_statement") else "missed")), short or "-"))
print("| seed | changed file(s) | confirmed (tests pass, demo fails with / passes without) | quick check | signatures reported |")
print("|---|---|---|---|---|")
for r in rows:
    print("| " + " | ".join(r) + " |")
n = len(rows); c = sum(1 for r in rows if r[3] == "**caught**" or r[3].startswith("caught on the base")); o = sum(1 for r in rows if r[3] == "outside the statement")
print(f"\n{c} of {n - o} seeded changes that violate the statement are reported by the quick tier of the property's check"
      + (f"; {o} seeded change(s) turned out not to violate the statement as written (reason in seeded/<id>/meta.json, field outside_statement) and are rightly not reported." if o else "."))
