#!/usr/bin/env python3
"""confirm_seed.py <property-id> <seed-name> <dir with patch.diff run_demo.sh demo.* README.md>
Confirms a seeded regression in a scratch worktree of /repo (kept at /tmp/wt-seedconfirm between calls for
incremental test builds; remove it with `git -C /repo worktree remove --force /tmp/wt-seedconfirm` when done):
  1. the patch applies and the library's own test suite still builds and passes with it,
  2. the demonstration fails with the patch and passes without it,
  3. what ./check <id> --tier quick reports with the patch applied (exit code, violation signatures).
Writes /verif/seeded/<seed-name>/{patch.diff,demo*,run_demo.sh,README.md,meta.json}."""
import json, os, shutil, subprocess, sys, time, glob
pid, name, src = sys.argv[1], sys.argv[2], sys.argv[3]
WT = os.environ.get("CONFIRM_WT", "/tmp/wt-seedconfirm")
def sh(cmd, **kw):
    return subprocess.run(cmd, shell=True, capture_output=True, text=True, **kw)
if not os.path.isdir(WT):
    r = sh(f"git -C /repo worktree add --detach {WT} HEAD")
    assert r.returncode == 0, r.stderr
else:
    sh(f"git -C {WT} checkout -q --detach $(git -C /repo rev-parse HEAD) && git -C {WT} checkout -- .")
meta = {"property": pid, "seed": name, "repo_head": sh("git -C /repo rev-parse --short HEAD").stdout.strip(), "ran": []}
patch = os.path.join(src, "patch.diff")
r = sh(f"git -C {WT} apply {patch}")
meta["patch_applies"] = r.returncode == 0
if r.returncode != 0:
    print("patch does not apply:", r.stderr); sys.exit(1)
t0 = time.time()
r = sh(f"cmake -G Ninja -S {WT} -B {WT}/_build >/dev/null && cmake --build {WT}/_build 2>&1 | tail -3 && {WT}/_build/igris_test | tail -3")
meta["ran"].append("cmake --build && _build/igris_test (with patch)")
meta["tests_pass_with_patch"] = r.returncode == 0 and "Status: SUCCESS" in r.stdout
meta["tests_tail"] = r.stdout.strip().splitlines()[-2:]
demo = os.path.join(src, "run_demo.sh")
d1 = sh(f"bash {demo} {WT}", cwd=src, timeout=900)
meta["ran"].append("run_demo.sh <worktree> (with patch, then without)")
meta["demo_fails_with_patch"] = d1.returncode != 0
c = sh(f"cd /verif && IGRIS_REPO={WT} ./check {pid} --tier quick --evidence {WT}/.evidence.json 2>/dev/null", timeout=3000)
meta["ran"].append(f"IGRIS_REPO=<worktree> ./check {pid} --tier quick (with patch)")
meta["check_exit_with_patch"] = c.returncode
meta["check_violations"] = [l.split("replay=")[1].split("/")[-1].replace(".json", "") for l in c.stdout.splitlines() if l.startswith("VIOLATION")]
meta["detected"] = c.returncode == 1 and bool(meta["check_violations"])
sh(f"git -C {WT} checkout -- .")
d0 = sh(f"bash {demo} {WT}", cwd=src, timeout=900)
meta["demo_passes_without_patch"] = d0.returncode == 0
meta["confirmed"] = all(meta[k] for k in ("patch_applies", "tests_pass_with_patch", "demo_fails_with_patch", "demo_passes_without_patch"))
meta["seconds"] = round(time.time() - t0)
readme = os.path.join(src, "README.md")
meta["needs_to_manifest"] = open(readme).read()[:1500] if os.path.exists(readme) else ""
out = f"/verif/seeded/{name}"
os.makedirs(out, exist_ok=True)
for f in glob.glob(os.path.join(src, "*")):
    if os.path.isfile(f) and os.path.getsize(f) < 200000 and os.path.abspath(src) != os.path.abspath(out):
        shutil.copy(f, out)
json.dump(meta, open(os.path.join(out, "meta.json"), "w"), indent=1)
# clean replay artefacts produced by the seeded run
for v in meta["check_violations"]:
    p = f"/verif/replays/{pid}/{v}.json"
    if os.path.exists(p): os.remove(p)
print(json.dumps({k: meta[k] for k in ("seed", "confirmed", "detected", "check_violations", "tests_pass_with_patch", "demo_fails_with_patch", "demo_passes_without_patch")}))
