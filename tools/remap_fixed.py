#!/usr/bin/env python3
"""Rewrite the commit ids in findings/*.txt `fixed:` lines to the ids the same commits have on /repo's main
(after cherry-picking from the builders' branches). Matches by commit subject."""
import glob, re, subprocess, sys
def git(*a):
    return subprocess.run(["git", "-C", "/repo"] + list(a), capture_output=True, text=True).stdout
main = {}
for line in git("log", "main", "--format=%h\t%s").splitlines():
    h, s = line.split("\t", 1)
    main.setdefault(s, h)
for f in sorted(glob.glob("/verif/findings/c*.txt")):
    out, changed = [], False
    for line in open(f):
        m = re.match(r"(fixed:\s+property=\S+\s+)(\S+)(\s.*)", line)
        if m:
            old = m.group(2)
            subj = git("log", "-1", "--format=%s", old).strip()
            new = main.get(subj)
            if not subj:
                print(f"{f}: unknown commit {old}")
            elif not new:
                print(f"{f}: {old} ({subj[:60]}) is not on main")
            elif not new.startswith(old) and not old.startswith(new):
                line = m.group(1) + new + m.group(3) + "\n"
                changed = True
        out.append(line)
    if changed:
        open(f, "w").writelines(out)
        print("updated", f)
