// sched.cpp — see sched.hpp.  Compile WITHOUT sanitizers (uses raw futexes so that
// ThreadSanitizer does not see the hand-offs as synchronisation).
#include "sched.hpp"
#include "../mc.hpp"

#include <atomic>
#include <cerrno>
#include <climits>
#include <cstdio>
#include <cstring>
#include <dlfcn.h>
#include <linux/futex.h>
#include <map>
#include <pthread.h>
#include <semaphore.h>
#include <sys/syscall.h>
#include <unistd.h>

extern "C"
{
    void __tsan_acquire(void *) __attribute__((weak));
    void __tsan_release(void *) __attribute__((weak));
    void AnnotateIgnoreReadsBegin(const char *, int) __attribute__((weak));
    void AnnotateIgnoreReadsEnd(const char *, int) __attribute__((weak));
    int __asan_address_is_poisoned(void const volatile *) __attribute__((weak));
}

namespace
{
    enum Kind
    {
        K_START,
        K_MLOCK,
        K_MUNLOCK,
        K_MTRYLOCK,
        K_CWAIT,
        K_CREACQ,
        K_CSIGNAL,
        K_CBROADCAST,
        K_SWAIT,
        K_SPOST,
        K_STRYWAIT,
        K_YIELD,
        K_PRED,
        K_IDLE,
        K_DONE
    };
    const char *kname[] = {"start", "lock", "unlock", "trylock", "cond_wait", "cond_reacquire", "cond_signal",
                           "cond_broadcast", "sem_wait", "sem_post", "sem_trywait", "yield", "wait_until", "wait_idle", "done"};
    struct Thread
    {
        int id = 0;
        pthread_t pt;
        std::function<void()> body;
        const char *name = "";
        int fut = 0;
        Kind kind = K_START;
        void *obj = nullptr, *obj2 = nullptr;
        std::function<bool()> pred;
        const char *what = "";
        bool done = false, signalled = false;
        int tryres = 0;
    };
    struct Mutex
    {
        int owner = -1, depth = 0;
    };
    struct Cond
    {
        std::vector<int> waiters;
        bool dead = false;
    };
    struct Sem
    {
        int count = 0;
        bool dead = false;
    };
    struct Global
    {
        bool active = false;
        sched::Options opt;
        std::vector<Thread *> threads;
        std::map<void *, Mutex> mutexes;
        std::map<void *, Cond> conds;
        std::map<void *, Sem> sems;
        std::map<void *, std::string> names;
        int nm = 0, nc = 0, ns = 0;
        int ctl_fut = 0;
        sched::Result res;
        int leaked = 0;
    } G;
    thread_local Thread *me = nullptr;

    long futex(int *addr, int op, int val) { return syscall(SYS_futex, addr, op, val, nullptr, nullptr, 0); }
    void notify_ctl()
    {
        __atomic_store_n(&G.ctl_fut, 1, __ATOMIC_SEQ_CST);
        futex(&G.ctl_fut, FUTEX_WAKE_PRIVATE, 1);
    }
    void wait_ctl()
    {
        while (__atomic_load_n(&G.ctl_fut, __ATOMIC_SEQ_CST) == 0)
            futex(&G.ctl_fut, FUTEX_WAIT_PRIVATE, 0);
        __atomic_store_n(&G.ctl_fut, 0, __ATOMIC_SEQ_CST);
    }
    // thread side: publish pending op, hand control to the controller, sleep until scheduled
    void park(Thread *t)
    {
        notify_ctl();
        while (__atomic_load_n(&t->fut, __ATOMIC_SEQ_CST) == 0)
            futex(&t->fut, FUTEX_WAIT_PRIVATE, 0);
        __atomic_store_n(&t->fut, 0, __ATOMIC_SEQ_CST);
    }
    void resume(Thread *t)
    {
        __atomic_store_n(&t->fut, 1, __ATOMIC_SEQ_CST);
        futex(&t->fut, FUTEX_WAKE_PRIVATE, 1);
        wait_ctl();
    }
    void *tramp(void *p)
    {
        Thread *t = (Thread *)p;
        me = t;
        t->kind = K_START;
        park(t);
        t->body();
        t->kind = K_DONE;
        t->done = true;
        notify_ctl();
        return nullptr;
    }
    bool recursive(void *m) { return (((pthread_mutex_t *)m)->__data.__kind & 3) == PTHREAD_MUTEX_RECURSIVE_NP; }
    std::string oname(void *p, char cls)
    {
        auto it = G.names.find(p);
        if (it != G.names.end())
            return it->second;
        int &n = cls == 'm' ? G.nm : cls == 'c' ? G.nc : G.ns;
        std::string s = mc::fmt("%c%d", cls, n++);
        G.names[p] = s;
        return s;
    }
    void err(const std::string &e)
    {
        if (G.res.errors.size() < 8)
            G.res.errors.push_back(e);
    }
    void check_alive(Thread *t, void *obj, const char *op)
    {
        if (__asan_address_is_poisoned && __asan_address_is_poisoned(obj))
            err(mc::fmt("dead-memory: %s by t%d(%s) names memory that is no longer alive (a stack frame that was left / freed heap)", op,
                        t->id, t->name));
    }
    bool pred_eval(Thread *t)
    {
        if (AnnotateIgnoreReadsBegin)
            AnnotateIgnoreReadsBegin(__FILE__, __LINE__);
        bool r = t->pred();
        if (AnnotateIgnoreReadsEnd)
            AnnotateIgnoreReadsEnd(__FILE__, __LINE__);
        return r;
    }
    bool enabled(Thread *t)
    {
        switch (t->kind)
        {
        case K_MLOCK:
        {
            Mutex &m = G.mutexes[t->obj];
            return m.owner == -1 || (m.owner == t->id && recursive(t->obj));
        }
        case K_CREACQ:
            return t->signalled && G.mutexes[t->obj2].owner == -1;
        case K_SWAIT:
            return G.sems[t->obj].count > 0;
        case K_PRED:
            return pred_eval(t);
        case K_DONE:
        case K_IDLE:
            return false;
        default:
            return true;
        }
    }
    // model effect of the pending operation; returns false if the thread must stay parked
    bool perform(Thread *t, int &extra_choices)
    {
        switch (t->kind)
        {
        case K_MLOCK:
        {
            Mutex &m = G.mutexes[t->obj];
            m.owner = t->id;
            m.depth++;
            return true;
        }
        case K_MTRYLOCK:
        {
            Mutex &m = G.mutexes[t->obj];
            if (m.owner == -1 || (m.owner == t->id && recursive(t->obj)))
            {
                m.owner = t->id;
                m.depth++;
                t->tryres = 0;
            }
            else
                t->tryres = EBUSY;
            return true;
        }
        case K_MUNLOCK:
        {
            Mutex &m = G.mutexes[t->obj];
            if (m.owner != t->id)
                err(mc::fmt("unlock-not-owner: t%d(%s) unlocks %s owned by t%d", t->id, t->name, oname(t->obj, 'm').c_str(), m.owner));
            else if (--m.depth == 0)
                m.owner = -1;
            return true;
        }
        case K_CWAIT:
        {
            Cond &c = G.conds[t->obj];
            c.dead = false; // a wait on an address revives it: a new object lives there
            Mutex &m = G.mutexes[t->obj2];
            if (m.owner != t->id)
                err(mc::fmt("cond_wait-without-mutex: t%d(%s)", t->id, t->name));
            m.owner = -1;
            m.depth = 0;
            c.waiters.push_back(t->id);
            t->signalled = false;
            t->kind = K_CREACQ;
            return false; // stays parked until signalled and the mutex is free
        }
        case K_CREACQ:
        {
            Mutex &m = G.mutexes[t->obj2];
            m.owner = t->id;
            m.depth = 1;
            return true;
        }
        case K_CSIGNAL:
        case K_CBROADCAST:
        {
            Cond &c = G.conds[t->obj];
            if (c.dead)
                err(mc::fmt("use-after-destroy: %s on destroyed condition variable %s by t%d(%s)", kname[t->kind],
                            oname(t->obj, 'c').c_str(), t->id, t->name));
            if (t->kind == K_CBROADCAST)
            {
                for (int w : c.waiters)
                    G.threads[w]->signalled = true;
                c.waiters.clear();
            }
            else if (!c.waiters.empty())
            {
                int k = 0;
                if (c.waiters.size() > 1 && !G.res.skipped)
                {
                    k = mc::choose((int)c.waiters.size());
                    extra_choices++;
                }
                G.threads[c.waiters[k]]->signalled = true;
                c.waiters.erase(c.waiters.begin() + k);
            }
            return true;
        }
        case K_SWAIT:
            G.sems[t->obj].count--;
            return true;
        case K_STRYWAIT:
        {
            Sem &s = G.sems[t->obj];
            if (s.count > 0)
            {
                s.count--;
                t->tryres = 0;
            }
            else
                t->tryres = EAGAIN;
            return true;
        }
        case K_SPOST:
        {
            Sem &s = G.sems[t->obj];
            if (s.dead)
                err(mc::fmt("use-after-destroy: sem_post on destroyed semaphore by t%d(%s)", t->id, t->name));
            s.count++;
            return true;
        }
        default:
            return true;
        }
    }
    std::string opstr(Thread *t)
    {
        std::string s = mc::fmt("t%d:%s", t->id, kname[t->kind]);
        switch (t->kind)
        {
        case K_MLOCK:
        case K_MUNLOCK:
        case K_MTRYLOCK:
            s += "(" + oname(t->obj, 'm') + ")";
            break;
        case K_CWAIT:
        case K_CREACQ:
        case K_CSIGNAL:
        case K_CBROADCAST:
            s += "(" + oname(t->obj, 'c') + ")";
            break;
        case K_SWAIT:
        case K_SPOST:
        case K_STRYWAIT:
            s += "(" + oname(t->obj, 's') + ")";
            break;
        case K_PRED:
            s += std::string("(") + t->what + ")";
            break;
        default:
            break;
        }
        return s;
    }
    bool scheduled() { return me && G.active; }

    template <class F> F real(const char *n)
    {
        void *p = dlsym(RTLD_NEXT, n);
        return (F)p;
    }
}

namespace sched
{
    void begin(const Options &o)
    {
        G.opt = o;
        G.threads.clear();
        G.mutexes.clear();
        G.conds.clear();
        G.sems.clear();
        G.names.clear();
        G.nm = G.nc = G.ns = 0;
        G.res = Result();
        G.ctl_fut = 0;
        G.active = true;
    }
    int spawn(std::function<void()> body, const char *name)
    {
        Thread *t = new Thread;
        t->id = (int)G.threads.size();
        t->body = std::move(body);
        t->name = name;
        G.threads.push_back(t);
        pthread_attr_t at;
        pthread_attr_init(&at);
        pthread_attr_setstacksize(&at, 256 * 1024);
        if (pthread_create(&t->pt, &at, tramp, t))
            mc::harness_error("pthread_create failed");
        pthread_attr_destroy(&at);
        wait_ctl(); // parked at K_START
        return t->id;
    }
    Result run()
    {
        int cur = -1, preempt = 0, steps = 0, nchoice = 0, spurious = 0;
        uint64_t h = 1469598103934665603ull;
        bool decided = G.opt.nshard <= 1, drain = false;
        std::string trace;
        for (;;)
        {
            std::vector<int> en;
            bool cur_en = false;
            for (Thread *t : G.threads)
                if (!t->done && enabled(t))
                {
                    if (t->id == cur)
                        cur_en = true;
                    else
                        en.push_back(t->id);
                }
            if (cur_en)
                en.insert(en.begin(), cur);
            if (en.empty())
            { // quiescent: a thread waiting for exactly that may go
                for (Thread *t : G.threads)
                    if (!t->done && t->kind == K_IDLE)
                    {
                        en.push_back(t->id);
                        break;
                    }
            }
            if (en.empty())
                break;
            if (++steps > G.opt.horizon)
            {
                G.res.horizon_hit = true;
                break;
            }
            int n = (cur_en && preempt >= G.opt.preemption_bound) ? 1 : (int)en.size();
            // environment deviation: a thread parked in a condition wait may be woken spuriously
            std::vector<int> spur;
            if (spurious < G.opt.spurious_bound && !drain)
                for (Thread *t : G.threads)
                    if (!t->done && t->kind == K_CREACQ && !t->signalled)
                        spur.push_back(t->id);
            int nthreads_alt = n;
            n += (int)spur.size();
            int k = 0;
            if (n > 1 && !drain)
            {
                k = mc::choose(n);
                nchoice++;
                h = (h ^ (uint64_t)(n * 131 + k)) * 1099511628211ull;
                if (!decided && nchoice == G.opt.shard_depth)
                {
                    decided = true;
                    if ((int)((h >> 17) % (uint64_t)G.opt.nshard) != G.opt.shard)
                    {
                        drain = true;
                        G.res.skipped = true;
                    }
                }
            }
            if (k >= nthreads_alt)
            { // spurious wake-up of spur[k - nthreads_alt]: it leaves the wait set and will re-acquire the mutex
                Thread *sp = G.threads[spur[k - nthreads_alt]];
                Cond &cc = G.conds[sp->obj];
                for (size_t q = 0; q < cc.waiters.size(); q++)
                    if (cc.waiters[q] == sp->id)
                    {
                        cc.waiters.erase(cc.waiters.begin() + q);
                        break;
                    }
                sp->signalled = true;
                spurious++;
                if (trace.size() < 3000)
                    trace += mc::fmt("env:spurious_wakeup(t%d) ", sp->id);
                continue;
            }
            Thread *t = G.threads[en[k]];
            if (cur_en && t->id != cur)
                preempt++;
            if (trace.size() < 3000)
                trace += opstr(t) + " ";
            int extra = 0;
            bool go = perform(t, extra);
            nchoice += extra;
            cur = t->id;
            if (go)
                resume(t);
        }
        if (!decided)
            G.res.skipped = (int)((h >> 17) % (uint64_t)G.opt.nshard) != G.opt.shard;
        G.res.steps = steps;
        G.res.preemptions = preempt;
        G.res.spurious = spurious;
        G.res.choice_points = nchoice;
        G.res.trace = trace;
        bool all = true;
        for (Thread *t : G.threads)
            if (!t->done)
            {
                all = false;
                G.res.blocked.push_back(t->id);
                if (trace.size() < 3400)
                    G.res.trace += mc::fmt("[t%d blocked at %s] ", t->id, opstr(t).c_str());
            }
        G.res.deadlock = !all && !G.res.horizon_hit;
        G.active = false;
        for (Thread *t : G.threads)
        {
            if (t->done)
            {
                pthread_join(t->pt, nullptr);
                delete t;
            }
            else
            {
                pthread_detach(t->pt); // stays parked forever; the worker process is recycled by the harness
                G.leaked++;
            }
        }
        G.threads.clear();
        return G.res;
    }
    void yield()
    {
        if (!scheduled())
            return;
        me->kind = K_YIELD;
        park(me);
    }
    void wait_until(std::function<bool()> pred, const char *what)
    {
        if (!scheduled())
        {
            while (!pred())
                usleep(50);
            return;
        }
        me->kind = K_PRED;
        me->pred = std::move(pred);
        me->what = what;
        park(me);
        me->pred = nullptr;
    }
    void wait_idle()
    {
        if (!scheduled())
            return;
        me->kind = K_IDLE;
        park(me);
    }
    int self() { return me ? me->id : -1; }
    void note(const char *) {}
    int leaked_threads() { return G.leaked; }
}

// ---------------------------------------------------------------- interposed entry points
extern "C"
{
    int pthread_mutex_lock(pthread_mutex_t *m)
    {
        if (!scheduled())
        {
            static auto f = real<int (*)(pthread_mutex_t *)>("pthread_mutex_lock");
            return f(m);
        }
        check_alive(me, m, "mutex lock");
        me->kind = K_MLOCK;
        me->obj = m;
        park(me);
        if (__tsan_acquire)
            __tsan_acquire(m);
        return 0;
    }
    int pthread_mutex_trylock(pthread_mutex_t *m)
    {
        if (!scheduled())
        {
            static auto f = real<int (*)(pthread_mutex_t *)>("pthread_mutex_trylock");
            return f(m);
        }
        check_alive(me, m, "mutex trylock");
        me->kind = K_MTRYLOCK;
        me->obj = m;
        park(me);
        if (me->tryres == 0 && __tsan_acquire)
            __tsan_acquire(m);
        return me->tryres;
    }
    int pthread_mutex_unlock(pthread_mutex_t *m)
    {
        if (!scheduled())
        {
            static auto f = real<int (*)(pthread_mutex_t *)>("pthread_mutex_unlock");
            return f(m);
        }
        check_alive(me, m, "mutex unlock");
        if (__tsan_release)
            __tsan_release(m);
        me->kind = K_MUNLOCK;
        me->obj = m;
        park(me);
        if (G.opt.post_release_points)
        { // the release has taken effect; whoever wants the lock may now run before we continue
            me->kind = K_YIELD;
            me->obj = nullptr;
            park(me);
        }
        return 0;
    }
    int pthread_cond_wait(pthread_cond_t *c, pthread_mutex_t *m)
    {
        if (!scheduled())
        {
            static auto f = real<int (*)(pthread_cond_t *, pthread_mutex_t *)>("pthread_cond_wait");
            return f(c, m);
        }
        check_alive(me, c, "cond wait");
        if (__tsan_release)
            __tsan_release(m);
        me->kind = K_CWAIT;
        me->obj = c;
        me->obj2 = m;
        park(me); // returns after the modelled wait AND re-acquisition
        if (__tsan_acquire)
            __tsan_acquire(m);
        return 0;
    }
    int pthread_cond_signal(pthread_cond_t *c)
    {
        if (!scheduled())
        {
            static auto f = real<int (*)(pthread_cond_t *)>("pthread_cond_signal");
            return f(c);
        }
        check_alive(me, c, "cond signal");
        me->kind = K_CSIGNAL;
        me->obj = c;
        park(me);
        return 0;
    }
    int pthread_cond_broadcast(pthread_cond_t *c)
    {
        if (!scheduled())
        {
            static auto f = real<int (*)(pthread_cond_t *)>("pthread_cond_broadcast");
            return f(c);
        }
        check_alive(me, c, "cond broadcast");
        me->kind = K_CBROADCAST;
        me->obj = c;
        park(me);
        return 0;
    }
    int pthread_cond_destroy(pthread_cond_t *c)
    {
        if (!scheduled())
        {
            static auto f = real<int (*)(pthread_cond_t *)>("pthread_cond_destroy");
            return f(c);
        }
        Cond &cc = G.conds[c];
        if (!cc.waiters.empty())
            err(mc::fmt("destroy-with-waiters: condition variable destroyed by t%d(%s) while threads wait on it", me->id, me->name));
        cc.dead = true;
        return 0;
    }
    int sem_init(sem_t *s, int sh, unsigned v)
    {
        if (!G.active)
        {
            static auto f = real<int (*)(sem_t *, int, unsigned)>("sem_init");
            return f(s, sh, v);
        }
        Sem &ss = G.sems[s];
        ss.count = (int)v;
        ss.dead = false;
        return 0;
    }
    int sem_destroy(sem_t *s)
    {
        auto it = G.sems.find(s);
        if (it == G.sems.end())
        {
            static auto f = real<int (*)(sem_t *)>("sem_destroy");
            return f(s);
        }
        it->second.dead = true;
        return 0;
    }
    int sem_wait(sem_t *s)
    {
        if (!scheduled())
        {
            auto it = G.sems.find(s);
            if (it != G.sems.end())
            { // controller thread during set-up/tear-down on a modelled semaphore: must not block
                if (it->second.count <= 0)
                    mc::harness_error("controller would block in sem_wait");
                it->second.count--;
                return 0;
            }
            static auto f = real<int (*)(sem_t *)>("sem_wait");
            return f(s);
        }
        me->kind = K_SWAIT;
        me->obj = s;
        park(me);
        if (__tsan_acquire)
            __tsan_acquire(s);
        return 0;
    }
    int sem_trywait(sem_t *s)
    {
        if (!scheduled())
        {
            static auto f = real<int (*)(sem_t *)>("sem_trywait");
            return f(s);
        }
        me->kind = K_STRYWAIT;
        me->obj = s;
        park(me);
        if (me->tryres == 0)
        {
            if (__tsan_acquire)
                __tsan_acquire(s);
            return 0;
        }
        errno = EAGAIN;
        return -1;
    }
    int sem_post(sem_t *s)
    {
        if (!scheduled())
        {
            auto it = G.sems.find(s);
            if (it != G.sems.end())
            {
                it->second.count++;
                return 0;
            }
            static auto f = real<int (*)(sem_t *)>("sem_post");
            return f(s);
        }
        me->kind = K_SPOST;
        me->obj = s;
        park(me);
        // The release edge is published only now, when the post has taken effect in the model. (For a
        // mutex an early release is harmless - nobody can acquire it before the unlock is performed -
        // but a semaphore with a count above one lets another thread in while this one is still parked
        // in front of its post, and that thread must NOT inherit a happens-before edge from here.)
        if (__tsan_release)
            __tsan_release(s);
        if (G.opt.post_release_points)
        {
            me->kind = K_YIELD;
            me->obj = nullptr;
            park(me);
        }
        return 0;
    }
    int sem_getvalue(sem_t *s, int *v)
    {
        auto it = G.sems.find(s);
        if (it == G.sems.end())
        {
            static auto f = real<int (*)(sem_t *, int *)>("sem_getvalue");
            return f(s, v);
        }
        *v = it->second.count;
        return 0;
    }
}
