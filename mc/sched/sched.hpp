// sched.hpp — preemption-bounded controlled scheduler over interposed
// pthread / POSIX-semaphore operations (shape T).
//
// Threads are real pthreads, but exactly one runs at a time: every hooked
// synchronisation operation is a scheduling point where the thread parks and the
// controller (the thread running the mc case body) picks who goes next through
// mc::choose().  The real blocking primitives are never entered by registered
// threads; mutexes, condition variables and semaphores are MODELLED (owner, depth,
// wait sets, counts), so "no enabled thread" is a deadlock the controller sees.
//
// sched.cpp must be compiled WITHOUT sanitizers: its futex hand-offs are then
// invisible to ThreadSanitizer, which sees only the modelled synchronisation
// (annotated with __tsan_acquire/__tsan_release) — so a TSan build of the harness
// reports races of the code under test deterministically, schedule by schedule.
#pragma once
#include <functional>
#include <string>
#include <vector>

namespace sched
{
    struct Options
    {
        int preemption_bound = 2;
        int horizon = 400;   // scheduling points per execution
        bool post_release_points = false; // an extra scheduling point right AFTER every mutex unlock / sem_post took effect: what a
                                          // thread does after releasing (plain stores, atomics) can then interleave with the next owner
        int spurious_bound = 0; // environment deviation: up to this many spurious condition-variable wake-ups (POSIX allows them)
        int shard = 0;       // harness-level partition of the schedule space:
        int nshard = 1;      //   executions whose first `shard_depth` decisions hash to another shard
        int shard_depth = 5; //   are run to completion without further branching and flagged `skipped`
    };
    struct Result
    {
        bool deadlock = false;   // some thread not finished and none enabled
        bool horizon_hit = false;
        bool skipped = false;    // owned by another shard: discard (throw mc::Skip)
        int steps = 0, preemptions = 0, choice_points = 0, spurious = 0;
        std::vector<int> blocked;        // thread ids still blocked at the end
        std::vector<std::string> errors; // model-level errors: use of a destroyed object, unlock by non-owner, ...
        std::string trace;               // "t0:lock(m0) t1:..." object ids in order of first use
    };

    void begin(const Options &o);                       // fresh model state for one execution
    int spawn(std::function<void()> body, const char *name); // thread parked at its start; returns id 0..n-1
    Result run();                                       // run all threads to completion / deadlock
    // to be called from spawned threads:
    void yield();                                                // explicit scheduling point
    void wait_until(std::function<bool()> pred, const char *what); // blocking predicate (no spinning)
    void wait_idle();                                            // enabled only when no other thread can run (quiescence)
    int self();                                                  // thread id, -1 = not a scheduled thread
    void note(const char *what);                                 // appended to the trace
    // model knowledge the harness may want
    int leaked_threads();   // threads left parked by deadlocked executions in this process
}
