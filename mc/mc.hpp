// mc.hpp — bounded exhaustive exploration engine shared by all harnesses.
//
// Two exploration shapes, both run on the REAL igris code in forked workers
// (a crash, sanitizer abort or hang of the code under test is an observation,
// never the end of the check):
//
//   tree  (add_check):  the body is run once per leaf of its choice tree;
//                       mc::choose(n) is a choice point; DFS/odometer order;
//                       sharded over workers by the FIRST choice (make it wide).
//   bfs   (add_bfs):    explicit-state breadth-first search over operation
//                       histories of a Model; states de-duplicated on
//                       Model::key(); state = history replayed on a fresh Model.
//
// Harness code reports through mc::violation(sig, ...). `sig` is the finding
// signature matched (exactly) against /verif/findings/known_findings.txt by the
// driver; make it as narrow as the root cause allows.
#pragma once
#include <cstdarg>
#include <cstdint>
#include <cstdio>
#include <functional>
#include <memory>
#include <string>
#include <vector>

namespace mc
{
    struct Abort
    {
    }; // thrown to abandon the current case (it still counts as an explored leaf); never swallow it
    struct Skip
    {
    }; // thrown to drop the current case entirely (not counted, reports discarded): used by
       // harness-level partitioning, where another worker owns this part of the space
    void request_restart(); // finish and commit the current case, then continue in a fresh worker
                            // process (harnesses that leak parked threads / fake stacks)

    bool thorough(); // tier
    int jobs();      // worker processes

    // ---- choice points (tree shape; also usable inside Model::apply? no) ----
    int choose(int n);               // one of 0..n-1, every alternative explored
    int choose_dev(int n, int dflt); // "environment answer": non-default costs 1 deviation
    void set_dev_bound(int k);       // per check, call at the start of the body
    int deviations();                // deviations taken so far in this case

    // ---- reporting ----
    void violation(const std::string &sig, const char *fmt, ...)
        __attribute__((format(printf, 2, 3)));
    bool case_has_violation();
    void nontrivial();                     // this case / transition reached the interesting part
    void outcome(const std::string &s);    // distinct observable outcomes (counted)
    void describe(const char *fmt, ...)    // human readable form of the current case
        __attribute__((format(printf, 1, 2)));
    void crash_context(const char *fmt, ...) // signature used if the process dies/hangs from here on
        __attribute__((format(printf, 1, 2)));
    void tick();                           // heartbeat for long cases
    void more_cases(uint64_t n, uint64_t nontriv = 0); // n further inputs were enumerated by a loop inside this case
    void cap(const std::string &what);     // a bound other than the stated one was hit
    void count(const std::string &name, long n = 1); // extra per-check counters
    void harness_error(const char *fmt, ...) __attribute__((format(printf, 1, 2), noreturn));

    // run f(); a SIGSEGV/SIGBUS inside it is caught (guard pages). false = faulted.
    bool guarded(const std::function<void()> &f);

    // ---- registration ----
    void add_check(const std::string &name, std::function<void()> body, bool thorough_only = false);

    struct Model
    {
        virtual ~Model() {}
        virtual int nops() = 0;
        virtual bool apply(int op) = 0; // false: op not enabled in this state (state untouched)
        virtual std::string key() = 0;  // canonical impl-state (+) reference-state
        virtual std::string opname(int op) = 0;
    };
    struct BfsOpts
    {
        int depth_quick = 1000;
        int depth_thorough = 1000;
        long max_states = 4000000;
        bool thorough_only = false;
    };
    void add_bfs(const std::string &name,
                 std::function<std::unique_ptr<Model>()> factory,
                 BfsOpts opts = BfsOpts());

    int main_(int argc, char **argv);

    std::string fmt(const char *f, ...) __attribute__((format(printf, 1, 2)));
    std::string hex(const void *p, size_t n);
}

#define MC_CAT2(a, b) a##b
#define MC_CAT(a, b) MC_CAT2(a, b)
// static registration helper: MC_INIT { mc::add_check(...); }
#define MC_INIT                                                                \
    static void MC_CAT(mc_init_fn_, __LINE__)();                               \
    namespace                                                                  \
    {                                                                          \
        struct MC_CAT(mc_init_t_, __LINE__)                                    \
        {                                                                      \
            MC_CAT(mc_init_t_, __LINE__)() { MC_CAT(mc_init_fn_, __LINE__)(); } \
        } MC_CAT(mc_init_v_, __LINE__);                                        \
    }                                                                          \
    static void MC_CAT(mc_init_fn_, __LINE__)()
#define MC_MAIN                                                                \
    int main(int c, char **v) { return mc::main_(c, v); }
