// mc.cpp — implementation of the exploration engine (see mc.hpp).
// Compiled WITHOUT sanitizers is fine; it never touches the code under test.
#include "mc.hpp"

#include <algorithm>
#include <atomic>
#include <csetjmp>
#include <csignal>
#include <cstdlib>
#include <cstring>
#include <ctime>
#include <fcntl.h>
#include <map>
#include <set>
#include <sys/mman.h>
#include <sys/stat.h>
#include <sys/types.h>
#include <sys/wait.h>
#include <unistd.h>
#include <unordered_set>

// Coverage builds (tools/coverage.sh compiles everything with --coverage -DMC_COVERAGE): workers leave
// through _exit, which skips the gcov atexit dump, so flush the counters by hand.
#ifdef MC_COVERAGE
// mc.cpp itself is compiled without --coverage (it may be built by a different compiler than the harness
// TUs and the two gcov runtimes do not mix); the weak reference binds to the runtime the harness objects bring.
extern "C" void __gcov_dump(void) __attribute__((weak));
[[noreturn]] static inline void mc_exit(int c) { if (__gcov_dump) __gcov_dump(); _exit(c); }
#else
[[noreturn]] static inline void mc_exit(int c) { _exit(c); }
#endif

extern "C" const char *__asan_default_options()
{
    return "abort_on_error=1:detect_leaks=0:detect_stack_use_after_return=1:"
           "allocator_may_return_null=1:handle_abort=0:print_summary=1";
}
extern "C" const char *__tsan_default_options()
{
    return "halt_on_error=1:abort_on_error=1:die_after_fork=0:report_signal_unsafe=0:history_size=2";
}
extern "C" const char *__ubsan_default_options()
{
    return "halt_on_error=1:abort_on_error=1:print_stacktrace=0";
}

namespace mc
{
    static const int MAXD = 2048;
    static const int MAXW = 64;
    static const int OUTN = 1 << 16;

    struct Slot
    {
        std::atomic<uint64_t> progress;
        int chlen;
        int depth;
        int ch[MAXD];
        int ar[MAXD];
        char crash_sig[200];
        char desc[600];
        long item;
        int op;
        int in_case;
        int redo; // bfs: the interrupted transition must be executed again by the resumed worker
    };
    struct Shared
    {
        std::atomic<uint64_t> evals, nodes, edges, nontriv, viol, cut, disabled;
        std::atomic<int> n0, next_unit, stop, capped;
        std::atomic<long> next_item;
        std::atomic<uint64_t> outc[OUTN];
        Slot slot[MAXW];
    };

    struct Check
    {
        std::string name;
        bool is_bfs;
        bool thorough_only = false;
        std::function<void()> body;
        std::function<std::unique_ptr<Model>()> factory;
        BfsOpts opts;
    };
    static std::vector<Check> &checks()
    {
        static std::vector<Check> c;
        return c;
    }

    // ---- global (per process) state ----
    static bool g_thorough = false;
    static int g_jobs = 16;
    static double g_deadline = 1e18; // absolute monotonic seconds
    static double g_case_limit = 3;
    static std::string g_out = ".";
    static Shared *S = nullptr;
    static int g_w = -1; // worker index, -1 = supervisor / replay
    static Slot *slot = nullptr;
    static Check *cur = nullptr;
    static FILE *g_log = nullptr;
    static bool g_replay_mode = false;  // --case: print to stdout
    static bool g_bfs_replaying = false; // rebuilding a state: reports suppressed

    // per case
    static std::vector<int> ch, ar;
    static int depth = 0, fresh_from = 0;
    static int dev_bound = 1 << 30, dev_count = 0;
    static bool case_viol = false, case_nontriv = false;
    static uint64_t case_edges = 0;
    static std::string case_desc;
    static std::vector<std::string> case_v;   // buffered V lines
    static std::vector<uint64_t> case_outc;
    static std::map<std::string, long> counters, sigcount, sigdelta;
    static std::set<std::string> capset;
    static long samples_written = 0;
    static uint64_t my_evals = 0;
    static std::vector<uint16_t> bfs_hist;
    static int bfs_op = -1;

    static double now()
    {
        timespec ts;
        clock_gettime(CLOCK_MONOTONIC, &ts);
        return ts.tv_sec + ts.tv_nsec * 1e-9;
    }
    std::string fmt(const char *f, ...)
    {
        char b[4096];
        va_list ap;
        va_start(ap, f);
        vsnprintf(b, sizeof b, f, ap);
        va_end(ap);
        return b;
    }
    std::string hex(const void *p, size_t n)
    {
        std::string s;
        char b[4];
        for (size_t i = 0; i < n; i++)
        {
            snprintf(b, sizeof b, "%02x", ((const unsigned char *)p)[i]);
            s += b;
        }
        return s;
    }
    static std::string clean(std::string s)
    {
        for (auto &c : s)
            if (c == '\t' || c == '\n' || c == '\r')
                c = ' ';
            else if ((unsigned char)c < 0x20 || (unsigned char)c > 0x7e)
                c = '?';
        return s;
    }
    static std::string jesc(const std::string &s)
    {
        std::string o;
        for (unsigned char c : s)
        {
            if (c == '"' || c == '\\')
            {
                o += '\\';
                o += c;
            }
            else if (c < 0x20 || c > 0x7e)
                o += fmt("\\u%04x", c);
            else
                o += c;
        }
        return o;
    }

    bool thorough() { return g_thorough; }
    int jobs() { return g_jobs; }

    void harness_error(const char *f, ...)
    {
        char b[2048];
        va_list ap;
        va_start(ap, f);
        vsnprintf(b, sizeof b, f, ap);
        va_end(ap);
        fprintf(stderr, "HARNESS-ERROR: %s\n", b);
        fflush(stderr);
        int fd = open((g_out + "/harness_error.txt").c_str(), O_WRONLY | O_CREAT | O_APPEND, 0644);
        if (fd >= 0)
        {
            (void)!write(fd, b, strlen(b));
            (void)!write(fd, "\n", 1);
            close(fd);
        }
        mc_exit(3);
    }

    static std::string case_id()
    {
        std::string s = cur ? cur->name : "?";
        s += ":";
        if (cur && cur->is_bfs)
        {
            for (size_t i = 0; i < bfs_hist.size(); i++)
                s += fmt("%s%d", i ? "," : "", bfs_hist[i]);
            if (bfs_op >= 0)
                s += fmt("%s%d", bfs_hist.empty() ? "" : ",", bfs_op);
        }
        else
            for (int i = 0; i < depth; i++)
                s += fmt("%s%d", i ? "," : "", ch[i]);
        return s;
    }

    // ---------------- choice points ----------------
    int choose(int n)
    {
        if (n <= 0)
            harness_error("choose(%d) in %s", n, cur ? cur->name.c_str() : "?");
        if (cur && cur->is_bfs)
            harness_error("choose() inside a bfs model");
        int d = depth;
        if (d >= MAXD)
            harness_error("choice depth > %d", MAXD);
        int c;
        if (d < (int)ch.size())
        {
            if (ar[d] == -2)
            { // --case replay: arities are learnt, choices must be in range
                ar[d] = n;
                if (ch[d] >= n)
                    harness_error("replay: choice %d at depth %d out of range (arity %d)", ch[d], d, n);
            }
            else if (d == 0 && ar[0] < 0)
            { // forced first choice (unit), arity learnt now
                ar[0] = n;
                S->n0.store(n);
                if (slot)
                    slot->ar[0] = n;
                if (ch[0] >= n)
                    throw Abort();
            }
            else if (ar[d] != n)
                harness_error("nondeterministic choice tree in %s at depth %d: arity %d then %d (case %s)",
                              cur->name.c_str(), d, ar[d], n, case_id().c_str());
            c = ch[d];
        }
        else
        {
            ch.push_back(0);
            ar.push_back(n);
            c = 0;
            if (slot)
            {
                slot->ch[d] = 0;
                slot->ar[d] = n;
                slot->chlen = d + 1;
            }
        }
        if (d >= fresh_from)
            case_edges++;
        depth++;
        if (slot)
            slot->depth = depth;
        return c;
    }
    void set_dev_bound(int k) { dev_bound = k; }
    int deviations() { return dev_count; }
    int choose_dev(int n, int dflt)
    {
        if (dev_count >= dev_bound)
        {
            choose(1);
            return dflt;
        }
        int c = choose(n);
        // order: default first, then the others ascending
        int v = (c == 0) ? dflt : (c - 1 < dflt ? c - 1 : c);
        if (v != dflt)
            dev_count++;
        return v;
    }

    // ---------------- reporting ----------------
    bool case_has_violation() { return case_viol; }
    void violation(const std::string &sig, const char *f, ...)
    {
        if (g_bfs_replaying)
            return;
        char b[4096];
        va_list ap;
        va_start(ap, f);
        vsnprintf(b, sizeof b, f, ap);
        va_end(ap);
        case_viol = true;
        long &n = sigcount[sig];
        n++;
        sigdelta[sig]++;
        if (n <= 3 || g_replay_mode)
        {
            std::string line = "V\t" + (cur ? cur->name : "?") + "\t" + clean(sig) + "\t" +
                               case_id() + "\toracle\t" + clean(case_desc) + " :: " + clean(b);
            case_v.push_back(line);
        }
    }
    void nontrivial()
    {
        if (!g_bfs_replaying)
            case_nontriv = true;
    }
    void outcome(const std::string &s)
    {
        if (g_bfs_replaying)
            return;
        uint64_t h = 1469598103934665603ull;
        for (unsigned char c : s)
            h = (h ^ c) * 1099511628211ull;
        if (!h)
            h = 1;
        case_outc.push_back(h);
    }
    void describe(const char *f, ...)
    {
        char b[1024];
        va_list ap;
        va_start(ap, f);
        vsnprintf(b, sizeof b, f, ap);
        va_end(ap);
        case_desc = b;
        if (slot)
        {
            strncpy(slot->desc, b, sizeof slot->desc - 1);
            slot->desc[sizeof slot->desc - 1] = 0;
        }
    }
    void crash_context(const char *f, ...)
    {
        char b[200];
        va_list ap;
        va_start(ap, f);
        vsnprintf(b, sizeof b, f, ap);
        va_end(ap);
        if (slot)
        {
            strncpy(slot->crash_sig, b, sizeof slot->crash_sig - 1);
            slot->crash_sig[sizeof slot->crash_sig - 1] = 0;
        }
    }
    void tick()
    {
        if (slot)
            slot->progress++;
    }
    void more_cases(uint64_t n, uint64_t nt)
    {
        if (g_bfs_replaying || !S)
            return;
        S->evals += n;
        S->edges += n;
        S->nontriv += nt;
        if (slot)
            slot->progress++;
    }
    static bool g_restart = false;
    void request_restart() { g_restart = true; }
    void cap(const std::string &what)
    {
        if (capset.insert(what).second && g_log)
        {
            fprintf(g_log, "K\t%s\t%s\n", cur ? cur->name.c_str() : "?", clean(what).c_str());
            fflush(g_log);
        }
        if (S)
            S->capped.store(1);
    }
    void count(const std::string &name, long n)
    {
        if (!g_bfs_replaying)
            counters[name] += n;
    }

    static sigjmp_buf g_jb;
    static volatile sig_atomic_t g_in_guard = 0;
    static void segv_h(int sig)
    {
        if (g_in_guard)
            siglongjmp(g_jb, 1);
        signal(sig, SIG_DFL);
        raise(sig);
    }
    bool guarded(const std::function<void()> &f)
    {
        static bool inst = false;
        if (!inst)
        {
            struct sigaction sa;
            memset(&sa, 0, sizeof sa);
            sa.sa_handler = segv_h;
            sa.sa_flags = SA_NODEFER;
            sigaction(SIGSEGV, &sa, nullptr);
            sigaction(SIGBUS, &sa, nullptr);
            inst = true;
        }
        if (sigsetjmp(g_jb, 1))
        {
            g_in_guard = 0;
            return false;
        }
        g_in_guard = 1;
        f();
        g_in_guard = 0;
        return true;
    }

    void add_check(const std::string &name, std::function<void()> body, bool thorough_only)
    {
        Check c;
        c.name = name;
        c.thorough_only = thorough_only;
        c.is_bfs = false;
        c.body = body;
        checks().push_back(c);
    }
    void add_bfs(const std::string &name, std::function<std::unique_ptr<Model>()> factory, BfsOpts o)
    {
        Check c;
        c.name = name;
        c.is_bfs = true;
        c.factory = factory;
        c.opts = o;
        c.thorough_only = o.thorough_only;
        checks().push_back(c);
    }

    // ---------------- per-case begin / commit ----------------
    static void begin_case()
    {
        depth = 0;
        dev_bound = 1 << 30;
        dev_count = 0;
        case_viol = false;
        case_nontriv = false;
        case_edges = 0;
        case_desc.clear();
        case_v.clear();
        case_outc.clear();
        if (slot)
        {
            slot->depth = 0;
            slot->crash_sig[0] = 0;
            slot->desc[0] = 0;
            slot->in_case = 1;
            slot->progress++;
        }
    }
    static void flush_counters()
    {
        if (!g_log)
            return;
        for (auto &kv : counters)
            fprintf(g_log, "C\t%s\t%s\t%ld\n", cur->name.c_str(), clean(kv.first).c_str(), kv.second);
        for (auto &kv : sigdelta)
            fprintf(g_log, "N\t%s\t%s\t%ld\n", cur->name.c_str(), clean(kv.first).c_str(), kv.second);
        counters.clear();
        sigdelta.clear();
        fflush(g_log);
    }
    static void commit_case(bool is_transition)
    {
        if (!is_transition)
            S->evals++;
        S->edges += case_edges;
        case_edges = 0;
        my_evals++;
        if (case_nontriv)
            S->nontriv++;
        if (case_viol)
            S->viol++;
        for (auto h : case_outc)
        {
            uint64_t i = h % OUTN;
            for (int k = 0; k < OUTN; k++, i = (i + 1) % OUTN)
            {
                uint64_t e = S->outc[i].load();
                if (e == h)
                    break;
                if (e == 0)
                {
                    uint64_t z = 0;
                    if (S->outc[i].compare_exchange_strong(z, h) || z == h)
                        break;
                }
            }
        }
        FILE *o = g_replay_mode ? stdout : g_log;
        if (o)
        {
            for (auto &l : case_v)
                fprintf(o, "%s\n", l.c_str());
            bool sample = !is_transition && !case_desc.empty() &&
                          (my_evals == 1 || my_evals == 100 || my_evals == 10000 || my_evals == 1000000);
            if (sample && !g_replay_mode)
                fprintf(o, "S\t%s\t%s\t%s\n", cur->name.c_str(), case_id().c_str(), clean(case_desc).c_str());
            if (!case_v.empty() || sample)
                fflush(o);
        }
        if (slot)
            slot->in_case = 0;
    }

    // advance odometer; false when the unit (first choice fixed) is exhausted
    static bool advance()
    {
        while ((int)ch.size() > 1 && ch.back() + 1 >= ar.back())
        {
            ch.pop_back();
            ar.pop_back();
        }
        if ((int)ch.size() <= 1)
            return false;
        ch.back()++;
        fresh_from = (int)ch.size() - 1;
        if (slot)
        {
            slot->chlen = (int)ch.size();
            slot->ch[ch.size() - 1] = ch.back();
        }
        return true;
    }

    static void run_one_case()
    {
        begin_case();
        int must_reach = (int)ch.size();
        bool done = false;
        try
        {
            cur->body();
            done = true;
        }
        catch (Abort &)
        {
        }
        catch (Skip &)
        {
            if (slot)
                slot->in_case = 0;
            return;
        }
        if (done && depth < must_reach)
            harness_error("nondeterministic choice tree in %s: case ended at depth %d, expected >= %d",
                          cur->name.c_str(), depth, must_reach);
        if (done)
        {
            if (depth == 0)
            { // a body without choices is one case, owned by unit 0
                S->n0.store(1);
                if (ch[0] != 0)
                    return;
            }
            commit_case(false);
        }
        else if (depth > 0 && !(depth == 1 && ar[0] >= 0 && ch[0] >= ar[0]))
        {
            // Abort thrown by harness to skip the case: still counts as explored leaf
            commit_case(false);
        }
    }

    static void tree_worker(bool resume)
    {
        if (resume)
        {
            ch.assign(slot->ch, slot->ch + slot->chlen);
            ar.assign(slot->ar, slot->ar + slot->chlen);
            bool more = advance();
            if (more)
                goto unit_loop;
        }
        for (;;)
        {
            {
                if (S->stop.load())
                    break;
                int c0 = S->next_unit.fetch_add(1);
                int n0 = S->n0.load();
                if (n0 >= 0 && c0 >= n0)
                    break;
                ch.assign(1, c0);
                ar.assign(1, -1);
                fresh_from = 0;
                if (slot)
                {
                    slot->chlen = 1;
                    slot->ch[0] = c0;
                    slot->ar[0] = -1;
                }
            }
        unit_loop:
            for (;;)
            {
                run_one_case();
                if (g_restart)
                {
                    flush_counters();
                    fclose(g_log);
                    fflush(nullptr);
                    mc_exit(4);
                }
                if (ar[0] >= 0 && ch[0] >= ar[0])
                    break;
                if (depth == 0)
                    break;
                if (S->stop.load())
                    break;
                if (now() > g_deadline)
                {
                    S->stop.store(1);
                    cap("deadline");
                    break;
                }
                if (!advance())
                    break;
            }
            flush_counters();
        }
        flush_counters();
    }

    // ---------------- BFS ----------------
    struct Frontier
    {
        std::vector<std::vector<uint16_t>> hist;
        std::vector<std::string> key;
    };
    static Frontier g_front;

    static std::unique_ptr<Model> bfs_build(const std::vector<uint16_t> &h)
    {
        g_bfs_replaying = true;
        case_viol = false; // a state rebuild is never 'in' the previous transition's case
        std::unique_ptr<Model> m = cur->factory();
        for (size_t i = 0; i < h.size(); i++)
            if (!m->apply(h[i]))
                harness_error("bfs %s: replay of stored history: op %d (#%zu) is disabled", cur->name.c_str(), h[i], i);
        g_bfs_replaying = false;
        return m;
    }

    static void bfs_item(long i, int from_op, FILE *rec)
    {
        bfs_hist = g_front.hist[i];
        bfs_op = -1;
        slot->item = i; // from here on a death belongs to this item
        slot->op = from_op - 1;
        std::unique_ptr<Model> m = bfs_build(bfs_hist);
        if (from_op == 0)
        {
            g_bfs_replaying = true;
            std::string k = m->key();
            g_bfs_replaying = false;
            if (k != g_front.key[i])
                harness_error("bfs %s: canon-on-replay mismatch for history %s: stored %s, rebuilt %s",
                              cur->name.c_str(), case_id().c_str(), clean(g_front.key[i]).c_str(), clean(k).c_str());
            if (samples_written < 3 && (i % 97 == 0))
            {
                std::string d;
                for (auto o : bfs_hist)
                    d += m->opname(o) + "; ";
                fprintf(g_log, "S\t%s\t%s\t[%s] -> %s\n", cur->name.c_str(), case_id().c_str(), clean(d).c_str(),
                        clean(k).c_str());
                samples_written++;
            }
        }
        int n = m->nops();
        for (int op = from_op; op < n; op++)
        {
            if (!m)
                m = bfs_build(bfs_hist);
            bfs_op = op;
            begin_case();
            slot->item = i;
            slot->op = op;
            case_desc = m->opname(op);
            strncpy(slot->desc, case_desc.c_str(), sizeof slot->desc - 1);
            bool en = m->apply(op);
            if (!en)
            {
                S->disabled++;
                if (case_viol)
                    harness_error("bfs %s: violation reported by a disabled op %s", cur->name.c_str(), case_desc.c_str());
                slot->in_case = 0;
                continue;
            }
            S->edges++;
            if (case_viol)
            {
                S->cut++;
                // describe full history for the report
                std::string d;
                {
                    std::unique_ptr<Model> t = cur->factory();
                    for (auto o : bfs_hist)
                        d += t->opname(o) + "; ";
                    d += "THEN " + case_desc;
                }
                for (auto &l : case_v)
                    l += " :: history [" + clean(d) + "]";
                commit_case(true);
                m.reset();
                continue;
            }
            std::string k = m->key();
            commit_case(true);
            uint32_t ii = (uint32_t)i;
            uint16_t oo = (uint16_t)op;
            uint32_t kl = (uint32_t)k.size();
            fwrite(&ii, 4, 1, rec);
            fwrite(&oo, 2, 1, rec);
            fwrite(&kl, 4, 1, rec);
            fwrite(k.data(), 1, kl, rec);
            fflush(rec); // a later transition of this item may kill the worker: records must already be on disk
            m.reset();
        }
        bfs_op = -1;
    }

    static void bfs_worker(bool resume)
    {
        std::string rn = fmt("%s/bfs_w%d.bin", g_out.c_str(), g_w);
        FILE *rec = fopen(rn.c_str(), "ab");
        if (!rec)
            harness_error("cannot open %s", rn.c_str());
        if (resume)
        {
            bfs_item(slot->item, std::max(0, slot->op + (slot->redo ? 0 : 1)), rec);
            slot->redo = 0;
            fflush(rec);
        }
        long n = (long)g_front.hist.size();
        for (;;)
        {
            if (S->stop.load())
                break;
            if (now() > g_deadline)
            {
                S->stop.store(1);
                cap("deadline");
                break;
            }
            long i = S->next_item.fetch_add(1);
            if (i >= n)
                break;
            bfs_item(i, 0, rec);
            fflush(rec);
        }
        fclose(rec);
        flush_counters();
    }

    // ---------------- supervisor ----------------
    struct Viol
    {
        std::string sub, sig, cas, kind, detail;
    };
    struct SubResult
    {
        std::string name, kind;
        uint64_t evals = 0, states = 0, transitions = 0, nontriv = 0, viol = 0, cut = 0, disabled = 0, outcomes = 0;
        bool exhaustive = true;
        bool fixpoint = false;
        int depth_reached = 0;
        long frontier_left = 0;
        long crashes = 0, hangs = 0;
        std::vector<std::string> caps, samples;
        std::map<std::string, long> counters, sigcounts;
        double wall = 0;
    };
    static std::vector<Viol> g_viols;

    static std::string read_file(const std::string &p, size_t maxb = 1 << 20)
    {
        std::string s;
        FILE *f = fopen(p.c_str(), "rb");
        if (!f)
            return s;
        char b[65536];
        size_t n;
        while ((n = fread(b, 1, sizeof b, f)) > 0 && s.size() < maxb)
            s.append(b, n);
        fclose(f);
        return s;
    }

    static std::string death_kind(int status, const std::string &errtxt)
    {
        size_t p;
        if ((p = errtxt.find("ERROR: AddressSanitizer: ")) != std::string::npos)
        {
            std::string k = errtxt.substr(p + 25, 60);
            size_t e = k.find_first_of(" \n:");
            k = k.substr(0, e);
            if (k == "SEGV" || k == "BUS")
                return "segv";
            if (k == "unknown-crash")
                k = "heap-buffer-overflow"; // an access straddling the end of a block
            return "asan-" + k;
        }
        if ((p = errtxt.find("ThreadSanitizer: ")) != std::string::npos)
        {
            std::string k = errtxt.substr(p + 17, 60);
            size_t e = k.find_first_of("(\n");
            k = k.substr(0, e);
            while (!k.empty() && k.back() == ' ')
                k.pop_back();
            for (auto &ch2 : k)
                if (ch2 == ' ')
                    ch2 = '-';
            return "tsan-" + k;
        }
        if (errtxt.find("runtime error:") != std::string::npos)
            return "ubsan";
        if (errtxt.find("Assertion") != std::string::npos && errtxt.find("failed") != std::string::npos)
            return "assert";
        if (errtxt.find("stack smashing detected") != std::string::npos)
            return "stack-smash";
        if (errtxt.find("double free") != std::string::npos || errtxt.find("free(): invalid") != std::string::npos ||
            errtxt.find("malloc(): ") != std::string::npos || errtxt.find("corrupted") != std::string::npos)
            return "heap-corruption";
        if (WIFSIGNALED(status))
        {
            int s = WTERMSIG(status);
            if (s == SIGSEGV || s == SIGBUS)
                return "segv";
            if (s == SIGABRT)
                return "abort";
            if (s == SIGFPE)
                return "fpe";
            if (s == SIGILL)
                return "ill";
            return fmt("signal%d", s);
        }
        return fmt("exit%d", WEXITSTATUS(status));
    }

    static std::string slot_case(const Check &c, int w)
    {
        Slot &sl = S->slot[w];
        std::string s = c.name + ":";
        if (c.is_bfs)
        {
            const auto &h = g_front.hist[sl.item];
            for (size_t i = 0; i < h.size(); i++)
                s += fmt("%s%d", i ? "," : "", h[i]);
            s += fmt("%s%d", h.empty() ? "" : ",", sl.op);
        }
        else
            for (int i = 0; i < sl.chlen; i++)
                s += fmt("%s%d", i ? "," : "", sl.ch[i]);
        return s;
    }

    static pid_t spawn_worker(Check &c, int w, bool resume)
    {
        fflush(nullptr);
        pid_t p = fork();
        if (p < 0)
            harness_error("fork failed");
        if (p)
            return p;
        g_w = w;
        slot = &S->slot[w];
        cur = &c;
        std::string en = fmt("%s/w%d.err", g_out.c_str(), w);
        int fd = open(en.c_str(), O_WRONLY | O_CREAT | O_TRUNC, 0644);
        if (fd >= 0)
        {
            dup2(fd, 2);
            close(fd);
        }
        g_log = fopen(fmt("%s/w%d.log", g_out.c_str(), w).c_str(), "a");
        if (!g_log)
            mc_exit(3);
        if (c.is_bfs)
            bfs_worker(resume);
        else
            tree_worker(resume);
        fclose(g_log);
        fflush(nullptr);
        mc_exit(0);
    }

    // run one case alone (hang confirmation / --case replay). returns wait status; -1 = hang
    static int run_case_alone(Check &c, const std::vector<int> &choices, double limit, const std::string &logname,
                              bool to_stdout)
    {
        fflush(nullptr);
        pid_t p = fork();
        if (p == 0)
        {
            cur = &c;
            g_w = MAXW - 1;
            slot = &S->slot[MAXW - 1];
            g_replay_mode = to_stdout;
            if (!to_stdout)
                g_log = fopen(logname.c_str(), "a");
            if (c.is_bfs)
            {
                if (choices.empty())
                {
                    std::unique_ptr<Model> m = c.factory();
                    printf("key %s\n", clean(m->key()).c_str());
                    mc_exit(0);
                }
                std::vector<uint16_t> h(choices.begin(), choices.end() - 1);
                bfs_hist = h;
                std::unique_ptr<Model> m = bfs_build(h);
                bfs_op = choices.back();
                begin_case();
                case_desc = m->opname(bfs_op);
                if (to_stdout)
                {
                    std::unique_ptr<Model> t = c.factory();
                    for (auto o : h)
                        printf("op %s\n", t->opname(o).c_str());
                    printf("op %s   <-- checked transition\n", case_desc.c_str());
                }
                bool en = m->apply(bfs_op);
                if (to_stdout)
                    printf("enabled=%d key=%s\n", (int)en, en && !case_viol ? clean(m->key()).c_str() : "-");
                if (to_stdout)
                    commit_case(true); // a hang-confirmation run is executed again by the resumed worker
            }
            else
            {
                ch = choices;
                ar.assign(ch.size(), 0);
                // arities unknown in replay: accept any
                depth = 0;
                begin_case();
                struct R
                {
                };
                // replay: choose() must not check arities -> mark with ar=-2
                for (auto &a : ar)
                    a = -2;
                fresh_from = 1 << 30;
                try
                {
                    // temporarily relax arity check by patching ar during choose (see below)
                    cur->body();
                }
                catch (Abort &)
                {
                }
                catch (Skip &)
                {
                    if (to_stdout)
                        printf("case skipped by the harness (owned by another partition)\n");
                    fflush(nullptr);
                    mc_exit(0);
                }
                if (to_stdout)
                    printf("case %s\n", clean(case_desc).c_str());
                commit_case(false);
            }
            fflush(nullptr);
            mc_exit(case_viol ? 1 : 0);
        }
        double t0 = now();
        int st;
        for (;;)
        {
            pid_t r = waitpid(p, &st, WNOHANG);
            if (r == p)
                return st;
            if (now() - t0 > limit)
            {
                kill(p, SIGKILL);
                waitpid(p, &st, 0);
                return -1;
            }
            usleep(2000);
        }
    }

    static void read_logs(SubResult &r)
    {
        for (int w = 0; w < MAXW; w++)
        {
            std::string p = fmt("%s/w%d.log", g_out.c_str(), w);
            std::string s = read_file(p, 64 << 20);
            unlink(p.c_str());
            size_t pos = 0;
            while (pos < s.size())
            {
                size_t e = s.find('\n', pos);
                if (e == std::string::npos)
                    e = s.size();
                std::string line = s.substr(pos, e - pos);
                pos = e + 1;
                std::vector<std::string> f;
                size_t a = 0;
                for (;;)
                {
                    size_t t = line.find('\t', a);
                    if (t == std::string::npos)
                    {
                        f.push_back(line.substr(a));
                        break;
                    }
                    f.push_back(line.substr(a, t - a));
                    a = t + 1;
                }
                if (f[0] == "V" && f.size() >= 6)
                    g_viols.push_back({f[1], f[2], f[3], f[4], f[5]});
                else if (f[0] == "S" && f.size() >= 4)
                {
                    if (r.samples.size() < 6)
                        r.samples.push_back(f[2] + "  " + f[3]);
                }
                else if (f[0] == "K" && f.size() >= 3)
                {
                    if (std::find(r.caps.begin(), r.caps.end(), f[2]) == r.caps.end())
                        r.caps.push_back(f[2]);
                }
                else if (f[0] == "C" && f.size() >= 4)
                    r.counters[f[2]] += atol(f[3].c_str());
                else if (f[0] == "N" && f.size() >= 4)
                {
                    r.sigcounts[f[2]] += atol(f[3].c_str());
                }
            }
        }
    }

    // CPU seconds (user+system) consumed so far by a child process, -1 if unknown
    static double proc_cpu(pid_t p)
    {
        std::string st = read_file(fmt("/proc/%d/stat", (int)p), 4096);
        size_t rp = st.rfind(')');
        if (rp == std::string::npos)
            return -1;
        unsigned long ut = 0, stt = 0;
        // fields after the command: state(3) ... utime(14) stime(15)
        if (sscanf(st.c_str() + rp + 2, "%*c %*d %*d %*d %*d %*d %*u %*u %*u %*u %*u %lu %lu", &ut, &stt) != 2)
            return -1;
        return (double)(ut + stt) / (double)sysconf(_SC_CLK_TCK);
    }

    // run all workers for the current phase (a tree check or one bfs level)
    static void run_phase(Check &c, SubResult &r)
    {
        int nw = std::min(g_jobs, MAXW - 2);
        std::vector<pid_t> pid(nw, 0);
        std::vector<uint64_t> lastp(nw, 0);
        std::vector<double> lastt(nw, now());
        std::vector<bool> hangkill(nw, false);
        std::vector<double> cpu0(nw, -1);
        for (int w = 0; w < nw; w++)
        {
            memset((void *)&S->slot[w], 0, sizeof(Slot));
            pid[w] = spawn_worker(c, w, false);
            lastt[w] = now();
        }
        int live = nw;
        while (live > 0)
        {
            bool any = false;
            for (int w = 0; w < nw; w++)
            {
                if (!pid[w])
                    continue;
                int st;
                pid_t rp = waitpid(pid[w], &st, WNOHANG);
                if (rp == pid[w])
                {
                    any = true;
                    if (WIFEXITED(st) && WEXITSTATUS(st) == 0)
                    {
                        pid[w] = 0;
                        live--;
                        continue;
                    }
                    if (WIFEXITED(st) && WEXITSTATUS(st) == 4 && !c.is_bfs)
                    { // voluntary restart: last case was committed, resume after it
                        lastp[w] = S->slot[w].progress.load();
                        lastt[w] = now();
                        pid[w] = spawn_worker(c, w, true);
                        continue;
                    }
                    if (WIFEXITED(st) && WEXITSTATUS(st) == 3)
                    {
                        fprintf(stderr, "%s", read_file(fmt("%s/w%d.err", g_out.c_str(), w)).c_str());
                        for (int k = 0; k < nw; k++)
                            if (pid[k])
                                kill(pid[k], SIGKILL);
                        harness_error("worker %d reported a harness error in %s", w, c.name.c_str());
                    }
                    // died inside the code under test
                    std::string err = read_file(fmt("%s/w%d.err", g_out.c_str(), w));
                    std::string kind;
                    std::string cs = slot_case(c, w);
                    Slot &sl = S->slot[w];
                    bool report = true;
                    if (hangkill[w])
                    {
                        hangkill[w] = false;
                        // confirm alone with a 10x limit before calling it a hang
                        std::vector<int> choices;
                        if (c.is_bfs)
                        {
                            for (auto o : g_front.hist[sl.item])
                                choices.push_back(o);
                            choices.push_back(sl.op);
                        }
                        else
                            choices.assign(sl.ch, sl.ch + sl.chlen);
                        int st2 = run_case_alone(c, choices, g_case_limit * 4, fmt("%s/w%d.log", g_out.c_str(), MAXW - 1), false);
                        if (st2 == -1)
                        {
                            kind = "hang";
                            r.hangs++;
                        }
                        else if (WIFEXITED(st2) && WEXITSTATUS(st2) <= 1)
                        {
                            report = false; // slow, not hung
                            // tree: the confirm run logged and counted the case. bfs: the successor record
                            // of that transition was never written, so the resumed worker runs it again.
                            if (c.is_bfs)
                                sl.redo = 1;
                        }
                        else
                            kind = death_kind(st2, err);
                        for (int k = 0; k < nw; k++)
                            lastt[k] = now();
                    }
                    else
                        kind = death_kind(st, err);
                    if (report)
                    {
                        r.crashes++;
                        std::string sig = sl.crash_sig[0] ? std::string(sl.crash_sig) : (c.name + ".crash");
                        sig += "." + kind;
                        std::string firsterr = err.substr(0, 600);
                        long &n = r.sigcounts[sig];
                        n++;
                        S->viol++;
                        if (c.is_bfs)
                        {
                            S->edges++;
                            S->cut++;
                        }
                        else
                            S->evals++;
                        if (n <= 5)
                            g_viols.push_back({c.name, sig, cs, kind, clean(std::string(sl.desc) + " :: died: " + firsterr)});
                    }
                    // a crash storm: the same fatal signature over and over. The verdict is settled by the
                    // first few; going on would only burn the budget (each death costs ~10 ms of sanitizer
                    // report). Stop this sub-check and say so.
                    if (r.crashes > 400 && !S->stop.load())
                    {
                        S->stop.store(1);
                        r.caps.push_back("crash-storm: more than 400 fatal cases, sub-check stopped");
                    }
                    if (now() > g_deadline && !S->stop.load())
                    { // the deadline is normally noticed by workers between cases; a crashing
                      // case never gets there, so the supervisor enforces it as well
                        S->stop.store(1);
                        if (std::find(r.caps.begin(), r.caps.end(), "deadline") == r.caps.end())
                            r.caps.push_back("deadline");
                    }
                    if (S->stop.load())
                    {
                        pid[w] = 0;
                        live--;
                        continue;
                    }
                    lastp[w] = S->slot[w].progress.load();
                    pid[w] = spawn_worker(c, w, true);
                    lastt[w] = now();
                    cpu0[w] = -1;
                    continue;
                }
                uint64_t pr = S->slot[w].progress.load();
                if (pr != lastp[w])
                {
                    lastp[w] = pr;
                    lastt[w] = now();
                    cpu0[w] = -1;
                }
                else if (now() - lastt[w] > g_case_limit && !hangkill[w])
                {
                    // No progress for the wall-clock limit. On a loaded machine that alone is not a hang:
                    // require that the worker also BURNED the limit in CPU time since then (a loop), or
                    // that ten times the limit passed (blocked forever).
                    double cpu = proc_cpu(pid[w]);
                    if (cpu0[w] < 0)
                        cpu0[w] = cpu; // first look after the wall limit: start measuring CPU from here
                    bool burned = cpu >= 0 && cpu0[w] >= 0 && cpu - cpu0[w] > g_case_limit;
                    bool stuck = now() - lastt[w] > 10 * g_case_limit;
                    if (burned || stuck || cpu < 0)
                    {
                        hangkill[w] = true;
                        kill(pid[w], SIGKILL);
                    }
                }
            }
            if (now() > g_deadline + 10 && !S->stop.load())
            { // workers notice the deadline between cases; this is the backstop
                S->stop.store(1);
                if (std::find(r.caps.begin(), r.caps.end(), "deadline") == r.caps.end())
                    r.caps.push_back("deadline");
            }
            if (S->stop.load() && now() > g_deadline + 10 + g_case_limit)
            {
                for (int w = 0; w < nw; w++)
                    if (pid[w])
                    {
                        kill(pid[w], SIGKILL);
                        int st;
                        waitpid(pid[w], &st, 0);
                        pid[w] = 0;
                        live--;
                    }
            }
            if (!any)
                usleep(3000);
        }
    }

    static void reset_shared_counts()
    {
        S->evals = 0;
        S->nodes = 0;
        S->edges = 0;
        S->nontriv = 0;
        S->viol = 0;
        S->cut = 0;
        S->disabled = 0;
        S->n0.store(-1);
        S->next_unit.store(0);
        S->stop.store(0);
        S->capped.store(0);
        S->next_item.store(0);
        for (int i = 0; i < OUTN; i++)
            S->outc[i].store(0);
    }
    static uint64_t count_outcomes()
    {
        uint64_t n = 0;
        for (int i = 0; i < OUTN; i++)
            if (S->outc[i].load())
                n++;
        return n;
    }

    static SubResult run_tree(Check &c)
    {
        SubResult r;
        r.name = c.name;
        r.kind = "tree";
        double t0 = now();
        reset_shared_counts();
        run_phase(c, r);
        read_logs(r);
        r.evals = S->evals;
        r.transitions = S->edges;
        r.states = S->edges + 1; // a tree: nodes (choice points + leaves) = edges + 1
        r.nontriv = S->nontriv;
        r.viol = S->viol;
        r.outcomes = count_outcomes();
        r.exhaustive = !S->stop.load() && !S->capped.load() && r.caps.empty();
        r.wall = now() - t0;
        return r;
    }

    static SubResult run_bfs(Check &c)
    {
        SubResult r;
        r.name = c.name;
        r.kind = "bfs";
        double t0 = now();
        reset_shared_counts();
        cur = &c;
        // initial state key, computed in a child
        std::string k0;
        {
            std::string tmp = fmt("%s/bfs_init.txt", g_out.c_str());
            fflush(nullptr);
            pid_t p = fork();
            if (p == 0)
            {
                std::unique_ptr<Model> m = c.factory();
                std::string k = m->key();
                FILE *f = fopen(tmp.c_str(), "wb");
                fwrite(k.data(), 1, k.size(), f);
                fclose(f);
                mc_exit(0);
            }
            int st;
            waitpid(p, &st, 0);
            if (!WIFEXITED(st) || WEXITSTATUS(st))
                harness_error("bfs %s: initial state construction died", c.name.c_str());
            k0 = read_file(tmp);
            unlink(tmp.c_str());
        }
        std::unordered_set<std::string> seen;
        seen.insert(k0);
        g_front.hist.assign(1, {});
        g_front.key.assign(1, k0);
        int maxd = g_thorough ? c.opts.depth_thorough : c.opts.depth_quick;
        uint64_t edges = 0, cut = 0, disabled = 0, nontriv = 0, viol = 0;
        int d = 0;
        bool stopped = false;
        for (; d < maxd && !g_front.hist.empty(); d++)
        {
            S->next_item.store(0);
            for (int w = 0; w < MAXW; w++)
                unlink(fmt("%s/bfs_w%d.bin", g_out.c_str(), w).c_str());
            run_phase(c, r);
            if (S->stop.load())
                stopped = true;
            struct Rec
            {
                uint32_t item;
                uint16_t op;
                std::string key;
            };
            std::vector<Rec> recs;
            for (int w = 0; w < MAXW; w++)
            {
                std::string p = fmt("%s/bfs_w%d.bin", g_out.c_str(), w);
                FILE *f = fopen(p.c_str(), "rb");
                if (!f)
                    continue;
                for (;;)
                {
                    uint32_t ii, kl;
                    uint16_t oo;
                    if (fread(&ii, 4, 1, f) != 1 || fread(&oo, 2, 1, f) != 1 || fread(&kl, 4, 1, f) != 1)
                        break;
                    std::string k(kl, 0);
                    if (kl && fread(&k[0], 1, kl, f) != kl)
                        break;
                    recs.push_back({ii, oo, k});
                }
                fclose(f);
                unlink(p.c_str());
            }
            std::sort(recs.begin(), recs.end(), [](const Rec &a, const Rec &b) {
                return a.item != b.item ? a.item < b.item : a.op < b.op;
            });
            Frontier nf;
            for (auto &rc : recs)
            {
                if ((long)seen.size() >= c.opts.max_states)
                {
                    if (std::find(r.caps.begin(), r.caps.end(), "max_states") == r.caps.end())
                        r.caps.push_back("max_states");
                    break;
                }
                if (seen.insert(rc.key).second)
                {
                    std::vector<uint16_t> h = g_front.hist[rc.item];
                    h.push_back(rc.op);
                    nf.hist.push_back(h);
                    nf.key.push_back(rc.key);
                }
            }
            g_front = std::move(nf);
            if (stopped || !r.caps.empty())
            {
                d++;
                break;
            }
        }
        (void)edges; (void)cut; (void)disabled; (void)nontriv; (void)viol;
        read_logs(r);
        r.depth_reached = d;
        r.frontier_left = (long)g_front.hist.size();
        r.states = seen.size();
        r.transitions = S->edges;
        r.evals = S->edges; // every transition is an execution of real code
        r.nontriv = S->nontriv;
        r.viol = S->viol;
        r.cut = S->cut;
        r.disabled = S->disabled;
        r.outcomes = count_outcomes();
        // "exhaustive" = the stated space (all histories up to the depth bound, or the whole reachable
        // state space when the frontier emptied first) was enumerated completely; a deadline, the
        // max_states cap or a harness cap make it false. Whether the fix-point was reached is reported
        // separately (frontier_left == 0).
        r.exhaustive = !stopped && r.caps.empty() && !S->capped.load();
        r.fixpoint = g_front.hist.empty() && r.exhaustive;
        g_front = Frontier();
        r.wall = now() - t0;
        return r;
    }

    static void write_result(const std::vector<SubResult> &rs, double wall, bool deadline_hit)
    {
        FILE *f = fopen((g_out + "/result.json").c_str(), "w");
        fprintf(f, "{\"tier\":\"%s\",\"wall_s\":%.3f,\"jobs\":%d,\"deadline_hit\":%s,\n\"subchecks\":[\n",
                g_thorough ? "thorough" : "quick", wall, g_jobs, deadline_hit ? "true" : "false");
        for (size_t i = 0; i < rs.size(); i++)
        {
            const SubResult &r = rs[i];
            fprintf(f,
                    " {\"name\":\"%s\",\"kind\":\"%s\",\"evaluations\":%llu,\"states\":%llu,\"transitions\":%llu,"
                    "\"nontrivial\":%llu,\"violating\":%llu,\"cut_transitions\":%llu,\"disabled_ops\":%llu,"
                    "\"outcomes\":%llu,\"exhaustive\":%s,\"fixpoint\":%s,\"depth_reached\":%d,\"frontier_left\":%ld,"
                    "\"crashes\":%ld,\"hangs\":%ld,\"wall_s\":%.3f,\n  \"caps\":[",
                    jesc(r.name).c_str(), r.kind.c_str(), (unsigned long long)r.evals, (unsigned long long)r.states,
                    (unsigned long long)r.transitions, (unsigned long long)r.nontriv, (unsigned long long)r.viol,
                    (unsigned long long)r.cut, (unsigned long long)r.disabled, (unsigned long long)r.outcomes,
                    r.exhaustive ? "true" : "false", r.fixpoint ? "true" : "false", r.depth_reached, r.frontier_left, r.crashes,
                    r.hangs, r.wall);
            for (size_t k = 0; k < r.caps.size(); k++)
                fprintf(f, "%s\"%s\"", k ? "," : "", jesc(r.caps[k]).c_str());
            fprintf(f, "],\n  \"samples\":[");
            for (size_t k = 0; k < r.samples.size(); k++)
                fprintf(f, "%s\"%s\"", k ? "," : "", jesc(r.samples[k]).c_str());
            fprintf(f, "],\n  \"counters\":{");
            size_t k = 0;
            for (auto &kv : r.counters)
                fprintf(f, "%s\"%s\":%ld", k++ ? "," : "", jesc(kv.first).c_str(), kv.second);
            fprintf(f, "},\n  \"sig_counts\":{");
            k = 0;
            for (auto &kv : r.sigcounts)
                fprintf(f, "%s\"%s\":%ld", k++ ? "," : "", jesc(kv.first).c_str(), kv.second);
            fprintf(f, "}}%s\n", i + 1 < rs.size() ? "," : "");
        }
        fprintf(f, "],\n\"violations\":[\n");
        for (size_t i = 0; i < g_viols.size(); i++)
        {
            const Viol &v = g_viols[i];
            fprintf(f, " {\"sub\":\"%s\",\"sig\":\"%s\",\"case\":\"%s\",\"kind\":\"%s\",\"detail\":\"%s\"}%s\n",
                    jesc(v.sub).c_str(), jesc(v.sig).c_str(), jesc(v.cas).c_str(), jesc(v.kind).c_str(),
                    jesc(v.detail).c_str(), i + 1 < g_viols.size() ? "," : "");
        }
        fprintf(f, "]}\n");
        fclose(f);
    }

    int main_(int argc, char **argv)
    {
        std::string only, onecase;
        double deadline_s = 0;
        bool list = false;
        for (int i = 1; i < argc; i++)
        {
            std::string a = argv[i];
            auto next = [&]() -> std::string {
                if (i + 1 >= argc)
                    harness_error("missing value for %s", a.c_str());
                return argv[++i];
            };
            if (a == "--tier")
                g_thorough = next() == "thorough";
            else if (a == "--out")
                g_out = next();
            else if (a == "--jobs")
                g_jobs = atoi(next().c_str());
            else if (a == "--deadline")
                deadline_s = atof(next().c_str());
            else if (a == "--case-limit")
                g_case_limit = atof(next().c_str());
            else if (a == "--only")
                only = next();
            else if (a == "--case")
                onecase = next();
            else if (a == "--list")
                list = true;
            else
                harness_error("unknown argument %s", a.c_str());
        }
        if (g_jobs < 1)
            g_jobs = 1;
        if (list)
        {
            for (auto &c : checks())
                printf("%s %s\n", c.is_bfs ? "bfs " : "tree", c.name.c_str());
            return 0;
        }
        mkdir(g_out.c_str(), 0755);
        S = (Shared *)mmap(nullptr, sizeof(Shared), PROT_READ | PROT_WRITE, MAP_SHARED | MAP_ANONYMOUS, -1, 0);
        if (S == MAP_FAILED)
            harness_error("mmap failed");
        memset((void *)S, 0, sizeof(Shared));
        reset_shared_counts();
        double t0 = now();
        if (deadline_s > 0)
            g_deadline = t0 + deadline_s;

        if (!onecase.empty())
        {
            size_t c = onecase.find(':');
            std::string nm = onecase.substr(0, c);
            std::vector<int> choices;
            if (c != std::string::npos)
            {
                std::string rest = onecase.substr(c + 1);
                size_t p = 0;
                while (p < rest.size())
                {
                    choices.push_back(atoi(rest.c_str() + p));
                    size_t q = rest.find(',', p);
                    if (q == std::string::npos)
                        break;
                    p = q + 1;
                }
            }
            for (auto &ck : checks())
                if (ck.name == nm)
                {
                    int st = run_case_alone(ck, choices, g_case_limit * 10, "", true);
                    if (st == -1)
                    {
                        printf("V\t%s\t%s.hang\t%s\thang\tno progress for %.0fs\n", nm.c_str(), nm.c_str(), onecase.c_str(),
                               g_case_limit * 10);
                        return 1;
                    }
                    if (WIFEXITED(st))
                        return WEXITSTATUS(st);
                    printf("V\t%s\t%s.crash.%s\t%s\t%s\tdied\n", nm.c_str(), nm.c_str(), death_kind(st, "").c_str(),
                           onecase.c_str(), death_kind(st, "").c_str());
                    return 1;
                }
            harness_error("no such check %s", nm.c_str());
        }

        std::vector<SubResult> rs;
        bool deadline_hit = false;
        for (auto &c : checks())
        {
            if (c.thorough_only && !g_thorough)
                continue;
            if (!only.empty())
            {
                bool m = false;
                size_t p = 0;
                while (p <= only.size())
                {
                    size_t q = only.find(',', p);
                    if (q == std::string::npos)
                        q = only.size();
                    std::string pat = only.substr(p, q - p);
                    if (!pat.empty() && c.name.find(pat) != std::string::npos)
                        m = true;
                    p = q + 1;
                }
                if (!m)
                    continue;
            }
            if (now() > g_deadline)
            {
                SubResult r;
                r.name = c.name;
                r.kind = c.is_bfs ? "bfs" : "tree";
                r.exhaustive = false;
                r.caps.push_back("deadline-not-started");
                rs.push_back(r);
                deadline_hit = true;
                continue;
            }
            SubResult r = c.is_bfs ? run_bfs(c) : run_tree(c);
            if (std::find(r.caps.begin(), r.caps.end(), "deadline") != r.caps.end())
                deadline_hit = true;
            fprintf(stderr, "[mc] %-40s %s evals=%llu states=%llu trans=%llu nontriv=%llu viol=%llu outcomes=%llu %s%s %.1fs\n",
                    c.name.c_str(), r.kind.c_str(), (unsigned long long)r.evals, (unsigned long long)r.states,
                    (unsigned long long)r.transitions, (unsigned long long)r.nontriv, (unsigned long long)r.viol,
                    (unsigned long long)r.outcomes, r.exhaustive ? "exhaustive" : "CAPPED",
                    r.kind == "bfs" ? fmt(" depth=%d frontier=%ld", r.depth_reached, r.frontier_left).c_str() : "", r.wall);
            rs.push_back(r);
        }
        write_result(rs, now() - t0, deadline_hit);
        return 0;
    }
}
