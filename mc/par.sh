# source me: par <cmd...> runs in background; parwait fails if any job failed
PAR_PIDS=()
par() { "$@" & PAR_PIDS+=($!); }
parwait() { local rc=0; for p in "${PAR_PIDS[@]}"; do wait $p || rc=1; done; PAR_PIDS=(); return $rc; }
