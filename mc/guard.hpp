// guard.hpp — buffers placed flush against an inaccessible page, so that one
// byte of over-read / over-write (side After) or under-read (side Before)
// faults.  Use with mc::guarded() (fault is caught and reported) or let the
// worker die (the supervisor records it).
#pragma once
#include <cstddef>
#include <cstdint>
#include <cstring>
#include <sys/mman.h>

namespace guard
{
    struct Region
    {
        unsigned char *base = nullptr; // mapping
        size_t maplen = 0;
        unsigned char *p = nullptr; // usable bytes [p, p+n)
        size_t n = 0;
        // after=true : p+n is the first byte of a PROT_NONE page
        // after=false: p-1 is the last byte of a PROT_NONE page
        Region(size_t n_, bool after = true, int fill = 0xA5) : n(n_)
        {
            size_t pg = 4096;
            size_t body = ((n + pg - 1) / pg + 1) * pg;
            maplen = body + 2 * pg;
            base = (unsigned char *)mmap(nullptr, maplen, PROT_READ | PROT_WRITE, MAP_PRIVATE | MAP_ANONYMOUS, -1, 0);
            memset(base, fill, maplen);
            mprotect(base, pg, PROT_NONE);
            mprotect(base + pg + body, pg, PROT_NONE);
            p = after ? base + pg + body - n : base + pg;
        }
        ~Region()
        {
            if (base)
                munmap(base, maplen);
        }
        Region(const Region &) = delete;
        Region &operator=(const Region &) = delete;
    };
}
