#!/bin/bash
set -e
. $MC/par.sh
CF="-std=c++20 -O1 -g -fsanitize=address -fno-omit-frame-pointer -I$REPO -I$MC -I$VERIF/harness/c02"
par clang++ -c $CF $VERIF/harness/c03/c03_rings.cpp -o $BUILD/h.o
par clang++ -std=c++20 -O2 -c -I$MC $MC/mc.cpp -o $BUILD/mc.o
parwait
clang++ -fsanitize=address $BUILD/h.o $BUILD/mc.o -o $BUILD/c03
echo "rings $BUILD/c03" > $BUILD/runs.txt
