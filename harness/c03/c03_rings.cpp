// C03 — ring buffers are FIFO, lossless and byte-transparent for every fill pattern.
//
//   A. cring_every_state_every_op   (tree)  the C ring's state is (size, head, tail) + live bytes: every state is
//                                           CONSTRUCTED directly, every operation applied, everything read back.
//   B. cring_bfs_size<N>            (bfs)   operation histories on small rings to fix-point (reachability-independent).
//   C. typed_ring_{int,elem,char,tracked,listelem} (tree) igris::ring<T>: every bufsize x head position x fill, every accessor.
//   D. cyclic_buffer_{int,elem}     (tree)  i-th previous sample for every size x number of pushes, resize.
//   E. ring_counter                 (tree)  every (size, counter, argument).
//   F. unbounded_array              (tree)  the backing store: constructor/resize sizing under ASan.
//
// Reference: std::deque of the bytes / elements written and not yet read. Memory oracle: ASan, every backing
// buffer and every in/out data block is an exactly-sized heap allocation.
#include "mc.hpp"
#include "tracked.hpp" // harness/c02: lifetime registry, self-verifying element, tracking allocator
#include <initializer_list>
#include <algorithm>
#include <cstdlib>
#include <cstring>
#include <deque>
#include <functional>
#include <igris/container/cyclic_buffer.h>
#include <igris/container/ring.h>
#include <igris/container/unbounded_array.h>
#include <igris/datastruct/ring.h>
#include <igris/datastruct/ring_counter.h>
#include <string>
#include <type_traits>
#include <unordered_set>
#include <vector>

using std::string;
typedef std::deque<uint8_t> Ref;

static string hexq(const Ref &q)
{
    string s;
    for (uint8_t b : q)
        s += mc::fmt("%02x", b);
    return s;
}
static int pmod(long a, long n) { return (int)(((a % n) + n) % n); }

// ======================================================================================================
// The C ring: real ring_head over an exactly-sized heap buffer, plus the reference queue
// ======================================================================================================
// Every public way to set a ring_head up. A ring is a ring however it was initialised: all C-ring universes are run over each.
enum
{
    INIT_FN,     // ring_init() on an uninitialised struct
    INIT_MACRO,  // struct ring_head r = RING_HEAD_INIT(n);  (the static initialiser)
    INIT_REINIT, // ring_init() again on a ring that was set up for another size and has been used
    N_INIT
};
static const char *const INIT_NAME[] = {"ring_init", "RING_HEAD_INIT", "ring_init(re-init)"};
template <unsigned N> static struct ring_head static_ring_head()
{ // a ring_head in static storage, initialised by the macro with a constant, as firmware does
    static struct ring_head r = RING_HEAD_INIT(N);
    return r;
}
static void init_ring_head(struct ring_head *r, unsigned size, int path)
{
    memset((void *)r, 0xAB, sizeof *r);
    switch (path)
    {
    case INIT_FN:
        ring_init(r, size);
        break;
    case INIT_MACRO:
    {
        struct ring_head tmp = RING_HEAD_INIT(size);
        switch (size)
        { // the literally static instances
        case 2:
            tmp = static_ring_head<2>();
            break;
        case 5:
            tmp = static_ring_head<5>();
            break;
        case 9:
            tmp = static_ring_head<9>();
            break;
        case 256:
            tmp = static_ring_head<256>();
            break;
        case 1000:
            tmp = static_ring_head<1000>();
            break;
        }
        *r = tmp;
        break;
    }
    default:
        ring_init(r, size + 3);
        ring_move_head(r, 2);
        ring_move_tail(r, 1);
        ring_init(r, size);
        break;
    }
}

struct CR
{
    ring_head r;
    char *buf;
    unsigned size;
    Ref ref;
    int init_path;
    explicit CR(unsigned n, int path = INIT_FN) : size(n), init_path(path)
    {
        buf = (char *)malloc(size);
        memset(buf, 0xA5, size);
        init_ring_head(&r, size, path);
    }
    CR(const CR &o) : r(o.r), size(o.size), ref(o.ref), init_path(o.init_path)
    {
        buf = (char *)malloc(size);
        memcpy(buf, o.buf, size);
    }
    CR &operator=(const CR &) = delete;
    ~CR() { free(buf); }
    unsigned cap() const { return size - 1; }
    unsigned ref_room() const { return size - 1 - (unsigned)ref.size(); }
    bool in_range() const { return r.head < size && r.tail < size && r.size == size; }
    string str() const
    {
        if (size > 40)
            return mc::fmt("size=%u head=%u tail=%u (reference holds %zu)", r.size, r.head, r.tail, ref.size());
        return mc::fmt("size=%u head=%u tail=%u buf=%s ref=[%s]", r.size, r.head, r.tail, mc::hex(buf, size).c_str(),
                       hexq(ref).c_str());
    }
};
struct Snap
{ // ring state before an operation: for the "unchanged" oracles and (lazily formatted) for messages
    unsigned head, tail, size;
    string buf, ref;
    bool captured;
    // capture=false: the operation will be accepted, nothing to compare afterwards (saves two allocations per step)
    explicit Snap(const CR &c, bool capture = true) : head(c.r.head), tail(c.r.tail), size(c.r.size), captured(capture)
    {
        if (capture)
        {
            buf.assign(c.buf, c.size);
            ref.assign(c.ref.begin(), c.ref.end());
        }
    }
    bool operator==(const Snap &o) const { return head == o.head && tail == o.tail && size == o.size && buf == o.buf; }
    string str() const
    {
        if (!captured || size > 40)
            return mc::fmt("(before the call: size=%u head=%u tail=%u)", size, head, tail);
        return mc::fmt("size=%u head=%u tail=%u buf=%s ref=[%s]", size, head, tail, mc::hex(buf.data(), buf.size()).c_str(), mc::hex(ref.data(), ref.size()).c_str());
    }
};
static int g_quiet; // >0 while reading back inside verify(): no outcome records for the auxiliary steps
#define OUTCOME(...)                                                           \
    do                                                                         \
    {                                                                          \
        if (!g_quiet)                                                          \
            mc::outcome(mc::fmt(__VA_ARGS__));                                 \
    } while (0)
struct Heap
{ // exactly n bytes
    char *p;
    size_t n;
    explicit Heap(size_t n_, int fill = 0xCC) : p((char *)malloc(n_)), n(n_)
    {
        if (n)
            memset(p, fill, n);
    }
    ~Heap() { free(p); }
    Heap(const Heap &) = delete;
};

// crash context for the supervisor and, when a lifetime registry is active, the context of its reports:
// "C03.typed_ring.push.memory" -> registry context "typed_ring.push" -> signature C03.typed_ring.push.<kind>
static void CTX(const char *f, ...) __attribute__((format(printf, 1, 2)));
static void CTX(const char *f, ...)
{
    char b[200];
    va_list ap;
    va_start(ap, f);
    vsnprintf(b, sizeof b, f, ap);
    va_end(ap);
    mc::crash_context("%s", b);
    if (trk::Registry *r = trk::cur())
    {
        string c = b;
        if (c.compare(0, 4, "C03.") == 0)
            c = c.substr(4);
        if (c.size() > 7 && c.compare(c.size() - 7, 7, ".memory") == 0)
            c.resize(c.size() - 7);
        if (r->ctx != c)
            r->begin_op(c);
    }
}
static int g_viols; // oracle failures so far in this process: a chain of steps stops at the first one (the reference has diverged)
static const char *g_sigsfx = ""; // input class appended to every signature (the large-size sub-checks set ".size_ge_256" / ".size_ge_65536")
#define VIOL(sig, ...) (g_viols++, mc::violation(string(sig) + g_sigsfx, __VA_ARGS__))
static bool g_nt; // the current evaluation reached the interesting part (wrap / rejection / 0xFF)

// ---- operations: performed on the real ring and on the reference, return values checked on the spot
static void op_putc(CR &c, uint8_t b)
{
    bool full = c.ref.size() == c.cap();
    Snap s0(c, full);
    CTX("C03.ring_putc.memory");
    int ret = ring_putc(&c.r, c.buf, (char)b);
    CTX("C03.harness");
    if (full)
    {
        g_nt = true;
        if (ret != 0)
            VIOL("C03.ring_putc.full_not_rejected", "ring_putc(%02x) on a full ring returned %d, want 0; %s", b, ret, s0.str().c_str());
        if (!(Snap(c) == s0))
            VIOL("C03.ring_putc.full_state_changed", "rejected ring_putc(%02x) changed the ring: %s -> %s", b, s0.str().c_str(), c.str().c_str());
    }
    else
    {
        if (ret != 1)
            VIOL("C03.ring_putc.ret", "ring_putc(%02x) with room %u returned %d, want 1; %s", b, c.ref_room(), ret, s0.str().c_str());
        c.ref.push_back(b);
    }
    OUTCOME("putc ret=%d n=%zu", ret, c.ref.size());
}

static void op_getc(CR &c)
{
    Snap s0(c, c.ref.empty());
    CTX("C03.ring_getc.memory");
    int ret = ring_getc(&c.r, c.buf);
    CTX("C03.harness");
    if (c.ref.empty())
    {
        g_nt = true;
        if (ret != -1)
            VIOL("C03.ring_getc.empty_not_rejected", "ring_getc on an empty ring returned %d, want -1; %s", ret, s0.str().c_str());
        if (!(Snap(c) == s0))
            VIOL("C03.ring_getc.empty_state_changed", "rejected ring_getc changed the ring: %s -> %s", s0.str().c_str(), c.str().c_str());
    }
    else
    {
        uint8_t want = c.ref.front();
        c.ref.pop_front();
        if (want == 0xFF)
            g_nt = true;
        if (ret == -1)
            VIOL(want == 0xFF ? "C03.ring_getc.stored_ff_reads_as_empty" : "C03.ring_getc.spurious_empty",
                          "ring_getc returned -1 (\"empty\") but the ring held %u byte(s), next byte %02x; %s", (unsigned)c.ref.size() + 1, want,
                          s0.str().c_str());
        else if ((uint8_t)ret != want)
            VIOL("C03.ring_getc.value", "ring_getc returned %d (byte %02x), want byte %02x; %s", ret, (uint8_t)ret, want, s0.str().c_str());
    }
    OUTCOME("getc %s n=%zu", ret == -1 ? "-1" : ret < 0 ? "neg" : ret == 255 ? "255" : "byte", c.ref.size());
}

static void op_write(CR &c, const std::vector<uint8_t> &d)
{
    unsigned k = (unsigned)d.size(), want = std::min(k, c.ref_room());
    Snap s0(c, want == 0);
    Heap in(k);
    for (unsigned i = 0; i < k; i++)
        in.p[i] = (char)d[i];
    CTX("C03.ring_write.memory");
    int ret = ring_write(&c.r, c.buf, in.p, k);
    CTX("C03.harness");
    if (want < k)
        g_nt = true;
    if (ret != (int)want)
        VIOL(want < k ? "C03.ring_write.count.fills_ring" : "C03.ring_write.count", "ring_write(%u bytes) with room %u returned %d, want %u; %s", k,
                      c.ref_room(), ret, want, s0.str().c_str());
    if (want == 0 && !(Snap(c) == s0))
        VIOL("C03.ring_write.rejected_state_changed", "ring_write(%u bytes) that accepted nothing changed the ring: %s -> %s", k, s0.str().c_str(),
                      c.str().c_str());
    for (unsigned i = 0; i < want; i++)
        c.ref.push_back(d[i]);
    OUTCOME("write k=%u ret=%d", k, ret);
}

static void op_read(CR &c, unsigned k)
{
    unsigned want = std::min(k, (unsigned)c.ref.size());
    Snap s0(c, want == 0);
    bool ff = false;
    for (unsigned i = 0; i < want; i++)
        ff |= c.ref[i] == 0xFF;
    Heap out(k, 0xCC);
    CTX("C03.ring_read.memory");
    int ret = ring_read(&c.r, c.buf, out.p, k);
    CTX("C03.harness");
    if (want < k || ff)
        g_nt = true;
    if (ret != (int)want)
        VIOL(ff ? "C03.ring_read.count.ff_in_data" : "C03.ring_read.count", "ring_read(%u) with %zu byte(s) stored returned %d, want %u; %s -> %s", k,
                      c.ref.size(), ret, want, s0.str().c_str(), c.str().c_str());
    unsigned n = std::min(want, ret < 0 ? 0u : (unsigned)ret);
    for (unsigned i = 0; i < n; i++)
        if ((uint8_t)out.p[i] != c.ref[i])
        {
            VIOL(ff ? "C03.ring_read.data.ff_in_data" : "C03.ring_read.data", "ring_read(%u): byte %u is %02x, want %02x; got %s; %s", k, i,
                          (uint8_t)out.p[i], c.ref[i], mc::hex(out.p, n).c_str(), s0.str().c_str());
            break;
        }
    if (want == 0 && !(Snap(c) == s0))
        VIOL("C03.ring_read.rejected_state_changed", "ring_read(%u) that delivered nothing changed the ring: %s -> %s", k, s0.str().c_str(),
                      c.str().c_str());
    for (unsigned i = 0; i < want; i++)
        c.ref.pop_front();
    OUTCOME("read k=%u ret=%d", k, ret);
}

// move_head: the producer stores the bytes itself (as igris::ring::push or a DMA engine does), then publishes them
static void op_move_head(CR &c, unsigned bias, bool one, uint8_t first_stamp)
{
    if (bias > c.ref_room())
        mc::harness_error("move_head(%u) beyond room", bias);
    for (unsigned i = 0; i < bias; i++)
    {
        uint8_t b = (uint8_t)(first_stamp + i % 251); // period 251: slots 256 apart never hold the same byte
        c.buf[(c.r.head + i) % c.size] = (char)b;
        c.ref.push_back(b);
    }
    CTX("C03.ring_move_head.memory");
    if (one)
        ring_move_head_one(&c.r);
    else
        ring_move_head(&c.r, bias);
    CTX("C03.harness");
    OUTCOME("move_head %u", bias);
}
static void op_move_tail(CR &c, unsigned bias, bool one)
{
    if (bias > c.ref.size())
        mc::harness_error("move_tail(%u) beyond avail", bias);
    for (unsigned i = 0; i < bias; i++)
        c.ref.pop_front();
    CTX("C03.ring_move_tail.memory");
    if (one)
        ring_move_tail_one(&c.r);
    else
        ring_move_tail(&c.r, bias);
    CTX("C03.harness");
    OUTCOME("move_tail %u", bias);
}
static void op_clean(CR &c)
{
    ring_clean(&c.r);
    c.ref.clear();
}

// ---- everything observable about a state, then everything read back out (on copies)
static bool check_counts(CR &c, const string &p, const char *when)
{
    if (!c.in_range())
    {
        VIOL(p + "index_out_of_range", "%s: head=%u tail=%u size=%u (buffer has %u slots)", when, c.r.head, c.r.tail, c.r.size, c.size);
        return false;
    }
    unsigned av = ring_avail(&c.r), rm = ring_room(&c.r);
    if (av != c.ref.size())
        VIOL(p + "avail", "%s: ring_avail=%u, reference holds %zu; %s", when, av, c.ref.size(), c.str().c_str());
    if (rm != c.ref_room())
        VIOL(p + "room", "%s: ring_room=%u, reference has room for %u; %s", when, rm, c.ref_room(), c.str().c_str());
    if (av + rm != c.size - 1)
        VIOL(p + "avail_plus_room", "%s: avail %u + room %u != size-1 = %u; %s", when, av, rm, c.size - 1, c.str().c_str());
    if (!!ring_empty(&c.r) != c.ref.empty())
        VIOL(p + "empty_flag", "%s: ring_empty=%d, reference holds %zu; %s", when, ring_empty(&c.r), c.ref.size(), c.str().c_str());
    if (!!ring_full(&c.r) != (c.ref.size() == c.cap()))
        VIOL(p + "full_flag", "%s: ring_full=%d, reference holds %zu of %u; %s", when, ring_full(&c.r), c.ref.size(), c.cap(), c.str().c_str());
    return true;
}

// a ring straight out of one of the initialisation paths: empty, all of size-1 free, indices in range
static bool fresh_ok(CR &c)
{
    if (!c.ref.empty())
        mc::harness_error("fresh_ok on a used ring");
    int v0 = g_viols;
    bool ok = check_counts(c, string("C03.") + INIT_NAME[c.init_path] + ".fresh.", INIT_NAME[c.init_path]);
    return ok && g_viols == v0;
}

static void verify(CR &c, const char *opname, bool skip_getc_drain = false)
{
    string p = string("C03.") + opname + ".post.";
    if (!check_counts(c, p, "after the operation"))
        return;
    struct KeepNt
    { // the read-back below always runs into full/empty; that must not mark the evaluation itself
        bool v = g_nt;
        ~KeepNt() { g_nt = v; }
    } keep_nt;
    struct Quiet
    {
        Quiet() { g_quiet++; }
        ~Quiet() { g_quiet--; }
    } quiet;
    // ring_for_each walks the live slots oldest first
    {
        CTX("C03.ring_for_each.memory");
        unsigned steps = 0;
        bool bad = false;
        ring_for_each(n, &c.r)
        {
            if (steps >= c.size + 1)
                break;
            if (n >= c.size || steps >= c.ref.size() || (uint8_t)c.buf[n] != c.ref[steps])
                bad = true;
            steps++;
            if (bad)
                break;
        }
        if (bad || steps != c.ref.size())
            VIOL(p + "for_each", "ring_for_each visited %u slot(s)%s, reference holds %zu; %s", steps, bad ? " (wrong slot/byte)" : "", c.ref.size(),
                          c.str().c_str());
        CTX("C03.harness");
    }
    // (a) drain with ring_getc, then one getc more (must be rejected)
    if (!skip_getc_drain)
    {
        CR d(c);
        int v0 = g_viols;
        for (unsigned i = 0; i < c.size + 2 && !d.ref.empty() && g_viols == v0; i++)
            op_getc(d);
        if (g_viols == v0 && check_counts(d, p + "drain_getc.", "after draining with ring_getc"))
            op_getc(d);
    }
    // (b) drain with one oversized ring_read, then read again
    {
        CR d(c);
        int v0 = g_viols;
        op_read(d, c.size + 1);
        if (g_viols == v0 && check_counts(d, p + "drain_read.", "after ring_read(size+1)"))
            op_read(d, 1);
    }
    // (c) fill up with one oversized ring_write, one more putc (must be rejected), then read all of it back
    {
        CR d(c);
        std::vector<uint8_t> w(c.size + 1);
        for (unsigned i = 0; i < w.size(); i++)
            w[i] = (uint8_t)(0xFE + (i % 251) * 3); // fe 01 04 ... (period 251: slots 256 apart never hold the same byte)
        int v0 = g_viols;
        op_write(d, w);
        if (g_viols == v0 && check_counts(d, p + "fill.", "after ring_write(size+1)"))
        {
            op_putc(d, 0xFF);
            if (g_viols == v0)
                op_read(d, (unsigned)d.ref.size());
            if (g_viols == v0)
                check_counts(d, p + "fill_drain.", "after filling and reading everything back");
        }
    }
}

// ======================================================================================================
// A. every state x every operation
// ======================================================================================================
struct St
{
    unsigned size, head, tail;
};
static std::vector<St> g_states;
static uint8_t pat_byte(int pat, unsigned j)
{
    static const uint8_t t[4] = {0x00, 0xFF, 0x80, 0x7F};
    switch (pat)
    {
    case 0:
        return (uint8_t)(j * 37 + 11);
    case 1:
        return 0xFF;
    case 2:
        return (uint8_t)(0xFE + j);
    default:
        return t[j & 3];
    }
}
static const char *const GRP[] = {"putc(all 256 bytes)", "getc", "write(k)", "read(k)", "move_head(bias)", "move_tail(bias)", "one-step/clean/observe"};

static void cring_case()
{
    int si = mc::choose((int)g_states.size());
    int pat = mc::choose(4);
    int path = (pat == 0 && g_states[si].size <= 17) ? mc::choose(N_INIT) : INIT_FN; // the initialisation path only decides the ring_head, not the content: crossed with one pattern
    int grp = mc::choose(7);
    St s = g_states[si];
    unsigned size = s.size, avail = (s.head >= s.tail) ? s.head - s.tail : size + s.head - s.tail, room = size - 1 - avail;
    mc::describe("ring size=%u set up by %s, head=%u tail=%u (avail %u) content pattern %d, ops: %s", size, INIT_NAME[path], s.head, s.tail, avail, pat, GRP[grp]);
    long n = 0, nt = 0;
    auto eval = [&](const char *opname, const std::function<void(CR &)> &f) {
        CR c(size, path);
        if (!fresh_ok(c))
        {
            n++;
            return;
        }
        if (pat == 1)
            memset(c.buf, 0x00, size);
        c.r.head = s.head;
        c.r.tail = s.tail;
        for (unsigned j = 0; j < avail; j++)
        {
            uint8_t b = pat_byte(pat, j);
            c.buf[(s.tail + j) % size] = (char)b;
            c.ref.push_back(b);
        }
        g_nt = s.head < s.tail;
        int v0 = g_viols;
        f(c);
        if (g_viols == v0)
            verify(c, opname);
        if (c.in_range() && c.r.head < c.r.tail)
            g_nt = true;
        n++;
        if (g_nt)
            nt++;
    };
    switch (grp)
    {
    case 0:
        // all 256 byte values on the stamp pattern and on the all-0xFF pattern; the other two content patterns get the marker bytes
        for (int b = 0; b < 256; b++)
            if (pat < 2 || b == 0x00 || b == 0x7F || b == 0x80 || b == 0xFF)
                eval("ring_putc", [&](CR &c) { op_putc(c, (uint8_t)b); });
        break;
    case 1:
        eval("ring_getc", [&](CR &c) { op_getc(c); });
        break;
    case 2:
        for (unsigned k = 0; k <= size + 1; k++)
            for (int v = 0; v < 2; v++)
            {
                std::vector<uint8_t> d(k);
                for (unsigned i = 0; i < k; i++)
                    d[i] = v ? (uint8_t)(0xF0 + 5 * i) : 0xFF;
                eval("ring_write", [&](CR &c) { op_write(c, d); });
            }
        break;
    case 3:
        for (unsigned k = 0; k <= size + 1; k++)
            eval("ring_read", [&](CR &c) { op_read(c, k); });
        break;
    case 4:
        for (unsigned b = 0; b <= room; b++)
            eval("ring_move_head", [&](CR &c) { op_move_head(c, b, false, 0xFD); });
        break;
    case 5:
        for (unsigned b = 0; b <= avail; b++)
            eval("ring_move_tail", [&](CR &c) { op_move_tail(c, b, false); });
        break;
    default:
        if (room > 0)
            eval("ring_move_head_one", [&](CR &c) { op_move_head(c, 1, true, 0xFF); });
        if (avail > 0)
            eval("ring_move_tail_one", [&](CR &c) { op_move_tail(c, 1, true); });
        eval("ring_clean", [&](CR &c) { op_clean(c); });
        eval("observe", [&](CR &) {});
        break;
    }
    if (nt)
        mc::nontrivial();
    mc::more_cases(n - 1, nt ? nt - 1 : 0);
}

// ======================================================================================================
// B. BFS over operation histories on a small ring
// ======================================================================================================
struct CRingModel : mc::Model
{
    CR c;
    enum
    {
        PUTC,
        GETC,
        WRITE,
        READ,
        HEAD_ONE,
        TAIL_ONE,
        MOVE_HEAD,
        MOVE_TAIL,
        CLEAN,
        REINIT // arg = initialisation path: the ring is set up again from whatever state it is in
    };
    struct Op
    {
        int kind;
        int arg; // byte / length / bias; -1 = "all there is"
    };
    std::vector<Op> ops;
    explicit CRingModel(unsigned n) : c(n)
    {
        for (int b : {0x00, 0x7F, 0xFF})
            ops.push_back({PUTC, b});
        ops.push_back({GETC, 0});
        ops.push_back({WRITE, 2});
        ops.push_back({WRITE, (int)n + 1});
        ops.push_back({READ, 2});
        ops.push_back({READ, (int)n + 1});
        ops.push_back({HEAD_ONE, 0});
        ops.push_back({TAIL_ONE, 0});
        ops.push_back({MOVE_HEAD, 2});
        ops.push_back({MOVE_HEAD, -1});
        ops.push_back({MOVE_TAIL, 2});
        ops.push_back({MOVE_TAIL, -1});
        ops.push_back({CLEAN, 0});
        for (int path = 0; path < N_INIT; path++)
            ops.push_back({REINIT, path});
    }
    int nops() override { return (int)ops.size(); }
    string opname(int o) override
    {
        static const char *nm[] = {"ring_putc", "ring_getc", "ring_write", "ring_read", "ring_move_head_one", "ring_move_tail_one", "ring_move_head", "ring_move_tail", "ring_clean"};
        Op p = ops[o];
        if (p.kind == PUTC)
            return mc::fmt("ring_putc(%02x)", p.arg);
        if (p.kind == REINIT)
            return mc::fmt("re-initialise by %s", INIT_NAME[p.arg]);
        if (p.arg < 0)
            return mc::fmt("%s(all)", nm[p.kind]);
        return mc::fmt("%s(%d)", nm[p.kind], p.arg);
    }
    bool apply(int o) override
    {
        Op p = ops[o];
        static const uint8_t A[3] = {0xFF, 0x00, 0x7F};
        unsigned room = c.ref_room(), avail = (unsigned)c.ref.size();
        g_nt = c.r.head < c.r.tail;
        int v0 = g_viols;
        string prekey = rawkey();
        const char *nm = "";
        switch (p.kind)
        {
        case PUTC:
            op_putc(c, (uint8_t)p.arg);
            nm = "ring_putc";
            break;
        case GETC:
            op_getc(c);
            nm = "ring_getc";
            break;
        case WRITE:
        {
            std::vector<uint8_t> d(p.arg);
            for (int i = 0; i < p.arg; i++)
                d[i] = A[i % 3];
            op_write(c, d);
            nm = "ring_write";
            break;
        }
        case READ:
            op_read(c, (unsigned)p.arg);
            nm = "ring_read";
            break;
        case HEAD_ONE:
            if (room < 1)
                return false; // no way to reject: caller must stay within room
            op_move_head(c, 1, true, 0x7F);
            nm = "ring_move_head_one";
            break;
        case TAIL_ONE:
            if (avail < 1)
                return false;
            op_move_tail(c, 1, true);
            nm = "ring_move_tail_one";
            break;
        case MOVE_HEAD:
        {
            unsigned b = p.arg < 0 ? room : (unsigned)p.arg;
            if (b > room || (p.arg < 0 && room == 0))
                return false;
            op_move_head(c, b, false, 0xFF); // ff 00 01 ..
            nm = "ring_move_head";
            break;
        }
        case MOVE_TAIL:
        {
            unsigned b = p.arg < 0 ? avail : (unsigned)p.arg;
            if (b > avail || (p.arg < 0 && avail == 0))
                return false;
            op_move_tail(c, b, false);
            nm = "ring_move_tail";
            break;
        }
        case CLEAN:
            op_clean(c);
            nm = "ring_clean";
            break;
        case REINIT:
            init_ring_head(&c.r, c.size, p.arg);
            c.init_path = p.arg;
            c.ref.clear();
            fresh_ok(c);
            nm = INIT_NAME[p.arg];
            break;
        }
        // A transition (pre-state, op) that this process has already read back in full is not read back again when
        // it recurs as a step of a replayed history: same state, same code, same result.
        static std::unordered_set<string> verified;
        if (g_viols == v0 && verified.insert(prekey + char('A' + o)).second)
            verify(c, nm);
        if (g_nt || (c.in_range() && c.r.head < c.r.tail))
            mc::nontrivial();
        return true;
    }
    string rawkey()
    {
        string k((const char *)&c.r, sizeof c.r);
        k.append(c.buf, c.size);
        k.append(c.ref.begin(), c.ref.end());
        return k;
    }
    string key() override { return mc::fmt("%u,%u,%u|%s|%s", c.r.size, c.r.head, c.r.tail, mc::hex(c.buf, c.size).c_str(), hexq(c.ref).c_str()); }
};

// ======================================================================================================
// C. igris::ring<T>
// ======================================================================================================
struct Elem
{ // element with non-trivial construction/destruction; owns nothing (element lifetime is not part of C03)
    int v, w;
    Elem() : v(-7), w(-7) {}
    Elem(int a) : v(a), w(0) {}
    Elem(int a, int b) : v(a), w(b) {}
    Elem(const Elem &o) : v(o.v), w(o.w) {}
    Elem &operator=(const Elem &o)
    {
        v = o.v;
        w = o.w;
        return *this;
    }
    ~Elem()
    {
        *(volatile int *)&v = -99;
        *(volatile int *)&w = -99;
    }
    bool operator==(const Elem &o) const { return v == o.v && w == o.w; }
};
// Element whose (count, value) and initializer_list constructors disagree: T(2,7) is {7,7}, T{2,7} is {2,7}
struct ListElem
{
    int n = 0;
    int a[4] = {0, 0, 0, 0};
    ListElem() {}
    ListElem(int count, int value) : n(count > 4 ? 4 : count)
    {
        for (int i = 0; i < n; i++)
            a[i] = value;
    }
    ListElem(std::initializer_list<int> l) : n(0)
    {
        for (int x : l)
            if (n < 4)
                a[n++] = x;
    }
    bool operator==(const ListElem &o) const { return n == o.n && !memcmp(a, o.a, sizeof a); }
};
using trk::Tracked;
// TrackAlloc, except that handing back "no block" (nullptr, 0) is tolerated as std::allocator tolerates it
template <class T> struct RingAlloc : trk::TrackAlloc<T>
{
    RingAlloc() = default;
    void deallocate(T *p, size_t n)
    {
        if (!p && !n)
            return;
        trk::TrackAlloc<T>::deallocate(p, n);
    }
};
template <class T> struct AllocFor
{
    typedef std::allocator<T> type;
};
template <> struct AllocFor<Tracked>
{
    typedef RingAlloc<Tracked> type;
};
// Per case: a lifetime registry for the tracked element (no-op for the others). Declared first in the case body, so it
// is torn down after every container of the case: whatever is still alive or allocated then has leaked.
template <class T> struct LifeScope
{
    explicit LifeScope(const char *) {}
};
template <> struct LifeScope<Tracked>
{
    trk::Registry reg;
    trk::Use use;
    string what;
    explicit LifeScope(const char *w) : use(reg), what(w) { reg.prop = "C03"; }
    ~LifeScope()
    {
        long lv = reg.live_total(), z = reg.alloc_zones();
        if (lv || z)
            mc::violation("C03." + what + ".leak", "after every container of the case was destroyed: %ld element(s) never destroyed, %ld block(s) never deallocated", lv, z);
        mc::count("tracked_constructions", reg.n_ctor);
    }
};

template <class T> struct V;
template <> struct V<int>
{
    static const char *name() { return "int"; }
    static int mk(int s) { return s; }
    static string str(int v) { return mc::fmt("%d", v); }
};
template <> struct V<char>
{
    static const char *name() { return "char"; }
    static char mk(int s) { return (char)(0xFD + s); } // fd fe ff 00 01 ...
    static string str(char v) { return mc::fmt("0x%02x", (uint8_t)v); }
};
template <> struct V<Tracked>
{
    static const char *name() { return "tracked"; }
    static Tracked mk(int s) { return Tracked(s); }
    static string str(const Tracked &t) { return mc::fmt("%d", trk::value_of(t)); }
};
template <> struct V<ListElem>
{
    static const char *name() { return "listelem"; }
    static ListElem mk(int s) { return ListElem(1 + s % 3, 2 + s); } // (count, value): count never equals value
    static string str(const ListElem &e) { return mc::fmt("%dx[%d,%d,%d,%d]", e.n, e.a[0], e.a[1], e.a[2], e.a[3]); }
};
template <> struct V<Elem>
{
    static const char *name() { return "elem"; }
    static Elem mk(int s) { return Elem(s, s ^ 0x55); }
    static string str(const Elem &e) { return mc::fmt("{%d,%d}", e.v, e.w); }
};

static int typed_max() { return mc::thorough() ? 17 : 9; }
static int tracked_max() { return mc::thorough() ? 9 : 5; } // every event of the tracked element goes through a registry
struct ListElem;
template <class T> static int size_max() { return std::is_same<T, trk::Tracked>::value ? tracked_max() : std::is_same<T, ListElem>::value ? 9 : typed_max(); }

template <class T> struct TR
{
    int bufsize;
    std::unique_ptr<igris::ring<T, typename AllocFor<T>::type>> holder;
    igris::ring<T, typename AllocFor<T>::type> &ring;
    std::deque<T> live;    // FIFO content
    std::vector<T> pushed; // every value ever pushed, oldest first
    size_t window = 0;     // how many of the most recent pushes are still in the buffer, contiguous behind head
    int stamp = 0;
    int v_base = g_viols; // an instance that has shown a violation is not used further (its reference has diverged)
    bool dead() const { return g_viols != v_base; }
    // construction paths: 0 ring(n); 1 default-constructed then resize(n); 2 copy of a ring(n)
    static igris::ring<T, typename AllocFor<T>::type> *construct(int b, int path)
    {
        CTX("C03.typed_ring.ctor.memory");
        if (path == 0)
            return new igris::ring<T, typename AllocFor<T>::type>(b);
        if (path == 1)
        {
            igris::ring<T, typename AllocFor<T>::type> *r = new igris::ring<T, typename AllocFor<T>::type>();
            r->resize(b);
            return r;
        }
        igris::ring<T, typename AllocFor<T>::type> proto(b);
        return new igris::ring<T, typename AllocFor<T>::type>(proto);
    }
    explicit TR(int b, int path = 0) : bufsize(b), holder(construct(b, path)), ring(*holder) {}
    ~TR() { CTX("C03.typed_ring.dtor.memory"); } // the members (reference copies, then the ring itself) go after this
    unsigned rsize() const { return (unsigned)bufsize + 1; }
    string tn(const char *what) const { return string("C03.typed_ring.") + what; }
    string str()
    {
        string s = mc::fmt("ring<%s>(%d) head=%u tail=%u size=%u live=[", V<T>::name(), bufsize, ring.r.head, ring.r.tail, ring.r.size);
        for (auto &x : live)
            s += V<T>::str(x) + " ";
        return s + "]";
    }
    void note_push(const T &v)
    {
        live.push_back(v);
        pushed.push_back(v);
        window = std::min<size_t>(window + 1, rsize());
    }
    void push(int how = 0)
    {
        if ((int)live.size() >= bufsize)
            mc::harness_error("push beyond room");
        T v = V<T>::mk(stamp++);
        CTX("C03.typed_ring.push.memory");
        if (how == 0)
            ring.push(v);
        else
            emplace_(v);
        CTX("C03.harness");
        note_push(v);
    }
    void emplace_(const T &v)
    {
        if constexpr (std::is_same<T, Elem>::value)
            ring.emplace(v.v, v.w);
        else if constexpr (std::is_same<T, ListElem>::value)
            ring.emplace(v.n, v.a[0]); // (count, value): must build what T(count, value) builds
        else if constexpr (std::is_same<T, Tracked>::value)
            ring.emplace(trk::value_of(v));
        else
            ring.emplace(v);
    }
    void pop()
    {
        if (live.empty())
            mc::harness_error("pop beyond avail");
        CTX("C03.typed_ring.pop.memory");
        if (!(ring.tail() == live.front()))
            VIOL(tn("tail.value"), "tail() is %s, oldest element is %s; %s", V<T>::str(ring.tail()).c_str(), V<T>::str(live.front()).c_str(), str().c_str());
        ring.pop();
        CTX("C03.harness");
        live.pop_front();
        window = std::min(window, live.size()); // what a popped slot holds afterwards is not specified
    }
    bool idx_ok()
    {
        if (ring.r.head >= ring.r.size || ring.r.tail >= ring.r.size || ring.buffer.size() < ring.r.size)
        {
            VIOL(tn(ring.buffer.size() < ring.r.size ? "buffer_smaller_than_ring" : "index_out_of_range"), "head=%u tail=%u ring size=%u (indices run to %u), buffer slots=%zu; %s", ring.r.head,
                 ring.r.tail, ring.r.size, ring.r.size - 1, ring.buffer.size(), str().c_str());
            return false;
        }
        return true;
    }
    // counters and flags against the reference
    bool counts(const char *when)
    {
        if (!idx_ok())
            return false;
        if (ring.size() != rsize())
            VIOL(tn("size"), "%s: size()=%u, want %u (capacity+1); %s", when, ring.size(), rsize(), str().c_str());
        if (ring.avail() != live.size())
            VIOL(tn("avail"), "%s: avail()=%u, reference holds %zu; %s", when, ring.avail(), live.size(), str().c_str());
        if (ring.room() != bufsize - live.size())
            VIOL(tn("room"), "%s: room()=%u, reference has room for %zu; %s", when, ring.room(), bufsize - live.size(), str().c_str());
        if (ring.avail() + ring.room() != (unsigned)bufsize)
            VIOL(tn("avail_plus_room"), "%s: avail %u + room %u != capacity %d; %s", when, ring.avail(), ring.room(), bufsize, str().c_str());
        if (ring.empty() != live.empty())
            VIOL(tn("empty_flag"), "%s: empty()=%d, reference holds %zu; %s", when, ring.empty(), live.size(), str().c_str());
        if ((unsigned)ring.head_index() != ring.r.head || (unsigned)ring.tail_index() != ring.r.tail)
            VIOL(tn("head_tail_index"), "%s: head_index()/tail_index() = %d/%d; %s", when, ring.head_index(), ring.tail_index(), str().c_str());
        if (ring.distance(ring.head_index(), ring.tail_index()) != (int)live.size())
            VIOL(tn("distance.head_tail"), "%s: distance(head,tail)=%d, reference holds %zu; %s", when, ring.distance(ring.head_index(), ring.tail_index()), live.size(), str().c_str());
        return true;
    }
    // every read-only accessor
    void observe(const char *when)
    {
        if (dead())
            return;
        CTX("C03.typed_ring.observe.memory");
        if (!counts(when))
            return;
        int sz = (int)ring.size();
        unsigned head = ring.r.head;
        if (!live.empty())
        {
            if (!(ring.tail() == live.front()))
                VIOL(tn("tail.value"), "%s: tail() is %s, oldest element is %s; %s", when, V<T>::str(ring.tail()).c_str(), V<T>::str(live.front()).c_str(), str().c_str());
            if (!(ring.last() == live.back()))
                VIOL(tn(head == 0 ? "last.value.head_at_0" : "last.value"), "%s: last() is %s, newest element is %s; %s", when, V<T>::str(ring.last()).c_str(),
                              V<T>::str(live.back()).c_str(), str().c_str());
            if (!(ring.get(ring.tail_index()) == live.front()))
                VIOL(tn("get.value"), "%s: get(tail_index()) is not the oldest element; %s", when, str().c_str());
            if (ring.index_of(&ring.tail()) != ring.tail_index())
                VIOL(tn("index_of"), "%s: index_of(&tail())=%d, tail_index()=%d", when, ring.index_of(&ring.tail()), ring.tail_index());
        }
        if (ring.index_of(&ring.head_place()) != ring.head_index())
            VIOL(tn("head_place"), "%s: head_place() is slot %d, head_index()=%d", when, ring.index_of(&ring.head_place()), ring.head_index());
        // get_last(offset,count,order) over the most recent pushes still in the buffer
        size_t W = std::min(window, live.size());
        size_t P = pushed.size();
        long evals = 0, ntev = 0;
        for (size_t off = 0; off <= W; off++)
            for (size_t cnt = 0; off + cnt <= W; cnt++)
                for (int from_end = 0; from_end < 2; from_end++)
                {
                    std::vector<T> got = ring.get_last((int)off, (int)cnt, from_end);
                    bool ok = got.size() == cnt;
                    for (size_t i = 0; ok && i < cnt; i++)
                    {
                        const T &want = from_end ? pushed[P - 1 - off - i] : pushed[P - cnt - off + i];
                        ok = got[i] == want;
                    }
                    bool wraps = head < off + cnt;
                    evals++;
                    ntev += wraps;
                    if (!ok)
                    {
                        string g;
                        for (auto &x : got)
                            g += V<T>::str(x) + " ";
                        VIOL(tn(wraps ? "get_last.value.wraps_below_0" : "get_last.value"),
                                      "%s: get_last(offset=%zu,count=%zu,from_end=%d) = [%s] does not address the %zu..%zu-th previous pushes; %s", when, off, cnt,
                                      from_end, g.c_str(), off, off + cnt, str().c_str());
                    }
                }
        // fixup_index / distance against plain modular arithmetic
        for (int i = -2 * sz; i <= 2 * sz; i++)
        {
            int got = ring.fixup_index(i), want = pmod(i, sz);
            evals++;
            ntev += (i < 0 || i >= sz);
            if (got != want)
                VIOL(tn(i < 0 ? "fixup_index.negative" : "fixup_index.nonnegative"), "%s: fixup_index(%d) on a ring of %d slots = %d, want %d", when, i, sz, got, want);
        }
        for (int a = 0; a < sz; a++)
            for (int b = 0; b < sz; b++)
            {
                int got = ring.distance(a, b), want = pmod(a - b, sz);
                evals++;
                ntev += a < b;
                if (got != want)
                    VIOL(tn("distance.value"), "%s: distance(%d,%d) on a ring of %d slots = %d, want %d", when, a, b, sz, got, want);
            }
        mc::more_cases(evals, ntev);
        mc::outcome(mc::fmt("typed avail=%zu head=%u", live.size(), head));
        CTX("C03.harness");
    }
    // fill up to capacity through push, then read everything back through tail()/pop()
    void fill_and_drain(const char *when)
    {
        if (dead())
            return;
        CTX("C03.typed_ring.fill_drain.memory");
        int guard = 0, v0 = g_viols;
        while (g_viols == v0 && ring.room() > 0 && guard++ <= bufsize + 1)
        {
            if ((int)live.size() >= bufsize)
            {
                VIOL(tn("room.full_not_reported"), "%s: room()=%u with %zu of %d elements stored; %s", when, ring.room(), live.size(), bufsize, str().c_str());
                return;
            }
            push(guard & 1);
            if (!(ring.last() == live.back()))
                VIOL(tn(ring.r.head == 0 ? "last.value.head_at_0" : "last.value"), "%s: after push last() is %s, want %s; %s", when, V<T>::str(ring.last()).c_str(),
                              V<T>::str(live.back()).c_str(), str().c_str());
        }
        if (g_viols != v0 || !counts(when))
            return;
        if ((int)live.size() != bufsize)
            VIOL(tn("capacity"), "%s: ring reported full after %zu elements, capacity is %d; %s", when, live.size(), bufsize, str().c_str());
        guard = 0;
        while (g_viols == v0 && ring.avail() > 0 && !live.empty() && guard++ <= bufsize + 1)
            pop();
        if (g_viols == v0)
            counts(when);
        CTX("C03.harness");
    }
    // one element through every slot (so that every slot is once the wrap point), then fill and drain
    void exercise(const char *when)
    {
        if (dead())
            return;
        CTX("C03.typed_ring.%s.memory", when);
        int v0 = g_viols;
        if (!counts(when))
            return;
        for (unsigned round = 0; round < 2 * rsize() + 1 && g_viols == v0; round++)
        {
            push(round & 1);
            if (!(ring.last() == live.back()) || !(ring.tail() == live.back()))
                VIOL(tn(ring.r.head == 0 ? "last.value.head_at_0" : "last.value"), "%s: single element %s: last()=%s tail()=%s; %s", when,
                              V<T>::str(live.back()).c_str(), V<T>::str(ring.last()).c_str(), V<T>::str(ring.tail()).c_str(), str().c_str());
            pop();
            if (g_viols != v0 || !counts(when))
                return;
        }
        CTX("C03.typed_ring.%s.memory", when);
        if (g_viols == v0)
            fill_and_drain(when);
    }
};

static const char *const TPATH[] = {"ring(n)", "ring() + resize(n)", "copy of ring(n)"};
template <class T> static TR<T> *build_typed(int bufsize, int k, int m, int path = 0)
{
    TR<T> *t = new TR<T>(bufsize, path);
    CTX("C03.typed_ring.ctor.memory");
    for (int i = 0; i < k; i++)
    {
        t->push(i & 1);
        t->pop();
    }
    for (int i = 0; i < m; i++)
        t->push(i & 1);
    return t;
}

struct BK
{
    int bufsize, k;
};
static std::vector<BK> g_bk;

template <class T> static void typed_case()
{
    LifeScope<T> life("typed_ring");
    const bool is_char = std::is_same<T, char>::value;
    int nbk = 0; // the table is ordered by size: a prefix
    while (nbk < (int)g_bk.size() && g_bk[nbk].bufsize <= size_max<T>())
        nbk++;
    int bi = mc::choose(nbk);
    int bufsize = g_bk[bi].bufsize, k = g_bk[bi].k;
    int m = mc::choose(bufsize + 1);
    int grp = mc::choose(is_char ? 8 : 7);
    int path = bufsize <= 9 ? mc::choose(3) : 0; // the construction path is crossed with the sizes of the quick tier
    static const char *const G[] = {"observe+drain", "push/emplace", "pop", "clear/reset", "set_last_index(all)", "resize(all)", "head_place/move_*_one", "read(k)/write(k)"};
    int sz = bufsize + 1;
    mc::describe("igris::ring<%s>(%d) built as %s: %d push+pop (head at slot %d), then %d pushes; ops: %s", V<T>::name(), bufsize, TPATH[path], k, k % sz, m, G[grp]);
    if ((k % sz) + m >= sz || k >= sz)
        mc::nontrivial(); // the live region wraps, or head has been round at least once
    auto fresh = [&]() { return std::unique_ptr<TR<T>>(build_typed<T>(bufsize, k, m, path)); };
    switch (grp)
    {
    case 0:
    {
        auto t = fresh();
        t->observe("initial state");
        t->fill_and_drain("fill and drain");
        t->observe("after fill and drain");
        break;
    }
    case 1:
        for (int how = 0; how < 2; how++)
        {
            auto t = fresh();
            if (m < bufsize)
            {
                t->push(how);
                t->observe(how ? "after emplace" : "after push");
            }
            t->fill_and_drain("fill and drain");
        }
        mc::more_cases(1);
        break;
    case 2:
    {
        auto t = fresh();
        if (m > 0)
        {
            t->pop();
            t->observe("after pop");
        }
        t->fill_and_drain("fill and drain");
        break;
    }
    case 3:
    {
        {
            auto t = fresh();
            CTX("C03.typed_ring.clear.memory");
            t->ring.clear();
            t->live.clear();
            t->window = 0;
            t->observe("after clear");
            t->exercise("clear");
        }
        {
            auto t = fresh();
            // reset() empties the ring; elements are dropped, not destroyed (drain first so that none is live)
            while (!t->live.empty())
                t->pop();
            CTX("C03.typed_ring.reset.memory");
            t->ring.reset();
            t->window = 0;
            t->observe("after reset");
            t->exercise("reset");
        }
        mc::more_cases(1);
        break;
    }
    case 4:
        // stamp every slot, then make slot idx the newest: last()/get_last address backwards from it, for every idx
        for (int idx = 0; idx < sz; idx++)
        {
            auto t = fresh();
            CTX("C03.typed_ring.get.memory");
            for (int i = 0; i < sz; i++)
                t->ring.get(i) = V<T>::mk(40 + i);
            CTX("C03.typed_ring.set_last_index.memory");
            t->ring.set_last_index(idx);
            if (!t->idx_ok())
                continue;
            if (t->ring.head_index() != (idx + 1) % sz)
                VIOL("C03.typed_ring.set_last_index.head", "set_last_index(%d) on %d slots: head_index()=%d, want %d", idx, sz, t->ring.head_index(), (idx + 1) % sz);
            if (t->ring.index_of(&t->ring.last()) != idx)
                VIOL(idx == sz - 1 ? "C03.typed_ring.last.slot.head_at_0" : "C03.typed_ring.last.slot", "after set_last_index(%d) on %d slots last() is slot %d", idx, sz,
                              t->ring.index_of(&t->ring.last()));
            for (int off = 0; off <= sz; off++)
                for (int cnt = 0; off + cnt <= sz; cnt++)
                    for (int from_end = 0; from_end < 2; from_end++)
                    {
                        std::vector<T> got = t->ring.get_last(off, cnt, from_end);
                        bool ok = (int)got.size() == cnt;
                        for (int i = 0; ok && i < cnt; i++)
                        {
                            int back = from_end ? off + i : off + cnt - 1 - i; // how many samples before slot idx
                            ok = got[i] == V<T>::mk(40 + pmod(idx - back, sz));
                        }
                        if (!ok)
                            VIOL((idx + 1) % sz - off - cnt < 0 ? "C03.typed_ring.get_last.slot.wraps_below_0" : "C03.typed_ring.get_last.slot",
                                          "after set_last_index(%d) on %d slots get_last(offset=%d,count=%d,from_end=%d) does not return slots %d-%d.. backwards", idx, sz, off, cnt,
                                          from_end, idx, off);
                    }
            mc::more_cases((sz + 1) * (sz + 2), (sz + 1) * (sz + 2) / 2);
        }
        break;
    case 5:
        for (int n = 1; n <= size_max<T>(); n++)
        {
            auto t = fresh();
            while (!t->live.empty())
                t->pop(); // resize drops the storage
            CTX("C03.typed_ring.resize.memory");
            t->ring.resize(n);
            t->bufsize = n;
            t->window = 0;
            t->exercise("resize"); // capacity n, every slot once the wrap point, under ASan
            if (!t->dead())
            {
                t->ring.reset(); // must keep the capacity
                t->exercise("reset_after_resize");
            }
            mc::more_cases(1, 1);
        }
        break;
    case 6:
    {
        {
            auto t = fresh();
            if (m < bufsize)
            { // in-place production: fill head_place(), publish with move_head_one()
                T v = V<T>::mk(t->stamp++);
                CTX("C03.typed_ring.head_place.memory");
                t->ring.head_place() = v;
                t->ring.move_head_one();
                t->note_push(v);
                t->observe("after head_place()=v; move_head_one()");
            }
            t->fill_and_drain("fill and drain");
        }
        {
            auto t = fresh();
            if (m > 0)
            { // consume without destroying: the object stays in its slot until the slot is used again
                CTX("C03.typed_ring.move_tail_one.memory");
                t->ring.move_tail_one();
                t->live.pop_front();
                t->window = std::min(t->window, t->live.size());
                t->observe("after move_tail_one()");
            }
            t->fill_and_drain("fill and drain");
        }
        mc::more_cases(1);
        break;
    }
    default:
        if constexpr (std::is_same<T, char>::value)
        {
            for (int kk = 0; kk <= sz + 1; kk++)
            {
                { // write(kk)
                    auto t = fresh();
                    Heap in(kk);
                    for (int i = 0; i < kk; i++)
                        in.p[i] = (char)(0xFF - (i % 3)); // ff fe fd ff ..
                    size_t want = std::min<size_t>(kk, bufsize - t->live.size());
                    CTX("C03.typed_ring.write.memory");
                    size_t ret = t->ring.write(in.p, kk);
                    if (ret != want)
                        VIOL("C03.typed_ring.write.count", "write(%d) with room %zu returned %zu; %s", kk, bufsize - t->live.size(), ret, t->str().c_str());
                    for (size_t i = 0; i < want; i++)
                        t->note_push(in.p[i]);
                    t->observe("after write(k)");
                    t->fill_and_drain("fill and drain");
                }
                { // read(kk)
                    auto t = fresh();
                    Heap out(kk);
                    size_t want = std::min<size_t>(kk, t->live.size());
                    bool ff = false;
                    for (size_t i = 0; i < want; i++)
                        ff |= (uint8_t)t->live[i] == 0xFF;
                    CTX("C03.typed_ring.read.memory");
                    size_t ret = t->ring.read(out.p, kk);
                    if (ret != want)
                        VIOL(ff ? "C03.typed_ring.read.count.ff_in_data" : "C03.typed_ring.read.count", "read(%d) with %zu stored returned %zu; %s", kk, t->live.size(), ret,
                                      t->str().c_str());
                    for (size_t i = 0; i < std::min(ret, want); i++)
                        if (out.p[i] != t->live[i])
                        {
                            VIOL("C03.typed_ring.read.data", "read(%d): element %zu is %02x, want %02x", kk, i, (uint8_t)out.p[i], (uint8_t)t->live[i]);
                            break;
                        }
                    for (size_t i = 0; i < want; i++)
                        t->live.pop_front();
                    t->observe("after read(k)");
                    t->fill_and_drain("fill and drain");
                }
            }
            mc::more_cases(2 * (sz + 2) - 1, 2 * (sz + 2) - 1);
        }
        break;
    }
}

// ======================================================================================================
// D. igris::cyclic_buffer<T>: operator[](i) is the i-th previous sample
// ======================================================================================================
template <class T> struct CB
{
    igris::cyclic_buffer<T, typename AllocFor<T>::type> cb;
    std::vector<T> hist; // samples pushed since construction / resize
    size_t cap;
    int stamp = 0;
    explicit CB(size_t n) : cb((CTX("C03.cyclic_buffer.ctor.memory"), n)), cap(n) {}
    ~CB() { CTX("C03.cyclic_buffer.dtor.memory"); }
    void push()
    {
        T v = V<T>::mk(stamp++);
        CTX("C03.cyclic_buffer.push.memory");
        T ret = cb.push(v);
        CTX("C03.harness");
        // Once the buffer is full, push() hands back the sample that leaves the window: the cap-th previous one
        // (what [cap-1] addressed before the call). While it is still filling the slot was never written: unchecked.
        if (hist.size() >= cap && !(ret == hist[hist.size() - cap]))
            VIOL("C03.cyclic_buffer.push.evicted_value", "push(%s) on a full buffer of %zu slots returned %s, the sample that leaves the window (the %zu-th previous one) is %s",
                 V<T>::str(v).c_str(), cap, V<T>::str(ret).c_str(), cap, V<T>::str(hist[hist.size() - cap]).c_str());
        hist.push_back(v);
    }
    void observe(const char *when)
    {
        CTX("C03.cyclic_buffer.observe.memory");
        size_t want = std::min(hist.size(), cap);
        if (cb.counter.counter < 0 || cb.counter.counter >= cb.counter.size || (size_t)cb.counter.size > cb.data.size())
        {
            VIOL("C03.cyclic_buffer.index_out_of_range", "%s: counter=%d size=%d buffer slots=%zu", when, cb.counter.counter, cb.counter.size, cb.data.size());
            return;
        }
        if (cb.size() != want)
            VIOL(string("C03.cyclic_buffer.size") + (strstr(when, "resize") ? ".after_resize" : ""), "%s: size()=%zu after %zu pushes into %zu slots, want %zu", when,
                          cb.size(), hist.size(), cap, want);
        const igris::cyclic_buffer<T, typename AllocFor<T>::type> &ccb = cb;
        for (size_t i = 0; i < want; i++)
        {
            T a = cb[(int)i];
            const T b = ccb[(int)i];
            const T &w = hist[hist.size() - 1 - i];
            if (!(a == w) || !(b == w))
                VIOL("C03.cyclic_buffer.index.value", "%s: [%zu] is %s (const: %s), the %zu-th previous sample is %s (%zu pushes into %zu slots, counter=%d)", when, i,
                              V<T>::str(a).c_str(), V<T>::str(b).c_str(), i, V<T>::str(w).c_str(), hist.size(), cap, cb.counter.counter);
        }
        mc::more_cases(want, hist.size() > cap ? want : 0);
        mc::outcome(mc::fmt("cyclic n=%zu counter=%d", want, cb.counter.counter));
        CTX("C03.harness");
    }
};
struct SK
{
    int size, k;
};
static std::vector<SK> g_sk;
template <class T> static void cyclic_case()
{
    LifeScope<T> life("cyclic_buffer");
    int nsk = 0;
    while (nsk < (int)g_sk.size() && g_sk[nsk].size <= size_max<T>())
        nsk++;
    int i = mc::choose(nsk);
    int size = g_sk[i].size, k = g_sk[i].k;
    int grp = mc::choose(2);
    mc::describe("cyclic_buffer<%s>(%d), %d pushes%s", V<T>::name(), size, k, grp ? ", then resize(n) for every n and push again" : "");
    if (k > size)
        mc::nontrivial(); // the write position wrapped and old samples were overwritten
    CB<T> c(size);
    CTX("C03.cyclic_buffer.ctor.memory");
    c.observe("fresh");
    for (int j = 0; j < k; j++)
    {
        c.push();
        c.observe("after push");
    }
    if (grp == 1)
    {
        int N = size_max<T>();
        for (int n = 1; n <= N; n++)
        {
            CB<T> d(size);
            for (int j = 0; j < k; j++)
                d.push();
            CTX("C03.cyclic_buffer.resize.memory");
            d.cb.resize(n);
            d.cap = n;
            d.hist.clear();
            d.observe("after resize");
            for (int j = 0; j < 2 * n + 1; j++)
            {
                d.push();
                d.observe(j == 0 ? "first push after resize" : "pushes after resize");
            }
            mc::more_cases(1, 1);
        }
    }
}

// ======================================================================================================
// E. ring_counter
// ======================================================================================================
struct SC
{
    int size, counter;
};
static std::vector<SC> g_sc;
static void ring_counter_case()
{
    int ch = mc::choose((int)g_sc.size() * 5);
    int i = ch / 5, fn = ch % 5;
    int size = g_sc[i].size, cnt = g_sc[i].counter;
    static const char *const FN[] = {"prev", "last", "fixup_pos", "increment", "set"};
    mc::describe("ring_counter size=%d counter=%d: ring_counter_%s for every argument", size, cnt, FN[fn]);
    struct ring_counter rc;
    memset(&rc, 0xAB, sizeof rc);
    ring_counter_init(&rc, size);
    if (rc.counter != 0 || rc.size != size || ring_counter_get(&rc) != 0)
        VIOL("C03.ring_counter.init", "init(%d): counter=%d size=%d", size, rc.counter, rc.size);
    int lo = (fn == 1 || fn == 2) ? -3 * size : 0, hi = 3 * size;
    long n = 0, nt = 0;
    for (int a = lo; a <= hi; a++)
    {
        ring_counter_set(&rc, cnt);
        if (ring_counter_get(&rc) != cnt)
            VIOL("C03.ring_counter.set", "set(%d) size %d: counter=%d", cnt, size, rc.counter);
        int got, want;
        switch (fn)
        {
        case 0:
            got = ring_counter_prev(&rc, a);
            want = pmod(cnt - a, size);
            break;
        case 1:
            got = ring_counter_last(&rc, a);
            want = pmod(cnt - a, size);
            break;
        case 2:
            got = ring_counter_fixup_pos(&rc, a);
            want = pmod(a, size);
            break;
        case 3:
            ring_counter_increment(&rc, a);
            got = ring_counter_get(&rc);
            want = pmod(cnt + a, size);
            break;
        default:
            ring_counter_set(&rc, a);
            got = ring_counter_get(&rc);
            want = pmod(a, size);
            break;
        }
        bool wraps = fn == 2 || fn == 4 ? (a < 0 || a >= size) : fn == 3 ? cnt + a >= size : (a > cnt || cnt - a >= size);
        if (wraps)
        {
            mc::nontrivial(); // the result wraps
            nt++;
        }
        n++;
        if (got != want || got < 0 || got >= size)
            VIOL(mc::fmt("C03.ring_counter.%s.value%s", FN[fn], a < 0 ? ".negative_arg" : ""), "ring_counter_%s(counter=%d,size=%d, %d) = %d, want %d", FN[fn], cnt, size, a,
                          got, want);
        if ((fn < 3) && rc.counter != cnt)
            VIOL(mc::fmt("C03.ring_counter.%s.modifies", FN[fn]), "ring_counter_%s changed the counter %d -> %d", FN[fn], cnt, rc.counter);
        mc::outcome(mc::fmt("rc %d", got));
    }
    mc::more_cases(n - 1, nt ? nt - 1 : 0);
}

// ======================================================================================================
// F. unbounded_array: the store behind igris::ring and cyclic_buffer
// ======================================================================================================
template <class T> static void uarray_case()
{
    LifeScope<T> life("unbounded_array");
    int N = size_max<T>();
    int c = mc::choose((N + 1) * (N + 1));
    int via_resize = mc::choose(2);
    int sz = c / (N + 1), n = c % (N + 1);
    mc::describe("unbounded_array<%s>%s(%d) then resize(%d)", V<T>::name(), via_resize ? "() + resize" : "", sz, n);
    if (n != sz)
        mc::nontrivial();
    CTX("C03.unbounded_array.ctor.memory");
    igris::unbounded_array<T, typename AllocFor<T>::type> a0(via_resize ? 0 : sz), a1;
    igris::unbounded_array<T, typename AllocFor<T>::type> &a = via_resize ? a1 : a0;
    if (via_resize)
    {
        a.resize(sz);
    }
    if (a.size() != (size_t)sz || a.end() - a.begin() != sz || (sz && a.data() != &a[0]))
        VIOL("C03.unbounded_array.ctor.size", "unbounded_array(%d): size()=%zu", sz, a.size());
    for (int i = 0; i < sz; i++)
        a[i] = V<T>::mk(i);
    {
        igris::unbounded_array<T, typename AllocFor<T>::type> b(a);
        bool ok = b.size() == a.size();
        for (int i = 0; ok && i < sz; i++)
            ok = b[i] == V<T>::mk(i);
        if (!ok)
            VIOL("C03.unbounded_array.copy", "copy of unbounded_array(%d) differs", sz);
    }
    CTX("C03.unbounded_array.resize.memory");
    a.resize(n);
    if (a.size() != (size_t)n || a.end() - a.begin() != n)
        VIOL("C03.unbounded_array.resize.size", "resize(%d): size()=%zu", n, a.size());
    for (int i = 0; i < n; i++)
        a[i] = V<T>::mk(100 + i); // an array of n elements: they exist, as after unbounded_array(n)
    a.fill(V<T>::mk(7));
    const igris::unbounded_array<T, typename AllocFor<T>::type> &ca = a;
    int cntd = 0;
    for (const T &x : ca)
        cntd += x == V<T>::mk(7);
    if (cntd != n)
        VIOL("C03.unbounded_array.fill", "fill over %d elements reached %d", n, cntd);
    mc::outcome(mc::fmt("ua %d", n));
    CTX("C03.unbounded_array.dtor.memory");
}

// ======================================================================================================
// A0. every public initialisation path x every size: the fresh ring is empty, takes exactly size-1 bytes, gives them back
// ======================================================================================================
static std::vector<unsigned> g_initsizes;
static void init_paths_case()
{
    int ch = mc::choose((int)g_initsizes.size() * N_INIT);
    unsigned size = g_initsizes[ch / N_INIT];
    int path = ch % N_INIT;
    struct Sfx
    {
        explicit Sfx(unsigned size) { g_sigsfx = size >= 127 ? (size >= 65536 ? ".size_ge_65536" : size >= 256 ? ".size_ge_256" : ".size_ge_127") : ""; }
        ~Sfx() { g_sigsfx = ""; }
    } sfx(size);
    mc::describe("ring of %u slots set up by %s: fresh state, fill, read back", size, INIT_NAME[path]);
    if (path != INIT_FN)
        mc::nontrivial();
    CTX("C03.%s.memory", INIT_NAME[path]);
    CR c(size, path);
    mc::outcome(mc::fmt("init %u %u %u", c.r.head, c.r.tail, c.r.size == size));
    if (fresh_ok(c))
        verify(c, INIT_NAME[path], size > 1000);
    // and once more after traffic: clean, re-check
    if (c.in_range() && !mc::case_has_violation())
    {
        op_putc(c, 0xFF);
        op_clean(c);
        if (fresh_ok(c))
            verify(c, "ring_clean", size > 1000);
    }
}

// ======================================================================================================
// G. large sizes: an index, size or counter narrowed to 8 or 16 bits only misbehaves from 256 / 65536 slots on
// ======================================================================================================
static const char *size_class(unsigned size) { return size >= 65536 ? ".size_ge_65536" : size >= 256 ? ".size_ge_256" : ".size_ge_127"; }
struct SigClass
{
    explicit SigClass(unsigned size) { g_sigsfx = size_class(size); }
    ~SigClass() { g_sigsfx = ""; }
};
static std::vector<unsigned> uniq(std::vector<long> v, long lo, long hi)
{ // the candidates inside [lo,hi], sorted, without repetition
    std::vector<unsigned> o;
    std::sort(v.begin(), v.end());
    for (long x : v)
        if (x >= lo && x <= hi && (o.empty() || o.back() != (unsigned)x))
            o.push_back((unsigned)x);
    return o;
}
// slot positions around 0, the 7/8/16-bit boundaries and the end of a ring of `size` slots
static std::vector<unsigned> boundary_positions(unsigned size, bool few = false)
{
    long s = size;
    if (few)
        return uniq({0, 1, 255, 256, 257, 65535, 65536, s - 2, s - 1}, 0, s - 1);
    return uniq({0, 1, 2, 126, 127, 128, 129, 254, 255, 256, 257, 65534, 65535, 65536, 65537, s - 2, s - 1}, 0, s - 1);
}
// transfer lengths / biases around the same boundaries
static std::vector<unsigned> boundary_counts(unsigned size)
{
    long s = size;
    std::vector<long> v = {0, 1, 127, 128, 254, 255, 256, 257, s - 1, s, s + 1};
    if (size > 60000)
        for (long x : {65535L, 65536L, 65537L})
            v.push_back(x);
    return uniq(v, 0, s + 1);
}
static uint8_t lstamp(unsigned j) { return (uint8_t) ~(j % 253); } // period 253
static uint8_t wstamp(unsigned i) { return (uint8_t)(1 + i % 251); }

static std::vector<St> g_bigstates;
static const char *const BGRP[] = {"write(k)", "read(k)", "move_head(bias)", "move_tail(bias)", "putc run", "getc run"};

static void big_cring_case()
{
    int si = mc::choose((int)g_bigstates.size());
    int path = mc::choose(N_INIT);
    int grp = mc::choose(6);
    St s = g_bigstates[si];
    unsigned size = s.size, avail = (s.head >= s.tail) ? s.head - s.tail : size + s.head - s.tail, room = size - 1 - avail;
    SigClass sc(size);
    mc::describe("ring size=%u set up by %s, head=%u tail=%u (avail %u), ops: %s at the boundary lengths", size, INIT_NAME[path], s.head, s.tail, avail, BGRP[grp]);
    std::vector<unsigned> K = boundary_counts(size);
    long n = 0, nt = 0;
    auto eval = [&](const char *opname, unsigned amount, const std::function<void(CR &)> &f) {
        CR c(size, path);
        if (!fresh_ok(c))
        {
            n++;
            return;
        }
        c.r.head = s.head;
        c.r.tail = s.tail;
        for (unsigned j = 0; j < avail; j++)
        {
            uint8_t b = lstamp(j);
            c.buf[(s.tail + j) % size] = (char)b;
            c.ref.push_back(b);
        }
        int v0 = g_viols;
        f(c);
        if (g_viols == v0)
            verify(c, opname, size > 1000);
        // non-trivial: an index or a count of this evaluation does not fit 8 bits
        bool big = size >= 256 && (amount >= 255 || s.head >= 255 || s.tail >= 255 || (c.in_range() && (c.r.head >= 255 || c.r.tail >= 255)));
        n++;
        nt += big;
    };
    switch (grp)
    {
    case 0:
        for (unsigned k : K)
        {
            std::vector<uint8_t> d(k);
            for (unsigned i = 0; i < k; i++)
                d[i] = wstamp(i);
            eval("ring_write", k, [&](CR &c) { op_write(c, d); });
        }
        break;
    case 1:
        for (unsigned k : K)
            eval("ring_read", k, [&](CR &c) { op_read(c, k); });
        break;
    case 2:
    {
        std::vector<long> bs;
        for (unsigned k : K)
            bs.push_back(std::min(k, room));
        for (unsigned b : uniq(bs, 0, room))
            eval("ring_move_head", b, [&](CR &c) { op_move_head(c, b, false, 0xFD); });
        break;
    }
    case 3:
    {
        std::vector<long> bs;
        for (unsigned k : K)
            bs.push_back(std::min(k, avail));
        for (unsigned b : uniq(bs, 0, avail))
            eval("ring_move_tail", b, [&](CR &c) { op_move_tail(c, b, false); });
        break;
    }
    case 4:
    { // a run of single putc's long enough to carry head and the fill count over the 255/256 (65535/65536) boundary
        unsigned run = std::min(room, 260u);
        eval("ring_putc", run, [&](CR &c) {
            int v0 = g_viols;
            for (unsigned i = 0; i < run && g_viols == v0; i++)
                op_putc(c, wstamp(i));
            if (g_viols == v0 && run == room)
                op_putc(c, 0xFF); // full now: must be rejected
        });
        eval("ring_move_head_one", run, [&](CR &c) {
            for (unsigned i = 0; i < run; i++)
                op_move_head(c, 1, true, wstamp(i));
        });
        break;
    }
    default:
    {
        unsigned run = std::min(avail, 260u);
        eval("ring_getc", run, [&](CR &c) {
            int v0 = g_viols;
            for (unsigned i = 0; i < run && g_viols == v0; i++)
                op_getc(c);
            if (g_viols == v0 && run == avail)
                op_getc(c); // empty now: must be rejected
        });
        eval("ring_move_tail_one", run, [&](CR &c) {
            for (unsigned i = 0; i < run; i++)
                op_move_tail(c, 1, true);
        });
        break;
    }
    }
    if (nt)
        mc::nontrivial();
    mc::more_cases(n - 1, nt ? nt - 1 : 0);
}

// ---- igris::ring<int>(n) with 256 / 257 / 258 / 301 (thorough: 65536 / 65537) slots
struct NB
{
    int n;
    unsigned pos;
};
static std::vector<NB> g_bigtyped;

static void big_typed_observe(TR<int> &t, const std::vector<unsigned> &B, const char *when, bool full_index_range = false)
{
    if (t.dead() || !t.counts(when))
        return;
    CTX("C03.typed_ring.observe.memory");
    igris::ring<int> &ring = t.ring;
    long sz = ring.size(), evals = 0, ntev = 0;
    unsigned head = ring.r.head;
    if (!t.live.empty())
    {
        if (!(ring.tail() == t.live.front()))
            VIOL(t.tn("tail.value"), "%s: tail() is %d, oldest element is %d; %s", when, ring.tail(), t.live.front(), t.str().c_str());
        if (!(ring.last() == t.live.back()))
            VIOL(t.tn(head == 0 ? "last.value.head_at_0" : "last.value"), "%s: last() is %d, newest element is %d; %s", when, ring.last(), t.live.back(), t.str().c_str());
    }
    long W = (long)t.window, P = (long)t.pushed.size();
    for (unsigned off : uniq({0, 1, 2, 254, 255, 256, 257, 65534, 65535, 65536, W - 2, W - 1, W}, 0, W))
        for (unsigned cnt : uniq({0, 1, 2, 255, 256, 257}, 0, W - off))
            for (int from_end = 0; from_end < 2; from_end++)
            {
                std::vector<int> got = ring.get_last((int)off, (int)cnt, from_end);
                bool ok = got.size() == cnt;
                for (unsigned i = 0; ok && i < cnt; i++)
                    ok = got[i] == (from_end ? t.pushed[P - 1 - off - i] : t.pushed[P - cnt - off + i]);
                evals++;
                ntev += (off + cnt >= 255);
                if (!ok)
                    VIOL(t.tn(head < off + cnt ? "get_last.value.wraps_below_0" : "get_last.value"),
                         "%s: get_last(offset=%u,count=%u,from_end=%d) does not address the %u..%u-th previous pushes; %s", when, off, cnt, from_end, off, off + cnt,
                         t.str().c_str());
            }
    std::vector<long> idx = {0, 1, 2, 127, 128, 255, 256, 257, 65535, 65536, sz - 1, sz, sz + 1, 2 * sz - 1, 2 * sz};
    for (size_t i = 0, e = idx.size(); i < e; i++)
        idx.push_back(-idx[i]);
    if (full_index_range && sz <= 400) // does not depend on the head position: once per case
        for (long i = -2 * sz; i <= 2 * sz; i++)
            idx.push_back(i);
    for (long i : idx)
    {
        int got = ring.fixup_index((int)i), want = pmod(i, sz);
        evals++;
        ntev += (i <= -255 || i >= 255);
        if (got != want)
            VIOL(t.tn(i < 0 ? "fixup_index.negative" : "fixup_index.nonnegative"), "%s: fixup_index(%ld) on a ring of %ld slots = %d, want %d", when, i, sz, got, want);
    }
    for (unsigned a : B)
        for (unsigned b : B)
        {
            int got = ring.distance((int)a, (int)b), want = pmod((long)a - (long)b, sz);
            evals++;
            ntev += (a >= 255 || b >= 255);
            if (got != want)
                VIOL(t.tn("distance.value"), "%s: distance(%u,%u) on a ring of %ld slots = %d, want %d", when, a, b, sz, got, want);
        }
    mc::more_cases(evals, ntev);
    mc::outcome(mc::fmt("bigtyped head=%u avail=%zu", head, t.live.size()));
    CTX("C03.harness");
}

static void big_typed_case()
{
    int ci = mc::choose((int)g_bigtyped.size());
    int path = mc::choose(3);
    int n = g_bigtyped[ci].n;
    unsigned hb = g_bigtyped[ci].pos, sz = (unsigned)n + 1;
    SigClass sc(sz);
    mc::describe("igris::ring<int>(%d) built as %s: head rotated to slot %u, then %d pushes through a full ring; accessors at every boundary position", n, TPATH[path], hb, 2 * n + 3);
    mc::nontrivial();
    std::vector<unsigned> B = boundary_positions(sz);
    auto at_boundary = [&](unsigned p) { return std::binary_search(B.begin(), B.end(), p); };
    {
        TR<int> t(n, path);
        CTX("C03.typed_ring.push.memory");
        for (unsigned i = 0; i < hb; i++)
        {
            t.push(i & 1);
            t.pop();
        }
        big_typed_observe(t, B, "empty ring, head rotated", true);
        for (int step = 0; step < 2 * n + 3 && !t.dead(); step++)
        {
            bool popped = (int)t.live.size() == n;
            if (popped)
                t.pop();
            t.push(step & 1);
            if (at_boundary(t.ring.r.head) || (popped && at_boundary(t.ring.r.tail)))
                big_typed_observe(t, B, "while pushing through a full ring");
        }
        t.fill_and_drain("fill and drain");
    }
    // stamp every slot, make slot idx the newest: last()/get_last address backwards from it
    for (unsigned idx : B)
    {
        TR<int> t(n, path);
        for (unsigned i = 0; i < sz; i++)
            t.ring.get((int)i) = 1000 + (int)i;
        CTX("C03.typed_ring.set_last_index.memory");
        t.ring.set_last_index((int)idx);
        if (!t.idx_ok())
            continue;
        if (t.ring.head_index() != (int)((idx + 1) % sz))
            VIOL("C03.typed_ring.set_last_index.head", "set_last_index(%u) on %u slots: head_index()=%d, want %u", idx, sz, t.ring.head_index(), (idx + 1) % sz);
        if (t.ring.index_of(&t.ring.last()) != (int)idx)
            VIOL(idx == sz - 1 ? "C03.typed_ring.last.slot.head_at_0" : "C03.typed_ring.last.slot", "after set_last_index(%u) on %u slots last() is slot %d", idx, sz,
                 t.ring.index_of(&t.ring.last()));
        long evals = 0;
        for (unsigned off : uniq({0, 1, 2, 254, 255, 256, 257, 65535, 65536, (long)sz - 2, (long)sz - 1}, 0, sz))
            for (unsigned cnt : uniq({0, 1, 2, 255, 256, 257}, 0, (long)sz - off))
                for (int from_end = 0; from_end < 2; from_end++)
                {
                    std::vector<int> got = t.ring.get_last((int)off, (int)cnt, from_end);
                    bool ok = got.size() == cnt;
                    for (unsigned i = 0; ok && i < cnt; i++)
                    {
                        long back = from_end ? off + i : off + cnt - 1 - i;
                        ok = got[i] == 1000 + pmod((long)idx - back, sz);
                    }
                    evals++;
                    if (!ok)
                        VIOL((long)((idx + 1) % sz) - (long)off - (long)cnt < 0 ? "C03.typed_ring.get_last.slot.wraps_below_0" : "C03.typed_ring.get_last.slot",
                             "after set_last_index(%u) on %u slots get_last(offset=%u,count=%u,from_end=%d) does not return the slots backwards from %u", idx, sz, off, cnt, from_end, idx);
                }
        mc::more_cases(evals, evals);
    }
}

// ---- cyclic_buffer<int>(n), n around 256 (thorough: around 65536)
static std::vector<int> g_bign; // 255 256 257 300 (+ 65535 65536 65537)

static void big_cyclic_case()
{
    int ch = mc::choose((int)g_bign.size() * 2);
    int n = g_bign[ch / 2], via_resize = ch % 2;
    SigClass sc((unsigned)n + 1); // the index that has to fit is n-1, the count n
    mc::describe("cyclic_buffer<int>(%d)%s, %d pushes, [i] at the boundary distances after every push", n, via_resize ? " obtained by resize" : "", 2 * n + 3);
    mc::nontrivial();
    CB<int> c(via_resize ? 3 : n);
    if (via_resize)
    {
        c.push();
        c.push();
        CTX("C03.cyclic_buffer.resize.memory");
        c.cb.resize(n);
        c.cap = n;
        c.hist.clear();
    }
    const igris::cyclic_buffer<int> &ccb = c.cb;
    long evals = 0;
    for (int j = 0; j < 2 * n + 3; j++)
    {
        c.push();
        CTX("C03.cyclic_buffer.observe.memory");
        long want = std::min<long>(c.hist.size(), n);
        if (c.cb.counter.counter < 0 || c.cb.counter.counter >= c.cb.counter.size || (size_t)c.cb.counter.size > c.cb.data.size())
        {
            VIOL("C03.cyclic_buffer.index_out_of_range", "after %zu pushes: counter=%d size=%d buffer slots=%zu", c.hist.size(), c.cb.counter.counter, c.cb.counter.size, c.cb.data.size());
            return;
        }
        if ((long)c.cb.size() != want)
        {
            VIOL("C03.cyclic_buffer.size", "size()=%zu after %zu pushes into %d slots, want %ld", c.cb.size(), c.hist.size(), n, want);
            return;
        }
        bool all = (j == n - 1 || j == n || j == 2 * n + 2) && n <= 400;
        std::vector<unsigned> I = uniq({0, 1, 2, 126, 127, 128, 129, 253, 254, 255, 256, 257, 258, 65534, 65535, 65536, 65537, want - 2, want - 1}, 0, want - 1);
        if (all)
        {
            I.clear();
            for (long i = 0; i < want; i++)
                I.push_back((unsigned)i);
        }
        for (unsigned i : I)
        {
            int a = c.cb[(int)i], b = ccb[(int)i], w = c.hist[c.hist.size() - 1 - i];
            evals++;
            if (a != w || b != w)
            {
                VIOL("C03.cyclic_buffer.index.value", "[%u] is %d (const: %d), the %u-th previous sample is %d (%zu pushes into %d slots, counter=%d)", i, a, b, i, w, c.hist.size(), n,
                     c.cb.counter.counter);
                return;
            }
        }
    }
    mc::more_cases(evals, evals);
    mc::outcome(mc::fmt("bigcyclic %d", c.cb.counter.counter));
    CTX("C03.harness");
}

// ---- ring_counter with size around 256 (thorough: around 65536)
static std::vector<SC> g_bigsc;
static void big_ring_counter_case()
{
    int ch = mc::choose((int)g_bigsc.size() * 5);
    int i = ch / 5, fn = ch % 5;
    int size = g_bigsc[i].size, cnt = g_bigsc[i].counter;
    static const char *const FN[] = {"prev", "last", "fixup_pos", "increment", "set"};
    SigClass sc((unsigned)size + 1); // the largest counter value is size-1
    mc::describe("ring_counter size=%d counter=%d: ring_counter_%s at the boundary arguments", size, cnt, FN[fn]);
    mc::nontrivial();
    struct ring_counter rc;
    ring_counter_init(&rc, size);
    long s = size;
    std::vector<long> args;
    for (unsigned a : uniq({0, 1, 2, 127, 128, 254, 255, 256, 257, s - 1, s, s + 1, 2 * s - 1, 2 * s, 2 * s + 1, 3 * s, cnt, cnt + 1L}, 0, 3 * s))
    {
        args.push_back(a);
        if ((fn == 1 || fn == 2) && a)
            args.push_back(-(long)a);
    }
    long n = 0;
    for (long a : args)
    {
        ring_counter_set(&rc, cnt);
        if (ring_counter_get(&rc) != cnt)
            VIOL("C03.ring_counter.set", "set(%d) size %d: counter=%d", cnt, size, ring_counter_get(&rc));
        long got, want;
        switch (fn)
        {
        case 0:
            got = ring_counter_prev(&rc, (int)a);
            want = pmod(cnt - a, size);
            break;
        case 1:
            got = ring_counter_last(&rc, (int)a);
            want = pmod(cnt - a, size);
            break;
        case 2:
            got = ring_counter_fixup_pos(&rc, (int)a);
            want = pmod(a, size);
            break;
        case 3:
            ring_counter_increment(&rc, (int)a);
            got = ring_counter_get(&rc);
            want = pmod(cnt + a, size);
            break;
        default:
            ring_counter_set(&rc, (int)a);
            got = ring_counter_get(&rc);
            want = pmod(a, size);
            break;
        }
        n++;
        if (got != want)
            VIOL(mc::fmt("C03.ring_counter.%s.value%s", FN[fn], a < 0 ? ".negative_arg" : ""), "ring_counter_%s(counter=%d,size=%d, %ld) = %ld, want %ld", FN[fn], cnt, size, a, got, want);
        if (fn < 3 && ring_counter_get(&rc) != cnt)
            VIOL(mc::fmt("C03.ring_counter.%s.modifies", FN[fn]), "ring_counter_%s changed the counter %d -> %d", FN[fn], cnt, ring_counter_get(&rc));
    }
    if (fn == 3)
    { // step once round the ring and on
        ring_counter_set(&rc, cnt);
        for (long j = 1; j <= 2 * s + 3; j++)
        {
            ring_counter_increment(&rc, 1);
            n++;
            if (ring_counter_get(&rc) != pmod(cnt + j, size))
            {
                VIOL("C03.ring_counter.increment.value", "ring_counter_increment(1) x %ld from counter=%d size=%d: counter=%d, want %d", j, cnt, size, ring_counter_get(&rc), pmod(cnt + j, size));
                break;
            }
        }
    }
    mc::outcome(mc::fmt("bigrc %d", ring_counter_get(&rc)));
    mc::more_cases(n - 1, n - 1);
}

// ======================================================================================================
// H. long histories: ONE object per case, >= 70000 (thorough 300000) operations, the reference comparison after every one.
//    The BFS merges states that look equal, so a hidden counter inside the object (a fill count, a generation, an index
//    narrowed to 8/16 bits) that only misbehaves after 256 / 65536 operations on the same object is reached only here.
// ======================================================================================================
static long long_steps() { return mc::thorough() ? 300000 : 70000; }
static const unsigned LONG_SIZES[] = {2, 3, 5, 8, 13, 250};

static void long_cring_case()
{
    int ch = mc::choose(6 * N_INIT);
    unsigned size = LONG_SIZES[ch / N_INIT];
    int path = ch % N_INIT;
    long N = long_steps();
    mc::describe("one C ring of %u slots (set up by %s), %ld operations, counts and content compared after every one", size, INIT_NAME[path], N);
    mc::nontrivial();
    CR c(size, path);
    if (!fresh_ok(c))
        return;
    g_quiet++;
    int v0 = g_viols;
    unsigned long bytes_in = 0, bytes_out = 0;
    unsigned op = 0;
    // at least N operations, and on until more than 65536 bytes went in and came out of this one ring
    for (long step = 0; (step < N || ((bytes_in <= 66000 || bytes_out <= 66000) && step < 40 * N)) && g_viols == v0; step++)
    {
        op = (op + 7) % 11; // stride coprime to the alphabet
        unsigned room = c.ref_room(), avail = (unsigned)c.ref.size();
        unsigned k = (unsigned)((step * 31 + step / 11) % (size + 2));
        size_t before = c.ref.size();
        switch (op)
        {
        case 0:
        case 8:
            op_putc(c, (uint8_t)(step * 37 + 11 + step / 256));
            break;
        case 1:
        case 9:
            op_getc(c);
            break;
        case 2:
        {
            std::vector<uint8_t> d(k);
            for (unsigned i = 0; i < k; i++)
                d[i] = (uint8_t)(0xFC + step + i * 3);
            op_write(c, d);
            break;
        }
        case 3:
            op_read(c, k);
            break;
        case 4:
            op_move_head(c, std::min(k, room), false, (uint8_t)(0xFE + step));
            break;
        case 5:
            op_move_tail(c, std::min(k, avail), false);
            break;
        case 6:
            if (room)
                op_move_head(c, 1, true, (uint8_t)(0xFF - step));
            break;
        case 7:
            if (avail)
                op_move_tail(c, 1, true);
            break;
        default:
            if (step % 9973 == 10)
                op_clean(c);
            else
                op_putc(c, 0xFF);
            break;
        }
        if (c.ref.size() > before)
            bytes_in += c.ref.size() - before;
        else
            bytes_out += before - c.ref.size();
        if (g_viols != v0)
            break;
        // after every operation: counters, flags, index range, and the content through ring_for_each
        if (!check_counts(c, "C03.long_history.cring.", "long history"))
            break;
        unsigned steps = 0;
        bool bad = false;
        ring_for_each(n, &c.r)
        {
            if (steps > c.size || n >= c.size || steps >= c.ref.size() || (uint8_t)c.buf[n] != c.ref[steps])
            {
                bad = true;
                break;
            }
            steps++;
        }
        if (bad || steps != c.ref.size())
        {
            VIOL("C03.long_history.cring.content", "after %ld operations on one ring: ring_for_each / content differs from the reference; %s", step + 1, c.str().c_str());
            break;
        }
        if (step % 97 == 0)
            verify(c, "long_history.cring"); // full read-back on copies
        if (step % 1024 == 0)
            mc::tick();
    }
    g_quiet--;
    if (g_viols != v0)
        mc::count("long_history_stopped_early");
    mc::more_cases(N - 1, N - 1);
    mc::outcome(mc::fmt("long cring in>65536:%d out>65536:%d", bytes_in > 65536, bytes_out > 65536));
    if (bytes_in <= 65536 || bytes_out <= 65536)
        mc::cap("long C-ring history moved fewer than 65536 bytes");
}

template <class T> static void long_typed_case()
{
    LifeScope<T> life("typed_ring");
    static const int NS[] = {1, 2, 3, 5, 8};
    int ch = mc::choose(5 * 3);
    int n = NS[ch / 3], path = ch % 3;
    long N = long_steps();
    if (std::is_same<T, Tracked>::value)
        N = N / 2 + 1000 > 70000 ? N / 2 + 1000 : 70000; // registry-backed element: still past 65536
    mc::describe("one igris::ring<%s>(%d) built as %s, %ld operations, counts and content compared after every one", V<T>::name(), n, TPATH[path], N);
    mc::nontrivial();
    TR<T> t(n, path);
    unsigned op = 0;
    long pushes = 0, pops = 0;
    // at least N operations, and on until this one ring has seen more than 65536 pushes
    for (long step = 0; (step < N || (t.stamp <= 66000 && step < 40 * N)) && !t.dead(); step++)
    {
        op = (op + 4) % 9;
        bool full = (int)t.live.size() >= t.bufsize, empty = t.live.empty();
        switch (op)
        {
        case 0:
        case 4:
            if (!full)
                t.push(0);
            else
                t.pop();
            break;
        case 1:
            if (!full)
                t.push(1); // emplace
            break;
        case 2:
        case 3:
            if (!empty)
                t.pop();
            else
                t.push(step & 1);
            break;
        case 5:
            if (!empty)
            {
                CTX("C03.typed_ring.move_tail_one.memory");
                t.ring.move_tail_one();
                t.live.pop_front();
                t.window = std::min(t.window, t.live.size());
            }
            break;
        case 6:
            if (!full)
            {
                T v = V<T>::mk(t.stamp++);
                CTX("C03.typed_ring.head_place.memory");
                t.ring.head_place() = v;
                t.ring.move_head_one();
                t.note_push(v);
            }
            break;
        case 7:
            if (step % 4999 == 7)
            {
                CTX("C03.typed_ring.clear.memory");
                t.ring.clear();
                t.live.clear();
                t.window = 0;
            }
            else if (!full)
                t.push(0);
            break;
        default:
            if (step % 20011 == 8)
            { // the same object set up again
                while (!t.live.empty())
                    t.pop();
                CTX("C03.typed_ring.resize.memory");
                if (step & 1)
                    t.ring.resize(n);
                else
                    t.ring.reset();
                t.window = 0;
            }
            else if (!empty)
                t.pop();
            break;
        }
        pushes = (long)t.pushed.size();
        if (t.dead())
            break;
        // after every operation: counters, oldest/newest element, the whole content newest-first, one index fix-up several laps away
        CTX("C03.typed_ring.observe.memory");
        if (!t.counts("long history"))
            break;
        size_t av = t.live.size();
        if (av)
        {
            if (!(t.ring.tail() == t.live.front()) || !(t.ring.last() == t.live.back()))
                VIOL("C03.long_history.typed_ring.tail_last", "after %ld operations on one ring: tail()/last() are not the oldest/newest element; %s", step + 1, t.str().c_str());
            std::vector<T> got = t.ring.get_last(0, (int)av, true);
            bool ok = got.size() == av;
            for (size_t i = 0; ok && i < av; i++)
                ok = got[i] == t.live[av - 1 - i];
            if (!ok)
                VIOL("C03.long_history.typed_ring.content", "after %ld operations on one ring: get_last(0,%zu,from_end) is not the content newest first; %s", step + 1, av, t.str().c_str());
        }
        {
            int sz = (int)t.ring.size();
            long i = (step % (20 * sz + 1)) - 10 * sz; // -10 .. +10 laps
            if (t.ring.fixup_index((int)i) != pmod(i, sz))
                VIOL(i < 0 ? "C03.typed_ring.fixup_index.negative" : "C03.typed_ring.fixup_index.nonnegative", "fixup_index(%ld) on %d slots = %d, want %d", i, sz, t.ring.fixup_index((int)i), pmod(i, sz));
        }
        if (step % 499 == 0)
            t.observe("long history"); // every accessor
        if (step % 1024 == 0)
            mc::tick();
        // the reference copies of long-gone pushes are not needed any more
        if (t.pushed.size() > 4096)
            t.pushed.erase(t.pushed.begin(), t.pushed.end() - 64);
        pops++;
    }
    (void)pushes;
    CTX("C03.typed_ring.fill_drain.memory");
    t.fill_and_drain("end of long history");
    mc::more_cases(N - 1, N - 1);
    mc::outcome(mc::fmt("long typed %d", t.stamp > 65536));
    if (!t.dead() && t.stamp <= 65536)
        mc::cap("long typed-ring history made fewer than 65536 pushes");
}

template <class T> static void long_cyclic_case()
{
    LifeScope<T> life("cyclic_buffer");
    static const int NS[] = {1, 2, 3, 8, 100};
    int ch = mc::choose(5 * 2);
    int n = NS[ch / 2], with_resize = ch % 2;
    long N = long_steps();
    mc::describe("one cyclic_buffer<%s>(%d), %ld pushes%s, size() and every [i] compared after every push", V<T>::name(), n, N, with_resize ? ", resize(n) every 40009 pushes" : "");
    mc::nontrivial();
    CB<T> c(n);
    const auto &ccb = c.cb;
    int v0 = g_viols;
    for (long step = 0; step < N && g_viols == v0; step++)
    {
        if (with_resize && step % 40009 == 40008)
        {
            CTX("C03.cyclic_buffer.resize.memory");
            c.cb.resize(n);
            c.hist.clear();
        }
        c.push(); // checks the evicted sample once full
        CTX("C03.cyclic_buffer.observe.memory");
        size_t want = std::min(c.hist.size(), c.cap);
        if (c.cb.counter.counter < 0 || c.cb.counter.counter >= c.cb.counter.size || (size_t)c.cb.counter.size > c.cb.data.size())
        {
            VIOL("C03.cyclic_buffer.index_out_of_range", "after %ld pushes on one buffer: counter=%d size=%d buffer slots=%zu", step + 1, c.cb.counter.counter, c.cb.counter.size, c.cb.data.size());
            break;
        }
        if (c.cb.size() != want)
        {
            VIOL("C03.long_history.cyclic_buffer.size", "after %ld pushes on one cyclic_buffer(%d): size()=%zu, want %zu", step + 1, n, c.cb.size(), want);
            break;
        }
        size_t lim = (n > 8 && (step % 64 || std::is_same<T, Tracked>::value)) ? 3 : want; // the large buffer: all samples every 64th push, the newest three otherwise
        for (size_t i = 0; i < lim && i < want; i++)
            if (!(c.cb[(int)i] == c.hist[c.hist.size() - 1 - i]) || !(ccb[(int)i] == c.hist[c.hist.size() - 1 - i]))
            {
                VIOL("C03.long_history.cyclic_buffer.index.value", "after %ld pushes on one cyclic_buffer(%d): [%zu] is not the %zu-th previous sample", step + 1, n, i, i);
                break;
            }
        if (c.hist.size() > 4096)
            c.hist.erase(c.hist.begin(), c.hist.end() - (long)c.cap - 8);
        if (step % 1024 == 0)
            mc::tick();
    }
    mc::more_cases(N - 1, N - 1);
    mc::outcome("long cyclic");
}

template <class T> static void long_uarray_case()
{
    LifeScope<T> life("unbounded_array");
    int start = mc::choose(4);
    long N = long_steps();
    if (std::is_same<T, Tracked>::value)
        N = 70000;
    mc::describe("one unbounded_array<%s>, %ld resize cycles (sizes 0..8), every element written and read back after every resize", V<T>::name(), N);
    mc::nontrivial();
    CTX("C03.unbounded_array.ctor.memory");
    igris::unbounded_array<T, typename AllocFor<T>::type> a(start);
    int v0 = g_viols;
    for (long step = 0; step < N && g_viols == v0 && !mc::case_has_violation(); step++)
    {
        int n = (int)((step * 5 + step / 9) % 9);
        CTX("C03.unbounded_array.resize.memory");
        if (step % 7 == 3)
            a.clear();
        else
            a.resize(n);
        int want = step % 7 == 3 ? 0 : n;
        if (a.size() != (size_t)want || a.end() - a.begin() != want)
        {
            VIOL("C03.long_history.unbounded_array.size", "after %ld resize cycles: size()=%zu, want %d", step + 1, a.size(), want);
            break;
        }
        for (int i = 0; i < want; i++)
            a[i] = V<T>::mk((int)(step + i));
        for (int i = 0; i < want; i++)
            if (!(a[i] == V<T>::mk((int)(step + i))))
            {
                VIOL("C03.long_history.unbounded_array.value", "after %ld resize cycles: element %d of %d differs", step + 1, i, want);
                break;
            }
        if (step % 1024 == 0)
            mc::tick();
    }
    CTX("C03.unbounded_array.dtor.memory");
    mc::more_cases(N - 1, N - 1);
    mc::outcome("long uarray");
}

static void long_ring_counter_case()
{
    static const int NS[] = {1, 2, 3, 7, 250, 257};
    int size = NS[mc::choose(6)];
    long N = long_steps();
    mc::describe("one ring_counter of size %d, %ld operations, every query with arguments up to 10 laps either way", size, N);
    mc::nontrivial();
    struct ring_counter rc;
    memset(&rc, 0x5A, sizeof rc);
    ring_counter_init(&rc, size);
    long ref = 0;
    int v0 = g_viols;
    for (long step = 0; step < N && g_viols == v0; step++)
    {
        long a = (step * 13 + step / 7) % (20L * size + 1) - 10L * size; // -10 .. +10 laps
        switch (step % 5)
        {
        case 0:
            ring_counter_increment(&rc, 1);
            ref = (ref + 1) % size;
            break;
        case 1:
            ring_counter_increment(&rc, (int)(a < 0 ? -a : a));
            ref = (ref + (a < 0 ? -a : a)) % size;
            break;
        case 2:
            if (step % 1009 == 2)
            {
                ring_counter_set(&rc, (int)(a < 0 ? -a : a));
                ref = (a < 0 ? -a : a) % size;
            }
            break;
        default:
            break;
        }
        if (ring_counter_get(&rc) != ref || rc.size != size)
        {
            VIOL("C03.long_history.ring_counter.counter", "after %ld operations on one ring_counter(%d): counter=%d size=%d, want %ld", step + 1, size, rc.counter, rc.size, ref);
            break;
        }
        long na = a < 0 ? -a : a;
        int p = ring_counter_prev(&rc, (int)na), l = ring_counter_last(&rc, (int)a), f = ring_counter_fixup_pos(&rc, (int)a);
        if (p != pmod(ref - na, size))
            VIOL("C03.ring_counter.prev.value", "ring_counter_prev(counter=%ld,size=%d, %ld) = %d, want %d", ref, size, na, p, pmod(ref - na, size));
        if (l != pmod(ref - a, size))
            VIOL(a < 0 ? "C03.ring_counter.last.value.negative_arg" : "C03.ring_counter.last.value", "ring_counter_last(counter=%ld,size=%d, %ld) = %d, want %d", ref, size, a, l, pmod(ref - a, size));
        if (f != pmod(a, size))
            VIOL(a < 0 ? "C03.ring_counter.fixup_pos.value.negative_arg" : "C03.ring_counter.fixup_pos.value", "ring_counter_fixup_pos(size=%d, %ld) = %d, want %d", size, a, f, pmod(a, size));
        if (ring_counter_get(&rc) != ref)
            VIOL("C03.ring_counter.query.modifies", "a query changed the counter %ld -> %d", ref, ring_counter_get(&rc));
        if (step % 1024 == 0)
            mc::tick();
    }
    mc::more_cases(N - 1, N - 1);
    mc::outcome("long rc");
}

// ======================================================================================================

static void register_all(bool thorough)
{
    unsigned maxsize = thorough ? 33 : 9;
    int tmax = thorough ? 17 : 9;
    for (unsigned s = 2; s <= maxsize; s++)
        for (unsigned h = 0; h < s; h++)
            for (unsigned t = 0; t < s; t++)
                g_states.push_back({s, h, t});
    for (int b = 1; b <= tmax; b++)
        for (int k = 0; k <= 2 * (b + 1); k++)
            g_bk.push_back({b, k});
    for (int s = 1; s <= tmax; s++)
        for (int k = 0; k <= 3 * s + 1; k++)
            g_sk.push_back({s, k});
    for (int s = 1; s <= tmax; s++)
        for (int c = 0; c < s; c++)
            g_sc.push_back({s, c});

    std::vector<unsigned> bigsizes = {127, 128, 255, 256, 257, 300, 1000};
    if (thorough)
        for (unsigned x : {32767u, 32768u, 65535u, 65536u, 65537u})
            bigsizes.push_back(x);
    for (unsigned s : bigsizes)
    {
        std::vector<unsigned> P = boundary_positions(s, s > 1000);
        for (unsigned h : P)
            for (unsigned t : P)
                g_bigstates.push_back({s, h, t});
    }
    g_bign = {255, 256, 257, 300};
    if (thorough)
        for (int x : {65535, 65536, 65537})
            g_bign.push_back(x);
    for (int n : g_bign)
    {
        if (n == 65537)
            continue; // ring<int>(65535/65536) = 65536/65537 slots is the boundary for the typed ring
        for (unsigned p : boundary_positions((unsigned)n + 1, n > 1000))
            g_bigtyped.push_back({n, p});
    }
    for (int n : g_bign)
        for (unsigned c : boundary_positions((unsigned)n, n > 1000))
            g_bigsc.push_back({n, (int)c});

    for (unsigned s = 2; s <= maxsize; s++)
        g_initsizes.push_back(s);
    for (unsigned s : bigsizes)
        g_initsizes.push_back(s);
    mc::add_check("cring_init_paths", init_paths_case);
    mc::add_check("long_history_cring", long_cring_case);
    mc::add_check("long_history_typed_ring_int", long_typed_case<int>);
    mc::add_check("long_history_typed_ring_tracked", long_typed_case<Tracked>);
    mc::add_check("long_history_cyclic_buffer_int", long_cyclic_case<int>);
    mc::add_check("long_history_cyclic_buffer_tracked", long_cyclic_case<Tracked>);
    mc::add_check("long_history_unbounded_array_int", long_uarray_case<int>);
    mc::add_check("long_history_unbounded_array_tracked", long_uarray_case<Tracked>);
    mc::add_check("long_history_ring_counter", long_ring_counter_case);
    mc::add_check("cring_every_state_every_op", cring_case);
    for (unsigned n = 2; n <= (thorough ? 6u : 5u); n++)
        mc::add_bfs(mc::fmt("cring_bfs_size%u", n), [n]() { return std::unique_ptr<mc::Model>(new CRingModel(n)); });
    mc::add_check("typed_ring_int", typed_case<int>);
    mc::add_check("typed_ring_elem", typed_case<Elem>);
    mc::add_check("typed_ring_char", typed_case<char>);
    mc::add_check("typed_ring_tracked", typed_case<Tracked>);
    mc::add_check("typed_ring_listelem", typed_case<ListElem>);
    mc::add_check("cyclic_buffer_int", cyclic_case<int>);
    mc::add_check("cyclic_buffer_elem", cyclic_case<Elem>);
    mc::add_check("cyclic_buffer_tracked", cyclic_case<Tracked>);
    mc::add_check("ring_counter", ring_counter_case);
    mc::add_check("large_cring", big_cring_case);
    mc::add_check("large_typed_ring_int", big_typed_case);
    mc::add_check("large_cyclic_buffer_int", big_cyclic_case);
    mc::add_check("large_ring_counter", big_ring_counter_case);
    mc::add_check("unbounded_array_int", uarray_case<int>);
    mc::add_check("unbounded_array_elem", uarray_case<Elem>);
    mc::add_check("unbounded_array_tracked", uarray_case<Tracked>);
}

// The set of universes depends on the tier, so registration happens here rather than in a static initialiser.
int main(int argc, char **argv)
{
    bool thorough = false;
    for (int i = 1; i + 1 < argc; i++)
        if (!strcmp(argv[i], "--tier"))
            thorough = !strcmp(argv[i + 1], "thorough");
    register_all(thorough);
    return mc::main_(argc, argv);
}
