// C14 — igris::static_vector<T,N> (static_vector.h) and igris::static_string<N> (static_string.h).
#include "c14_large.hpp"
#include "c14_static.hpp"
#include "c14_throw.hpp"
#include <igris/container/static_string.h>
#include <igris/container/static_vector.h>

namespace
{
    struct Traits
    {
        template <class T, size_t N> using vec = igris::static_vector<T, N>;
        template <size_t N> using str = igris::static_string<N>;
        static constexpr const char *name = "static";
        static constexpr bool has_erase = true, has_range_ctor = true, has_il = true;
        static constexpr bool has_ptr_len = false, has_clear = false, has_append = false, has_find_split = false, has_find = false;
    };
}
MC_INIT
{
    c14::register_all<Traits>();
    c14::register_large<Traits>();
    c14::register_throwing<Traits>();
}
MC_MAIN
