// c14_throw.hpp — element constructors that throw (tree shape). The k-th constructing Tracked constructor
// inside emplace_back / push_back / resize / copy assignment / range, initializer-list and copy construction
// throws. Afterwards, for an operation on an existing container: size() <= N, size() equals the number of live
// elements ([0,size) alive, nothing alive beyond, nothing outside the storage), the elements present before an
// append-like operation are intact, and destroying the container destroys exactly the live elements. For a
// constructor that threw there is no container: no element object may remain alive in its storage.
#pragma once
#include "c14_static.hpp"
#include "listlike.hpp"
#include "long_history.hpp"
#include <string>
#include <utility>

namespace c14
{
    template <class Tr, size_t N, class T = Tracked> struct ThrowCase
    {
        using Vec = typename Tr::template vec<T, N>;
        string variant;
        string family = "throwing";
        trk::Registry reg;
        bool bad(const string &op, const char *kind, const string &msg)
        {
            mc::violation(mc::fmt("C14.%s.%s.%s.%s", variant.c_str(), family.c_str(), op.c_str(), kind), "%s", msg.c_str());
            return false;
        }
        bool consistent(const string &op, Block<Vec> &b, const std::vector<int> *prefix)
        {
            Vec &v = *b;
            if (!b.canaries_ok())
                return bad(op, "write_outside_object", "the guard bytes around the object were overwritten");
            if (v.size() > N)
                return bad(op, "size_exceeds_capacity", mc::fmt("size()=%zu with N=%zu after the exception", (size_t)v.size(), N));
            uintptr_t d = (uintptr_t)v.data(), lo = (uintptr_t)b.mem, hi = lo + b.size();
            for (auto it = reg.st.lower_bound(lo); it != reg.st.end() && it->first < hi; ++it)
            {
                long off = (long)it->first - (long)d;
                bool slot = off >= 0 && off % (long)sizeof(T) == 0 && (size_t)(off / (long)sizeof(T)) < N;
                if (!slot && it->second != trk::RAW)
                    return bad(op, "element_outside_storage", mc::fmt("an element was constructed at byte offset %ld from data()", off));
                if (slot && (size_t)(off / (long)sizeof(T)) >= v.size() && trk::Registry::live(it->second))
                    return bad(op, "live_object_beyond_size", mc::fmt("after the exception size()=%zu but slot %ld holds an %s object", (size_t)v.size(), off / (long)sizeof(T), trk::stname(it->second)));
            }
            for (size_t k = 0; k < v.size(); k++)
            {
                trk::St s = reg.state((const char *)d + k * sizeof(T));
                if (!trk::Registry::live(s))
                    return bad(op, "size_counts_unconstructed_element", mc::fmt("after the exception size()=%zu but element %zu is %s", (size_t)v.size(), k, trk::stname(s)));
            }
            if (prefix)
            {
                if (v.size() < prefix->size())
                    return bad(op, "elements_lost", mc::fmt("size()=%zu after the exception, the %zu elements present before must survive", (size_t)v.size(), prefix->size()));
                for (size_t k = 0; k < prefix->size(); k++)
                    if (value_of(v[k]) != (*prefix)[k])
                        return bad(op, "contents", mc::fmt("element %zu is %d after the exception, it was %d", k, value_of(v[k]), (*prefix)[k]));
            }
            return true;
        }
        template <size_t... I> static void construct_il(void *at, const std::vector<int> &v, int k, std::index_sequence<I...>)
        {
            std::initializer_list<T> il = {T(v[I])...}; // the list itself is built before the countdown starts
            trk::arm_throw(k);
            new (at) Vec(il);
        }
        // ops: 0 emplace_back(int) 1 push_back(const&) 2 push_back(std::move) 3 resize(a) 4 copy assignment from a elements
        //      5 copy construction from a elements 6 pointer-range construction from a elements
        //      7 input-iterator-range construction 8 initializer-list construction
        //      9 move construction from a elements 10 move assignment from a elements (the element's move constructor throws)
        void run(int op, int s, int a, int k)
        {
            static const char *on[] = {"emplace_back", "push_back", "push_back_moved", "resize", "copy_assign", "copy_ctor", "ctor_range_pointer", "ctor_range_input_iterator",
                                       "ctor_initlist", "move_ctor", "move_assign"};
            string o = on[op];
            reg.prop = "C14";
            trk::Use u(reg);
            reg.begin_op(variant + ".throwing." + o);
            mc::crash_context("C14.%s.throwing.%s.crash", variant.c_str(), o.c_str());
            Block<Vec> X, Y;
            reg.zone_add(X.mem, X.size(), 0, 0, false);
            reg.zone_add(Y.mem, Y.size(), 0, 0, false);
            std::vector<int> mx, my, arg;
            new (Y.ptr()) Vec();
            for (int i = 0; i < a; i++)
            {
                arg.push_back(10 + i);
                if (i < (int)N)
                {
                    Y->emplace_back(10 + i);
                    my.push_back(10 + i);
                }
            }
            bool existing = op <= 4 || op == 10;
            const bool moves = op == 9 || op == 10;
            trk::throw_on_moves() = moves;
            if (existing)
            {
                new (X.ptr()) Vec();
                for (int i = 0; i < s; i++)
                {
                    X->emplace_back(i + 1);
                    mx.push_back(i + 1);
                }
            }
            bool threw = false;
            {
                T t(7);
                std::vector<T> src;
                src.reserve(arg.size() + 1);
                for (int v : arg)
                    src.emplace_back(v);
                src.emplace_back(9);
                sp::Source ssrc;
                ssrc.values = arg;
                try
                {
                    switch (op)
                    {
                    case 0:
                        trk::arm_throw(k);
                        X->emplace_back(7);
                        break;
                    case 1:
                        trk::arm_throw(k);
                        X->push_back(t);
                        break;
                    case 2:
                        trk::arm_throw(k);
                        X->push_back(std::move(t));
                        break;
                    case 3:
                        trk::arm_throw(k);
                        X->resize(a);
                        break;
                    case 4:
                        trk::arm_throw(k);
                        *X = *Y;
                        break;
                    case 5:
                        trk::arm_throw(k);
                        new (X.ptr()) Vec(*Y);
                        break;
                    case 9:
                        trk::arm_throw(k);
                        new (X.ptr()) Vec(std::move(*Y));
                        break;
                    case 10:
                        trk::arm_throw(k);
                        *X = std::move(*Y);
                        break;
                    case 6:
                        if constexpr (Tr::has_range_ctor)
                        {
                            trk::arm_throw(k);
                            new (X.ptr()) Vec((const T *)src.data(), (const T *)src.data() + arg.size());
                        }
                        break;
                    case 7:
                        if constexpr (Tr::has_range_ctor)
                        {
                            // operator* of the iterator builds a temporary (one construction), the container copies
                            // it (another one): only the even constructions are the container's own
                            sp::InputIt<T> first, last;
                            first.src = &ssrc;
                            trk::arm_throw(2 * k);
                            new (X.ptr()) Vec(first, last);
                        }
                        break;
                    case 8:
                        if constexpr (Tr::has_il)
                        {
                            switch (arg.size())
                            {
                            case 1:
                                construct_il(X.ptr(), arg, k, std::make_index_sequence<1>());
                                break;
                            case 2:
                                construct_il(X.ptr(), arg, k, std::make_index_sequence<2>());
                                break;
                            case 3:
                                construct_il(X.ptr(), arg, k, std::make_index_sequence<3>());
                                break;
                            case 4:
                                construct_il(X.ptr(), arg, k, std::make_index_sequence<4>());
                                break;
                            case 5:
                                construct_il(X.ptr(), arg, k, std::make_index_sequence<5>());
                                break;
                            case 6:
                                construct_il(X.ptr(), arg, k, std::make_index_sequence<6>());
                                break;
                            default:
                                break;
                            }
                        }
                        break;
                    }
                    if (!existing)
                        X.constructed = true;
                }
                catch (const trk::Boom &)
                {
                    threw = true;
                }
                trk::disarm_throw();
                trk::throw_on_moves() = false;
            }
            reg.begin_op(variant + ".throwing." + o + ".cleanup");
            if (!threw)
            {
                mc::count("no_exception_delivered"); // fewer than k constructions in this operation
                if (existing || X.constructed)
                    X->~Vec();
                Y->~Vec();
                reg.mute = true;
                return;
            }
            mc::nontrivial();
            if (existing)
            {
                if (!consistent(o, X, (op == 4 || op == 10) ? nullptr : &mx))
                    return;
                X->~Vec();
            }
            if (reg.live_in((uintptr_t)X.mem, X.size()))
                return (void)bad(o, existing ? "elements_left_alive" : "elements_left_alive_after_failed_construction",
                    mc::fmt("%ld element object(s) alive in the storage %s", reg.live_in((uintptr_t)X.mem, X.size()),
                            existing ? "after the destructor" : "of a container whose constructor threw (there is no destructor to run)"));
            // the source of a copy is untouched; the source of a move may hold moved-from elements, but every one of
            // the size() elements it reports must still be a constructed object
            if (!consistent(o, Y, moves ? nullptr : &my))
                return;
            Y->~Vec();
            if (reg.live_total())
                bad(o, "elements_left_alive", mc::fmt("%ld element object(s) alive after everything was destroyed", reg.live_total()));
            reg.mute = true;
            mc::outcome(mc::fmt("%s/%d", on[op], k));
        }
    };

    template <class Tr, size_t N> void throwing_case(const string &variant, int c)
    {
        // (op 0..8, prefill s 0..N, argument a 0..2N(<=6), k 1..N+1)
        const int K = (int)N + 1, A = 2 * (int)N + 1, S = (int)N + 1;
        int k = 1 + c % K, a = c / K % A, s = c / K / A % S, op = c / K / A / S;
        if (op >= 11)
            throw mc::Skip();
        mc::describe("%s N=%zu: op %d on size %d with argument %d, the %d-th element construction throws", variant.c_str(), N, op, s, a, k);
        bool uses_a = op >= 3, uses_s = op <= 4 || op == 10;
        if ((!uses_a && a) || (!uses_s && s))
            throw mc::Skip();
        if ((op == 6 || op == 7) && !Tr::has_range_ctor)
            throw mc::Skip();
        if (op == 8 && (!Tr::has_il || a == 0 || a > 6))
            throw mc::Skip();
        ThrowCase<Tr, N> tc;
        tc.variant = variant;
        tc.run(op, s, a, k);
    }
    // ------------------------------------------------------------------ emplace_back with several arguments
    // emplace_back(args...) must construct T(args...). With an element type that also has an initializer_list
    // constructor (std::string, vector-like types) T{args...} is a different object.
    template <class Tr> void emplace_multiarg_body(const string &variant)
    {
        int c = mc::choose(4 * 3 * 3);
        int count = c % 4, v = 5 + c / 4 % 3, pre = c / 12;
        mc::describe("%s: emplace_back(%d, %d) / emplace_back(%d, 'x') after %d element(s)", variant.c_str(), count, v, count, pre);
        mc::nontrivial();
        mc::crash_context("C14.%s.emplace_back_multiarg.crash", variant.c_str());
        {
            typename Tr::template vec<ll::ListLike, 3> sv;
            for (int i = 0; i < pre; i++)
                sv.emplace_back(1, i);
            sv.emplace_back(count, v);
            ll::ListLike want(count, v);
            if (sv.size() != (size_t)pre + 1 || !(sv[pre] == want))
            {
                mc::violation(mc::fmt("C14.%s.emplace_back_multiarg.contents", variant.c_str()), "emplace_back(%d, %d) stored %s, T(%d, %d) is %s", count, v,
                              sv.size() > (size_t)pre ? sv[pre].str().c_str() : "nothing", count, v, want.str().c_str());
                return;
            }
        }
        {
            typename Tr::template vec<std::string, 3> sv;
            for (int i = 0; i < pre; i++)
                sv.emplace_back("p");
            sv.emplace_back((size_t)count, 'x');
            std::string want((size_t)count, 'x');
            if (sv.size() != (size_t)pre + 1 || sv[pre] != want)
            {
                mc::violation(mc::fmt("C14.%s.emplace_back_multiarg.contents", variant.c_str()), "emplace_back(%d, 'x') on a static_vector<std::string> stored a string of length %zu, std::string(%d, 'x') has %zu", count,
                              sv.size() > (size_t)pre ? sv[pre].size() : (size_t)0, count, want.size());
                return;
            }
        }
        mc::outcome(mc::fmt("%d", count));
    }

    // ------------------------------------------------------------------ unusual but legal element types
    // E = trk::Amp (overloaded unary operator&) or trk::MoveOnly, N = 3: n elements through emplace_back, then
    // one operation; size / contents / lifetime as everywhere else, destruction must balance.
    template <class Tr, class E, bool Copyable> void unusual_element_body(const string &variant)
    {
        constexpr size_t N = 3;
        using Vec = typename Tr::template vec<E, N>;
        const int NOPS = 11;
        int c = mc::choose(4 * NOPS);
        int n = c / NOPS, op = c % NOPS;
        static const char *on[] = {"none", "erase_range", "resize_longer", "resize_shorter", "clear", "move_ctor", "move_assign", "copy_ctor", "copy_assign", "push_back", "emplace_back_full"};
        mc::describe("%s: %d elements through emplace_back, then %s", variant.c_str(), n, on[op]);
        if (!Copyable && op >= 7 && op <= 9)
            throw mc::Skip();
        if (op == 1 && !Tr::has_erase)
            throw mc::Skip();
        mc::nontrivial();
        ThrowCase<Tr, N, E> tc;
        tc.variant = variant;
        tc.family = "elements";
        tc.reg.prop = "C14";
        trk::Use u(tc.reg);
        string o = "emplace_back";
        auto ctx = [&](const string &op) {
            tc.reg.begin_op(variant + ".elements." + op);
            mc::crash_context("C14.%s.elements.%s.crash", variant.c_str(), op.c_str());
        };
        ctx(o);
        Block<Vec> X, Y;
        tc.reg.zone_add(X.mem, X.size(), 0, 0, false);
        tc.reg.zone_add(Y.mem, Y.size(), 0, 0, false);
        new (X.ptr()) Vec();
        bool has_y = false;
        std::vector<int> mx, my;
        for (int i = 0; i < n; i++)
        {
            X->emplace_back(i + 1);
            mx.push_back(i + 1);
        }
        auto sized = [&](const string &op, Block<Vec> &b, const std::vector<int> &m) {
            if ((size_t)b->size() != m.size())
                return tc.bad(op, "size", mc::fmt("size()=%zu, reference has %zu elements", (size_t)b->size(), m.size()));
            return tc.consistent(op, b, &m);
        };
        if (!sized(o, X, mx))
            return;
        size_t mid = mx.size() / 2;
        ctx(o = on[op]);
        switch (op)
        {
        case 1:
            if constexpr (Tr::has_erase)
            {
                X->erase(X->begin(), X->begin() + mid);
                mx.erase(mx.begin(), mx.begin() + mid);
            }
            break;
        case 2:
            X->resize(N);
            mx.resize(N);
            break;
        case 3:
            X->resize(n / 2);
            mx.resize(n / 2);
            break;
        case 4:
            X->clear();
            mx.clear();
            break;
        case 5:
            new (Y.ptr()) Vec(std::move(*X));
            has_y = true;
            my = mx;
            mx.assign(X->size() <= mx.size() ? X->size() : mx.size(), UNSPEC);
            break;
        case 6:
            new (Y.ptr()) Vec();
            has_y = true;
            Y->emplace_back(5);
            *Y = std::move(*X);
            my = mx;
            mx.assign(X->size() <= mx.size() ? X->size() : mx.size(), UNSPEC);
            break;
        case 7:
            if constexpr (Copyable)
            {
                new (Y.ptr()) Vec(*X);
                has_y = true;
                my = mx;
            }
            break;
        case 8:
            if constexpr (Copyable)
            {
                new (Y.ptr()) Vec();
                has_y = true;
                Y->emplace_back(5);
                *Y = *X;
                my = mx;
            }
            break;
        case 9:
            if constexpr (Copyable)
            {
                E e(8);
                X->push_back(e);
                if (mx.size() < N)
                    mx.push_back(8);
            }
            break;
        case 10:
            for (int i = 0; i < 5; i++)
            {
                X->emplace_back(20 + i);
                if (mx.size() < N)
                    mx.push_back(20 + i);
            }
            break;
        }
        // moved-from sources: values unspecified, but every counted element must be an object
        bool moved = op == 5 || op == 6;
        if (moved ? !tc.consistent(o, X, nullptr) : !sized(o, X, mx))
            return;
        if (has_y && !sized(o, Y, my))
            return;
        ctx(o = "destructor");
        X->~Vec();
        if (has_y)
            Y->~Vec();
        if (tc.reg.live_total())
            tc.bad(o, "elements_left_alive", mc::fmt("%ld element object(s) alive after the containers were destroyed", tc.reg.live_total()));
        tc.reg.mute = true;
        mc::outcome(mc::fmt("%d/%d", n, op));
    }

    // ------------------------------------------------------------------ ranges of a different, convertible element type
    // static_vector<To,N>(const From*, const From*): every element is CONVERTED (To(*it)), the source is an
    // exactly-sized heap block (reading it as an array of To is an ASan report).
    template <class Vec, class To, class From, size_t N> bool converting_case(const string &variant, const char *what, size_t len)
    {
        From *src = (From *)malloc(len * sizeof(From) + (len ? 0 : 1));
        std::vector<To> want;
        for (size_t i = 0; i < len; i++)
        {
            src[i] = (From)(i % 2 ? 200 - (int)i : 3 + (int)i * 37);
            if (i < N)
                want.push_back((To)src[i]);
        }
        mc::crash_context("C14.%s.ctor_range_converting.%s.crash", variant.c_str(), what);
        bool ok = true;
        {
            Vec v((const From *)src, (const From *)src + len);
            if (v.size() != want.size())
                ok = false;
            for (size_t i = 0; ok && i < want.size(); i++)
                if (!(v[i] == want[i]))
                    ok = false;
            if (!ok)
                mc::violation(mc::fmt("C14.%s.ctor_range_converting.contents", variant.c_str()), "static_vector<N=%zu> from a range of %zu %s: size %zu (expected %zu) or elements differ from the converted source values",
                              N, len, what, (size_t)v.size(), want.size());
        }
        free(src);
        return ok;
    }
    template <class Tr, size_t N> void converting_n(const string &variant, int pair, size_t len)
    {
        if constexpr (Tr::has_range_ctor)
        {
            switch (pair)
            {
            case 0:
                converting_case<typename Tr::template vec<double, N>, double, int, N>(variant, "int_to_double", len);
                break;
            case 1:
                converting_case<typename Tr::template vec<long, N>, long, short, N>(variant, "short_to_long", len);
                break;
            case 2:
                converting_case<typename Tr::template vec<int, N>, int, unsigned char, N>(variant, "uchar_to_int", len);
                break;
            case 3:
                converting_case<typename Tr::template vec<float, N>, float, double, N>(variant, "double_to_float", len);
                break;
            default:
                converting_case<typename Tr::template vec<unsigned char, N>, unsigned char, unsigned char, N>(variant, "same_type", len);
                break;
            }
        }
    }
    template <class Tr> void converting_range_body(const string &variant)
    {
        int c = mc::choose(3 * 5 * 7);
        int ni = c / 35, pair = c / 7 % 5;
        size_t len = c % 7;
        mc::describe("%s: N=%d, pointer range of %zu elements of another type (pair %d)", variant.c_str(), ni + 1, len, pair);
        if (len > (size_t)(2 * (ni + 1)))
            throw mc::Skip();
        mc::nontrivial();
        switch (ni)
        {
        case 0:
            converting_n<Tr, 1>(variant, pair, len);
            break;
        case 1:
            converting_n<Tr, 2>(variant, pair, len);
            break;
        default:
            converting_n<Tr, 3>(variant, pair, len);
            break;
        }
        mc::outcome(mc::fmt("%d/%zu", pair, len));
    }

    // ------------------------------------------------------------------ long histories on the same objects
    template <class Tr> void long_history_body(const string &name)
    {
        int c = mc::choose(5 * 3);
        static const int seeds[3] = {1, 5, 11};
        int steps = mc::thorough() ? 300000 : 70000, u = c / 3, seed = seeds[c % 3];
        mc::describe("%s: universe %d, stride seed %d, %d operations on the same two objects", name.c_str(), u, seed, steps);
        mc::nontrivial();
        switch (u)
        {
        case 0:
        {
            SVModel<Tr, Tracked, 3> m(name + "_vector_tracked");
            lh::long_history(m, "C14." + name + "_vector_tracked", steps, seed);
            break;
        }
        case 1:
        {
            SVModel<Tr, int, 3> m(name + "_vector_int");
            lh::long_history(m, "C14." + name + "_vector_int", steps, seed);
            break;
        }
        case 2:
        {
            SVModel<Tr, Tracked, 2> m(name + "_vector_tracked");
            lh::long_history(m, "C14." + name + "_vector_tracked", steps, seed);
            break;
        }
        case 3:
        {
            SVModel<Tr, Tracked, 1> m(name + "_vector_tracked");
            lh::long_history(m, "C14." + name + "_vector_tracked", steps, seed);
            break;
        }
        default:
        {
            SSModel<Tr, 3> m(name + "_string");
            lh::long_history(m, "C14." + name + "_string", steps, seed);
            break;
        }
        }
    }

    template <class Tr> void register_throwing()
    {
        string n = Tr::name;
        mc::add_check(n + "_vector_address_of_overloaded", [n] { unusual_element_body<Tr, trk::Amp, true>(n + "_vector_address_of_overloaded"); });
        mc::add_check(n + "_vector_move_only", [n] { unusual_element_body<Tr, trk::MoveOnly, false>(n + "_vector_move_only"); });
        mc::add_check(n + "_long_history", [n] { long_history_body<Tr>(n); });
        if (Tr::has_range_ctor)
            mc::add_check(n + "_vector_converting_range", [n] { converting_range_body<Tr>(n + "_vector"); });
        mc::add_check(n + "_vector_emplace_multiarg", [n] { emplace_multiarg_body<Tr>(n + "_vector"); });
        mc::add_check(n + "_vector_throwing_elements", [n] {
            // the first choice combines N with everything else: wide enough to shard
            int c = mc::choose(3 * 11 * 4 * 7 * 4);
            int ni = c / (11 * 4 * 7 * 4), r = c % (11 * 4 * 7 * 4);
            // decode r with the largest radices (N = 3); smaller N skip what does not exist for them
            int k = r % 4, a = r / 4 % 7, s = r / 28 % 4, op = r / 112;
            switch (ni)
            {
            case 0:
                if (k >= 2 || a >= 3 || s >= 2)
                    throw mc::Skip();
                throwing_case<Tr, 1>(n + "_vector_tracked", ((op * 2 + s) * 3 + a) * 2 + k);
                break;
            case 1:
                if (k >= 3 || a >= 5 || s >= 3)
                    throw mc::Skip();
                throwing_case<Tr, 2>(n + "_vector_tracked", ((op * 3 + s) * 5 + a) * 3 + k);
                break;
            default:
                throwing_case<Tr, 3>(n + "_vector_tracked", ((op * 4 + s) * 7 + a) * 4 + k);
                break;
            }
        });
    }
}
