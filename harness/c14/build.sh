#!/bin/bash
set -e
. $MC/par.sh
H=$VERIF/harness/c14
TT=0; [ "$TIER" = thorough ] && TT=1
CF="-DTIER_THOROUGH=$TT -std=c++20 -O2 -g -fsanitize=address -fno-omit-frame-pointer -I$REPO -I$MC -I$H -I$VERIF/harness/c02"
par g++ -c $CF $H/c14_main.cpp -o $BUILD/main.o
par g++ -c $CF $H/c14_twin.cpp -o $BUILD/twin.o
# second build of the same TUs: the other compiler (argument evaluation order, folding) at -O2 and with
# -DNDEBUG (an assert that carries a side effect vanishes); it re-runs a representative selection
CFC="-DTIER_THOROUGH=$TT -DNDEBUG -std=c++20 -O2 -g1 -fsanitize=address -fno-omit-frame-pointer -I$REPO -I$MC -I$H -I$VERIF/harness/c02"
par clang++ -c $CFC $H/c14_main.cpp -o $BUILD/main_clang.o
par clang++ -c $CFC $H/c14_twin.cpp -o $BUILD/twin_clang.o
par g++ -std=c++20 -O2 -c -I$MC $MC/mc.cpp -o $BUILD/mc.o
parwait
par clang++ -fsanitize=address $BUILD/main_clang.o $BUILD/mc.o -o $BUILD/c14_main_clang
par clang++ -fsanitize=address $BUILD/twin_clang.o $BUILD/mc.o -o $BUILD/c14_twin_clang
par g++ -fsanitize=address $BUILD/main.o $BUILD/mc.o -o $BUILD/c14_main
par g++ -fsanitize=address $BUILD/twin.o $BUILD/mc.o -o $BUILD/c14_twin
parwait
{
echo "main $BUILD/c14_main"
echo "twin $BUILD/c14_twin"
SEL="long_history,converting,vector_tracked_N,vector_int_N2,string_N2,_large,throwing,multiarg,overloaded,move_only"
echo "main_clang_ndebug $BUILD/c14_main_clang --only $SEL"
echo "twin_clang_ndebug $BUILD/c14_twin_clang --only $SEL"
} > $BUILD/runs.txt
