#!/bin/bash
set -e
. $MC/par.sh
H=$VERIF/harness/c14
TT=0; [ "$TIER" = thorough ] && TT=1
CF="-DTIER_THOROUGH=$TT -std=c++17 -O2 -g -fsanitize=address -fno-omit-frame-pointer -I$REPO -I$MC -I$H -I$VERIF/harness/c02"
par g++ -c $CF $H/c14_main.cpp -o $BUILD/main.o
par g++ -c $CF $H/c14_twin.cpp -o $BUILD/twin.o
par g++ -std=c++17 -O2 -c -I$MC $MC/mc.cpp -o $BUILD/mc.o
parwait
par g++ -fsanitize=address $BUILD/main.o $BUILD/mc.o -o $BUILD/c14_main
par g++ -fsanitize=address $BUILD/twin.o $BUILD/mc.o -o $BUILD/c14_twin
parwait
{
echo "main $BUILD/c14_main"
echo "twin $BUILD/c14_twin"
} > $BUILD/runs.txt
