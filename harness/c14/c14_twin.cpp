// C14 — the std_portable.h twins of static_vector / static_string (own executable: same class names).
#include "c14_large.hpp"
#include "c14_static.hpp"
#include "c14_throw.hpp"
#include <igris/container/std_portable.h>

namespace
{
    struct Traits
    {
        template <class T, size_t N> using vec = igris::static_vector<T, N>;
        template <size_t N> using str = igris::static_string<N>;
        static constexpr const char *name = "portable_static";
        static constexpr bool has_erase = false, has_range_ctor = false, has_il = false;
        static constexpr bool has_ptr_len = true, has_clear = true, has_append = true, has_find_split = true, has_find = false; // find() const calls the non-const data(): cannot be instantiated
    };
}
MC_INIT
{
    c14::register_all<Traits>();
    c14::register_large<Traits>();
    c14::register_throwing<Traits>();
}
MC_MAIN
