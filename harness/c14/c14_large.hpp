// c14_large.hpp — tree-shape sub-checks for LARGE capacities (the statement says "for all N >= 1"; the BFS
// universes stop at N = 4). N in {127,128,255,256,257,300}: the places where a narrow size field, a signed
// char index or a length computed modulo 256 would show. One case = (N, argument length, construction path,
// push path); inside the case the container is filled one element at a time past its capacity, resized across
// 255/256, copied, assigned, moved, cleared and destroyed, with the oracles of the BFS after every step:
// size <= N, exact prefix of the reference, guard bytes intact, storage inside the object, lifetime balance.
#pragma once
#include "c14_static.hpp"

namespace c14
{
    static const size_t LARGE_N[] = {127, 128, 255, 256, 257, 300};
    static const int N_LARGE = 6;
    static const int N_LENS = 9;
    inline size_t large_len(size_t N, int i) // {0,1,N-1,N,N+1,255,256,257,2N}
    {
        const size_t l[N_LENS] = {0, 1, N - 1, N, N + 1, 255, 256, 257, 2 * N};
        return l[i];
    }
    inline char chr(size_t i) { return (char)('a' + i % 23); } // position dependent: a shifted prefix is visible
    inline int val(size_t i) { return (int)(i % 7); }

    inline void lbad(const string &variant, const string &op, const char *kind, const string &msg)
    {
        mc::violation(mc::fmt("C14.%s.large.%s.%s", variant.c_str(), op.c_str(), kind), "%s", msg.c_str());
    }

    // ------------------------------------------------------------------------------------------ strings
    template <class Str, size_t N> bool check_str(const string &variant, const string &op, Block<Str> &b, const string &r)
    {
        Str &s = *b;
        const Str &cs = s;
        if (!b.canaries_ok())
        {
            lbad(variant, op, "write_outside_object", mc::fmt("N=%zu: the guard bytes around the object were overwritten", N));
            return false;
        }
        if (s.size() > N)
        {
            lbad(variant, op, "size_exceeds_capacity", mc::fmt("size()=%zu with N=%zu", (size_t)s.size(), N));
            return false;
        }
        if (s.size() != r.size() || s.room() != N - r.size())
        {
            lbad(variant, op, "size", mc::fmt("N=%zu: size()=%zu room()=%zu, reference holds %zu characters", N, (size_t)s.size(), (size_t)s.room(), r.size()));
            return false;
        }
        const char *c = cs.c_str();
        uintptr_t ob = (uintptr_t)b.ptr();
        if ((uintptr_t)c < ob || (uintptr_t)c + N + 1 > ob + sizeof(Str))
        {
            lbad(variant, op, "storage_outside_object", mc::fmt("N=%zu: c_str() is not inside the object", N));
            return false;
        }
        if (memcmp(c, r.data(), r.size()) != 0 || c[r.size()] != 0 || (size_t)(s.end() - s.begin()) != r.size() || s.begin() != c)
        {
            lbad(variant, op, "contents", mc::fmt("N=%zu: c_str() has length %zu, reference %zu characters (or the characters differ)", N, strlen(c), r.size()));
            return false;
        }
        if (!b.canaries_ok())
        {
            lbad(variant, op, "write_outside_object", mc::fmt("N=%zu: c_str() overwrote the guard bytes", N));
            return false;
        }
        return true;
    }

    template <class Tr, size_t N> void string_case(const string &variant, int li, int ctor_kind, int push_kind)
    {
        using Str = typename Tr::template str<N>;
        const size_t L = large_len(N, li);
        mc::describe("static_string<%zu>: %s of %zu characters, then %s one by one up to %zu, copy/assign", N,
                     ctor_kind ? "(pointer,length)" : "C string", L, push_kind ? "+=" : "push_back", N + 3);
        if (L > N || N >= 256)
            mc::nontrivial();
        string src;
        for (size_t i = 0; i < L; i++)
            src += chr(i);
        string ref = src.substr(0, std::min(L, N));
        uint64_t steps = 0;

        Block<Str> A, B, C, D;
        string op = ctor_kind ? "ctor_pointer_length" : "ctor_c_string";
        mc::crash_context("C14.%s.large.%s.crash", variant.c_str(), op.c_str());
        {
            // exactly-sized heap copy of the argument: one byte of over-read is an ASan report
            char *arg = (char *)malloc(L + (ctor_kind ? (L ? 0 : 1) : 1));
            memcpy(arg, src.data(), L);
            if (!ctor_kind)
                arg[L] = 0;
            if (ctor_kind == 0)
                new (A.ptr()) Str((const char *)arg);
            else if constexpr (Tr::has_ptr_len)
                new (A.ptr()) Str((const char *)arg, L);
            free(arg);
        }
        if (!check_str<Str, N>(variant, op, A, ref))
            return;

        op = "copy_ctor";
        mc::crash_context("C14.%s.large.%s.crash", variant.c_str(), op.c_str());
        new (B.ptr()) Str(*A);
        if (!check_str<Str, N>(variant, op, B, ref) || !check_str<Str, N>(variant, op, A, ref))
            return;
        op = "copy_assign";
        mc::crash_context("C14.%s.large.%s.crash", variant.c_str(), op.c_str());
        new (C.ptr()) Str();
        *C = *A; // onto an empty string
        if (!check_str<Str, N>(variant, op, C, ref))
            return;

        op = push_kind ? "append_operator" : "push_back";
        mc::crash_context("C14.%s.large.%s.crash", variant.c_str(), op.c_str());
        // fill A one character at a time, three more attempts than fit
        for (size_t attempts = ref.size(); attempts < N + 3; attempts++)
        {
            char c = chr(attempts);
            if (push_kind == 0)
                A->push_back(c);
            else if constexpr (Tr::has_append)
                *A += c;
            if (ref.size() < N)
                ref += c;
            steps++;
            if (!check_str<Str, N>(variant, op, A, ref))
                return;
        }
        // the full string copied once more, and the short one assigned onto a full one
        op = "copy_assign";
        mc::crash_context("C14.%s.large.%s.crash", variant.c_str(), op.c_str());
        *B = *A;
        if (!check_str<Str, N>(variant, op, B, ref))
            return;
        {
            string full(N, 'z');
            new (D.ptr()) Str(full.c_str());
            if (!check_str<Str, N>(variant, "ctor_c_string", D, full))
                return;
            *D = *C;
            if (!check_str<Str, N>(variant, op, D, src.substr(0, std::min(L, N))))
                return;
        }
        if constexpr (Tr::has_clear)
        {
            op = "clear";
            A->clear();
            if (!check_str<Str, N>(variant, op, A, ""))
                return;
            A->push_back('q');
            if (!check_str<Str, N>(variant, "push_back", A, "q"))
                return;
        }
        A->~Str();
        B->~Str();
        C->~Str();
        D->~Str();
        mc::more_cases(steps, steps);
        mc::outcome(mc::fmt("%zu/%zu", std::min(L, N), N));
    }

    // ------------------------------------------------------------------------------------------ vectors
    template <class Vec, class T, size_t N>
    bool check_vec(const string &variant, const string &op, trk::Registry &reg, Block<Vec> &b, const std::vector<int> &m)
    {
        constexpr bool tracked = std::is_same<T, Tracked>::value;
        Vec &v = *b;
        const Vec &cv = v;
        if (!b.canaries_ok())
        {
            lbad(variant, op, "write_outside_object", mc::fmt("N=%zu: the guard bytes around the object were overwritten", N));
            return false;
        }
        if (v.size() > N)
        {
            lbad(variant, op, "size_exceeds_capacity", mc::fmt("size()=%zu with N=%zu", (size_t)v.size(), N));
            return false;
        }
        if (v.size() != m.size() || v.room() != N - m.size())
        {
            lbad(variant, op, "size", mc::fmt("N=%zu: size()=%zu room()=%zu, reference holds %zu elements", N, (size_t)v.size(), (size_t)v.room(), m.size()));
            return false;
        }
        uintptr_t d = (uintptr_t)cv.data(), ob = (uintptr_t)b.ptr();
        if (d < ob || d + N * sizeof(T) > ob + sizeof(Vec))
        {
            lbad(variant, op, "storage_outside_object", mc::fmt("N=%zu: data() is not inside the object", N));
            return false;
        }
        if (tracked)
        {
            uintptr_t lo = (uintptr_t)b.mem, hi = lo + b.size();
            for (auto it = reg.st.lower_bound(lo); it != reg.st.end() && it->first < hi; ++it)
            {
                long off = (long)it->first - (long)d;
                bool slot = off >= 0 && off % (long)sizeof(T) == 0 && (size_t)(off / (long)sizeof(T)) < N;
                if (!slot && it->second != trk::RAW)
                {
                    lbad(variant, op, "element_outside_storage", mc::fmt("N=%zu: an element was constructed at byte offset %ld from data()", N, off));
                    return false;
                }
                if (slot && (size_t)(off / (long)sizeof(T)) >= m.size() && trk::Registry::live(it->second))
                {
                    lbad(variant, op, "live_object_beyond_size", mc::fmt("N=%zu: slot %ld (size %zu) still holds an %s object", N, off / (long)sizeof(T), m.size(), trk::stname(it->second)));
                    return false;
                }
            }
            for (size_t k = 0; k < m.size(); k++)
            {
                trk::St s = reg.state((const char *)d + k * sizeof(T));
                if (m[k] == UNSPEC ? !trk::Registry::live(s) : s != trk::ALIVE)
                {
                    lbad(variant, op, "element_not_alive", mc::fmt("N=%zu: element %zu (size %zu) is %s", N, k, m.size(), trk::stname(s)));
                    return false;
                }
            }
        }
        size_t k = 0;
        bool same = true;
        for (auto it = cv.begin(); it != cv.end(); ++it, ++k)
            if (k >= m.size() || !same_value(value_of(*it), m[k]))
                same = false;
        if (k != m.size())
            same = false;
        for (k = 0; k < m.size() && same; k++)
            if (!same_value(value_of(v[k]), m[k]))
                same = false;
        if (!m.empty() && same && (!same_value(value_of(v.front()), m.front()) || !same_value(value_of(v.back()), m.back())))
            same = false;
        if (!same)
        {
            lbad(variant, op, "contents", mc::fmt("N=%zu: the %zu elements differ from the reference sequence", N, m.size()));
            return false;
        }
        return true;
    }

    // fill_kind: 0 push_back one by one, 1 emplace_back one by one, 2 resize(L) (default elements), 3 pointer range ctor
    template <class Tr, class T, size_t N> void vector_case(const string &variant, int li, int fill_kind)
    {
        using Vec = typename Tr::template vec<T, N>;
        constexpr bool tracked = std::is_same<T, Tracked>::value;
        static const char *fk[] = {"push_back", "emplace_back", "resize", "ctor_range_pointer"};
        const size_t L = large_len(N, li);
        mc::describe("static_vector<%s,%zu>: %zu elements through %s, push up to %zu, resize across 255/256, copy/assign/move, clear, destroy",
                     tracked ? "Tracked" : "char", N, L, fk[fill_kind], N + 3);
        if (L > N || N >= 256)
            mc::nontrivial();
        trk::Registry reg;
        reg.prop = "C14";
        trk::Use u(reg);
        uint64_t steps = 0;
        auto ctx = [&](const string &op) {
            reg.begin_op(variant + ".large." + op);
            mc::crash_context("C14.%s.large.%s.crash", variant.c_str(), op.c_str());
        };
        auto mk = [](size_t i) -> T {
            if constexpr (tracked)
                return T(val(i));
            else
                return (T)chr(i);
        };
        auto rv = [](size_t i) -> int {
            if constexpr (tracked)
                return val(i);
            else
                return value_of(chr(i));
        };
        Block<Vec> A, B, C, D;
        for (auto *b : {&A, &B, &C, &D})
            reg.zone_add(b->mem, b->size(), 0, 0, false);
        std::vector<int> ref;
        string op = fk[fill_kind];
        ctx(op);
        if (fill_kind == 3)
        {
            if constexpr (Tr::has_range_ctor)
            {
                std::vector<T> src;
                src.reserve(L + 1);
                for (size_t i = 0; i <= L; i++)
                    src.push_back(mk(i)); // one more than handed over: must not be read
                new (A.ptr()) Vec((const T *)src.data(), (const T *)src.data() + L);
                for (size_t i = 0; i < std::min(L, N); i++)
                    ref.push_back(rv(i));
            }
        }
        else
        {
            new (A.ptr()) Vec();
            if (fill_kind == 2)
            {
                A->resize(L);
                ref.assign(std::min(L, N), 0);
            }
            else
                for (size_t i = 0; i < L; i++)
                {
                    if (fill_kind == 0)
                        A->push_back(mk(i));
                    else
                        A->emplace_back(mk(i));
                    if (ref.size() < N)
                        ref.push_back(rv(i));
                    steps++;
                    if (A->size() != ref.size() || !A.canaries_ok()) // the full comparison follows below
                    {
                        check_vec<Vec, T, N>(variant, op, reg, A, ref);
                        return;
                    }
                }
        }
        if (!check_vec<Vec, T, N>(variant, op, reg, A, ref))
            return;

        // copy; then one element at a time, three more attempts than fit
        ctx(op = "copy_ctor");
        new (B.ptr()) Vec(*A);
        if (!check_vec<Vec, T, N>(variant, op, reg, B, ref))
            return;
        {
            std::vector<int> rb = ref;
            ctx(op = "push_back");
            for (size_t attempts = rb.size(); attempts < N + 3; attempts++)
            {
                T t = mk(attempts);
                B->push_back(t);
                if (rb.size() < N)
                    rb.push_back(rv(attempts));
                steps++;
                if (B->size() != rb.size() || !B.canaries_ok())
                    break;
            }
            if (!check_vec<Vec, T, N>(variant, op, reg, B, rb))
                return;
            // resize across the byte boundary, each time from the full container
            for (int i = 0; i < N_LENS; i++)
            {
                size_t n = large_len(N, i);
                ctx(op = "copy_assign");
                new (C.ptr()) Vec();
                *C = *B;
                if (!check_vec<Vec, T, N>(variant, op, reg, C, rb))
                    return;
                ctx(op = "resize");
                C->resize(n);
                std::vector<int> rc = rb;
                rc.resize(std::min(n, N));
                if (!check_vec<Vec, T, N>(variant, op, reg, C, rc))
                    return;
                C->resize(N); // grow again: default elements behind the kept prefix
                rc.resize(N);
                if (!check_vec<Vec, T, N>(variant, op, reg, C, rc))
                    return;
                ctx(op = "destructor");
                C->~Vec();
                if (tracked && reg.live_in((uintptr_t)C.mem, C.size()))
                {
                    lbad(variant, op, "elements_left_alive", mc::fmt("N=%zu: %ld element(s) alive after the destructor", N, reg.live_in((uintptr_t)C.mem, C.size())));
                    return;
                }
                reg.zone_drop((uintptr_t)C.mem);
                reg.zone_add(C.mem, C.size(), 0, 0, false);
                steps++;
            }
            // assignment onto a full container, then move out of it
            ctx(op = "copy_assign");
            *B = *A;
            if (!check_vec<Vec, T, N>(variant, op, reg, B, ref))
                return;
        }
        ctx(op = "move_ctor");
        new (D.ptr()) Vec(std::move(*B));
        if (!check_vec<Vec, T, N>(variant, op, reg, D, ref))
            return;
        {
            size_t now = B->size();
            if (now > ref.size())
            {
                lbad(variant, op, "moved_from_source_grew", mc::fmt("N=%zu: the source reports size %zu after the move, it held %zu", N, now, ref.size()));
                return;
            }
            std::vector<int> rb(now, UNSPEC);
            if (!check_vec<Vec, T, N>(variant, op, reg, B, rb))
                return;
            ctx(op = "move_assign");
            *B = std::move(*D);
            if (!check_vec<Vec, T, N>(variant, op, reg, B, ref))
                return;
            now = D->size();
            if (now > ref.size())
            {
                lbad(variant, op, "moved_from_source_grew", mc::fmt("N=%zu: the source reports size %zu after the move, it held %zu", N, now, ref.size()));
                return;
            }
            std::vector<int> rd(now, UNSPEC);
            if (!check_vec<Vec, T, N>(variant, op, reg, D, rd))
                return;
        }
        ctx(op = "clear");
        A->clear();
        if (!check_vec<Vec, T, N>(variant, op, reg, A, {}))
            return;
        ctx(op = "destructor");
        A->~Vec();
        B->~Vec();
        D->~Vec();
        if (tracked && reg.live_total() != 0)
        {
            lbad(variant, op, "elements_left_alive", mc::fmt("N=%zu: %ld element object(s) alive after every container was destroyed", N, reg.live_total()));
            return;
        }
        reg.mute = true;
        mc::more_cases(steps, steps);
        mc::outcome(mc::fmt("%zu/%zu", std::min(L, N), N));
    }

#define C14_DISPATCH_N(ni, CALL)                                                                                       \
    switch (ni)                                                                                                        \
    {                                                                                                                  \
    case 0:                                                                                                            \
    {                                                                                                                  \
        constexpr size_t NN = 127;                                                                                     \
        CALL;                                                                                                          \
        break;                                                                                                         \
    }                                                                                                                  \
    case 1:                                                                                                            \
    {                                                                                                                  \
        constexpr size_t NN = 128;                                                                                     \
        CALL;                                                                                                          \
        break;                                                                                                         \
    }                                                                                                                  \
    case 2:                                                                                                            \
    {                                                                                                                  \
        constexpr size_t NN = 255;                                                                                     \
        CALL;                                                                                                          \
        break;                                                                                                         \
    }                                                                                                                  \
    case 3:                                                                                                            \
    {                                                                                                                  \
        constexpr size_t NN = 256;                                                                                     \
        CALL;                                                                                                          \
        break;                                                                                                         \
    }                                                                                                                  \
    case 4:                                                                                                            \
    {                                                                                                                  \
        constexpr size_t NN = 257;                                                                                     \
        CALL;                                                                                                          \
        break;                                                                                                         \
    }                                                                                                                  \
    case 5:                                                                                                            \
    {                                                                                                                  \
        constexpr size_t NN = 300;                                                                                     \
        CALL;                                                                                                          \
        break;                                                                                                         \
    }                                                                                                                  \
    }

    template <class Tr> void register_large()
    {
        string n = Tr::name;
        // first choice = (N, length, construction path, push path): wide enough to shard
        mc::add_check(n + "_string_large", [n] {
            const int CK = Tr::has_ptr_len ? 2 : 1, PK = Tr::has_append ? 2 : 1;
            int c = mc::choose(N_LARGE * N_LENS * CK * PK);
            int pk = c % PK, ck = c / PK % CK, li = c / PK / CK % N_LENS, ni = c / PK / CK / N_LENS;
            C14_DISPATCH_N(ni, (string_case<Tr, NN>(n + "_string", li, ck, pk)));
        });
        mc::add_check(n + "_vector_char_large", [n] {
            const int FK = Tr::has_range_ctor ? 4 : 3;
            int c = mc::choose(N_LARGE * N_LENS * FK);
            int fk = c % FK, li = c / FK % N_LENS, ni = c / FK / N_LENS;
            C14_DISPATCH_N(ni, (vector_case<Tr, char, NN>(n + "_vector_char", li, fk)));
        });
        mc::add_check(n + "_vector_tracked_large", [n] {
            const int FK = Tr::has_range_ctor ? 4 : 3;
            int c = mc::choose(N_LARGE * N_LENS * FK);
            int fk = c % FK, li = c / FK % N_LENS, ni = c / FK / N_LENS;
            C14_DISPATCH_N(ni, (vector_case<Tr, Tracked, NN>(n + "_vector_tracked", li, fk)));
        });
    }
}
