// c14_static.hpp — BFS models for static_vector<T,N> / static_string<N> (static_vector.h, static_string.h)
// and their std_portable.h twins (own executable: same class names).
//
// Every container lives in an exactly-sized heap block  [canary 32][object][canary 32]  (ASan guards the
// outside, the canaries and the lifetime registry the inside). Two objects A, B so that copy / move /
// assignment have a partner; reference = std::vector<int> / std::string truncated to N.
// The statement does not say what the SOURCE of a move holds afterwards: the reference adopts the size the
// source reports (anything in 0..old size) and marks its element values unspecified (UNSPEC) until they are
// overwritten; every other oracle (size <= N, storage, lifetime balance, destination contents) stays exact.
#pragma once
#include "mc.hpp"
#include "single_pass.hpp"
#include "tracked.hpp"
#include <algorithm>
#include <cstring>
#include <iterator>
#include <list>
#include <memory>
#include <utility>
#include <string>
#include <tuple>
#include <vector>

namespace c14
{
    using std::string;
    using trk::Tracked;
    using trk::value_of;

    static const size_t CAN = 32;
    static const int UNSPEC = -1; // reference value of a moved-from element: any value, but a constructed object
    inline bool same_value(int got, int want) { return want == UNSPEC || got == want; }

    template <class Obj> struct Block // raw storage for one object between canaries
    {
        unsigned char *mem;
        bool constructed = false;
        Block()
        {
            mem = (unsigned char *)malloc(size());
            memset(mem, 0xA5, size());
            memset(mem + CAN, 0xAB, sizeof(Obj)); // deterministic garbage where the object will live
        }
        ~Block() { free(mem); }
        static size_t size() { return CAN + sizeof(Obj) + CAN; }
        Obj *ptr() { return reinterpret_cast<Obj *>(mem + CAN); }
        Obj &operator*() { return *ptr(); }
        Obj *operator->() { return ptr(); }
        bool canaries_ok() const
        {
            for (size_t i = 0; i < CAN; i++)
                if (mem[i] != 0xA5 || mem[CAN + sizeof(Obj) + i] != 0xA5)
                    return false;
            return true;
        }
    };

    inline string vstr(const std::vector<int> &v)
    {
        string s = "[";
        for (size_t i = 0; i < v.size(); i++)
            s += mc::fmt("%s%d", i ? "," : "", v[i]);
        return s + "]";
    }

    enum Kind
    {
        K_PUSH_BACK,
        K_EMPLACE_BACK,
        K_ERASE,
        K_RESIZE,
        K_CLEAR,
        K_COPY_ASSIGN,
        K_SELF_ASSIGN,
        K_MOVE_ASSIGN,
        K_REBUILD_DEFAULT,
        K_COPY_CTOR,
        K_MOVE_CTOR,
        K_CTOR_RANGE_PTR,
        K_CTOR_RANGE_LIST,
        K_CTOR_IL,
        // value-category variants of every operation that takes an element (appended: earlier indices keep their meaning)
        K_PUSH_BACK_RVALUE,         // push_back(T(v))
        K_PUSH_BACK_MOVED,          // T t(v); push_back(std::move(t))
        K_EMPLACE_BACK_RVALUE_ELEM, // emplace_back(T(v))
        K_EMPLACE_BACK_LVALUE_ELEM, // T t(v); emplace_back(t)
        K_CTOR_RANGE_MOVE_ITER,     // static_vector(std::make_move_iterator(first), std::make_move_iterator(last))
        K_CTOR_RANGE_INPUT_ITER,    // static_vector(single-pass input iterator pair), see single_pass.hpp
        K_CTOR_IL_NAMED             // from a NAMED initializer_list that is inspected afterwards: it must be unchanged
    };
    inline const char *kname(int k)
    {
        static const char *n[] = {"push_back", "emplace_back", "erase_range", "resize", "clear", "copy_assign", "self_assign", "move_assign",
                                  "default_ctor", "copy_ctor", "move_ctor", "ctor_range_pointer", "ctor_range_list_iterator", "ctor_initlist",
                                  "push_back_rvalue", "push_back_moved", "emplace_back_rvalue_element", "emplace_back_lvalue_element", "ctor_range_move_iterator", "ctor_range_input_iterator", "ctor_initlist_named"};
        return n[k];
    }

    // Tr: template<class T, size_t N> using vec; name; has_erase, has_range_ctor, has_il
    template <class Tr, class T, size_t N> struct SVModel : mc::Model
    {
        using Vec = typename Tr::template vec<T, N>;
        static constexpr bool tracked = std::is_same<T, Tracked>::value;
        static constexpr int NV = 2;
        struct Op
        {
            int kind, x, a, b;
        };
        struct Tables
        {
            std::vector<Op> ops;
            std::vector<std::vector<int>> lists;
            std::vector<string> names;
        };
        string variant;
        std::shared_ptr<Tables> tab;
        const std::vector<Op> &ops;
        const std::vector<std::vector<int>> &lists;
        trk::Registry reg;
        Block<Vec> blk[2];
        std::vector<int> ref[2];

        static std::shared_ptr<Tables> tables()
        {
            static std::shared_ptr<Tables> t;
            if (t)
                return t;
            t = std::make_shared<Tables>();
            auto &ops = t->ops;
            auto &lists = t->lists;
            const int M = 2 * (int)N; // constructor arguments of length 0..2N
            lists.push_back({});
            for (size_t i = 0; i < lists.size(); i++)
                if ((int)lists[i].size() < M)
                    for (int v = 0; v < NV; v++)
                    {
                        auto l = lists[i];
                        l.push_back(v);
                        lists.push_back(l);
                    }
            for (int x = 0; x < 2; x++)
            {
                for (int v = 0; v < NV; v++)
                {
                    ops.push_back({K_PUSH_BACK, x, v, 0});
                    ops.push_back({K_EMPLACE_BACK, x, v, 0});
                }
                if (Tr::has_erase)
                    for (int f = 0; f <= (int)N; f++)
                        for (int l = f; l <= (int)N; l++)
                            ops.push_back({K_ERASE, x, f, l});
                for (int n = 0; n <= M; n++)
                    ops.push_back({K_RESIZE, x, n, 0});
                for (int k : {K_CLEAR, K_COPY_ASSIGN, K_SELF_ASSIGN, K_MOVE_ASSIGN, K_REBUILD_DEFAULT, K_COPY_CTOR, K_MOVE_CTOR})
                    ops.push_back({k, x, 0, 0});
                for (int i = 0; i < (int)lists.size(); i++)
                {
                    // N <= 3: every list; N = 4: one list per (length, first value), values alternating
                    bool cyc = true;
                    for (size_t j = 1; j < lists[i].size(); j++)
                        if (lists[i][j] != (lists[i][j - 1] + 1) % NV)
                            cyc = false;
                    if (N >= 4 && !cyc)
                        continue;
                    if (Tr::has_il)
                        ops.push_back({K_CTOR_IL, x, i, 0});
                    if (Tr::has_range_ctor && (cyc || N <= 2))
                    {
                        ops.push_back({K_CTOR_RANGE_PTR, x, i, 0});
                        ops.push_back({K_CTOR_RANGE_LIST, x, i, 0});
                    }
                }
            }
            // appended after everything else so that the indices of the operations above never change
            for (int x = 0; x < 2; x++)
            {
                for (int v = 0; v < NV; v++)
                    for (int k : {K_PUSH_BACK_RVALUE, K_PUSH_BACK_MOVED, K_EMPLACE_BACK_RVALUE_ELEM, K_EMPLACE_BACK_LVALUE_ELEM})
                        ops.push_back({k, x, v, 0});
                if (Tr::has_range_ctor)
                    for (int i = 0; i < (int)lists.size(); i++)
                    {
                        bool cyc = true;
                        for (size_t j = 1; j < lists[i].size(); j++)
                            if (lists[i][j] != (lists[i][j - 1] + 1) % NV)
                                cyc = false;
                        if (cyc)
                            ops.push_back({K_CTOR_RANGE_MOVE_ITER, x, i, 0});
                    }
            }
            for (int x = 0; x < 2; x++) // appended later still
                if (Tr::has_range_ctor)
                    for (int i = 0; i < (int)lists.size(); i++)
                    {
                        bool cyc = true;
                        for (size_t j = 1; j < lists[i].size(); j++)
                            if (lists[i][j] != (lists[i][j - 1] + 1) % NV)
                                cyc = false;
                        if (cyc || N <= 2)
                            ops.push_back({K_CTOR_RANGE_INPUT_ITER, x, i, 0});
                    }
            for (int x = 0; x < 2; x++) // appended later still
                if (Tr::has_il)
                    for (int i = 0; i < (int)lists.size(); i++)
                    {
                        bool cyc = true;
                        for (size_t j = 1; j < lists[i].size(); j++)
                            if (lists[i][j] != (lists[i][j - 1] + 1) % NV)
                                cyc = false;
                        if ((cyc || N <= 2) && !lists[i].empty())
                            ops.push_back({K_CTOR_IL_NAMED, x, i, 0});
                    }
            t->names.resize(ops.size());
            return t;
        }
        SVModel(const string &var) : variant(var), tab(tables()), ops(tab->ops), lists(tab->lists)
        {
            reg.prop = "C14";
            trk::Use u(reg);
            for (int i = 0; i < 2; i++)
            {
                reg.zone_add(blk[i].mem, blk[i].size(), 0, 0, false);
                new (blk[i].ptr()) Vec();
                blk[i].constructed = true;
            }
        }
        ~SVModel()
        {
            trk::Use u(reg);
            reg.mute = true;
            for (int i = 0; i < 2; i++)
                if (blk[i].constructed)
                    blk[i].ptr()->~Vec();
        }
        int nops() override { return (int)ops.size(); }
        bool recreates(int o) const // destroys the object and constructs a new one in its block
        {
            int k = ops[o].kind;
            return (k >= K_REBUILD_DEFAULT && k <= K_CTOR_IL) || k == K_CTOR_RANGE_MOVE_ITER || k == K_CTOR_RANGE_INPUT_ITER || k == K_CTOR_IL_NAMED;
        }
        string opname(int o) override
        {
            if (tab->names[o].empty())
                tab->names[o] = opname_(o);
            return tab->names[o];
        }
        string opname_(int o)
        {
            const Op &p = ops[o];
            const char *X = p.x ? "B" : "A", *Y = p.x ? "A" : "B";
            switch (p.kind)
            {
            case K_PUSH_BACK:
            case K_EMPLACE_BACK:
                return mc::fmt("%s.%s(%d)", X, kname(p.kind), p.a);
            case K_PUSH_BACK_RVALUE:
                return mc::fmt("%s.push_back(T(%d))", X, p.a);
            case K_PUSH_BACK_MOVED:
                return mc::fmt("T t(%d); %s.push_back(std::move(t))", p.a, X);
            case K_EMPLACE_BACK_RVALUE_ELEM:
                return mc::fmt("%s.emplace_back(T(%d))", X, p.a);
            case K_EMPLACE_BACK_LVALUE_ELEM:
                return mc::fmt("T t(%d); %s.emplace_back(t)", p.a, X);
            case K_ERASE:
                return mc::fmt("%s.erase(begin+%d, begin+%d)", X, p.a, p.b);
            case K_RESIZE:
                return mc::fmt("%s.resize(%d)", X, p.a);
            case K_CLEAR:
                return mc::fmt("%s.clear()", X);
            case K_COPY_ASSIGN:
                return mc::fmt("%s = %s", X, Y);
            case K_SELF_ASSIGN:
                return mc::fmt("%s = %s", X, X);
            case K_MOVE_ASSIGN:
                return mc::fmt("%s = std::move(%s)", X, Y);
            case K_REBUILD_DEFAULT:
                return mc::fmt("%s.~static_vector(); new(%s) static_vector()", X, X);
            case K_COPY_CTOR:
                return mc::fmt("%s.~static_vector(); new(%s) static_vector(%s)", X, X, Y);
            case K_MOVE_CTOR:
                return mc::fmt("%s.~static_vector(); new(%s) static_vector(std::move(%s))", X, X, Y);
            case K_CTOR_RANGE_PTR:
            case K_CTOR_RANGE_LIST:
            case K_CTOR_IL:
            case K_CTOR_RANGE_MOVE_ITER:
            case K_CTOR_RANGE_INPUT_ITER:
            case K_CTOR_IL_NAMED:
                return mc::fmt("%s.~static_vector(); new(%s) static_vector<N=%zu> %s %s", X, X, N, kname(p.kind), vstr(lists[p.a]).c_str());
            }
            return "?";
        }
        void ctx(const char *op, const char *cls = nullptr)
        {
            string c = variant;
            c += '.';
            c += op;
            if (cls && *cls)
            {
                c += '.';
                c += cls;
            }
            reg.begin_op(c);
            mc::crash_context("C14.%s.crash", c.c_str());
        }
        void bad(const char *op, const char *kind, const string &msg)
        {
            mc::violation(mc::fmt("C14.%s.%s.%s", variant.c_str(), op, kind), "%s", msg.c_str());
        }

        // destroy X in place; afterwards nothing in its block may be alive
        void destroy(int x)
        {
            ctx("destructor");
            blk[x].ptr()->~Vec();
            blk[x].constructed = false;
            if (tracked)
            {
                long lv = reg.live_in((uintptr_t)blk[x].mem, blk[x].size());
                if (lv)
                    bad("destructor", "elements_left_alive", mc::fmt("%ld element(s) of %s still alive after its destructor (reference held %s)", lv, x ? "B" : "A", vstr(ref[x]).c_str()));
            }
            memset(blk[x].mem + CAN, 0xAB, sizeof(Vec));
            // forget the dead slots: the next object starts on raw memory
            reg.zone_drop((uintptr_t)blk[x].mem);
            reg.zone_add(blk[x].mem, blk[x].size(), 0, 0, false);
        }

        static std::vector<int> clip(std::vector<int> v)
        {
            if (v.size() > N)
                v.resize(N);
            return v;
        }
        Vec *construct_il(void *at, const std::vector<int> &v)
        {
            if constexpr (Tr::has_il)
            {
                switch (v.size())
                {
                case 0:
                    return new (at) Vec(std::initializer_list<T>{});
                case 1:
                    return new (at) Vec{T(v[0])};
                case 2:
                    return new (at) Vec{T(v[0]), T(v[1])};
                case 3:
                    return new (at) Vec{T(v[0]), T(v[1]), T(v[2])};
                case 4:
                    return new (at) Vec{T(v[0]), T(v[1]), T(v[2]), T(v[3])};
                case 5:
                    return new (at) Vec{T(v[0]), T(v[1]), T(v[2]), T(v[3]), T(v[4])};
                case 6:
                    return new (at) Vec{T(v[0]), T(v[1]), T(v[2]), T(v[3]), T(v[4]), T(v[5])};
                case 7:
                    return new (at) Vec{T(v[0]), T(v[1]), T(v[2]), T(v[3]), T(v[4]), T(v[5]), T(v[6])};
                case 8:
                    return new (at) Vec{T(v[0]), T(v[1]), T(v[2]), T(v[3]), T(v[4]), T(v[5]), T(v[6]), T(v[7])};
                }
            }
            mc::harness_error("construct_il: length %zu", v.size());
        }

        // construct from a named list and look at the list afterwards: the caller's elements are const
        template <size_t... I> bool construct_named_il(void *at, const std::vector<int> &v, std::index_sequence<I...>)
        {
            if constexpr (Tr::has_il)
            {
                const std::initializer_list<T> il = {T(v[I])...};
                new (at) Vec(il);
                size_t k = 0;
                for (const T &e : il)
                {
                    bool alive = !tracked || reg.state(std::addressof(e)) == trk::ALIVE;
                    if (!alive || value_of(e) != v[k])
                    {
                        bad("ctor_initlist_named", "source_list_modified", mc::fmt("element %zu of the caller's initializer_list is %s with value %d after the construction, it was %d", k,
                                                                                  alive ? "alive" : "moved-from", value_of(e), v[k]));
                        return false;
                    }
                    k++;
                }
            }
            return true;
        }
        bool apply(int o) override
        {
            fflush(nullptr); // engine records on disk before code that may abort the worker runs
            trk::Use u(reg);
            const Op p = ops[o];
            Vec &X = *blk[p.x], &Y = *blk[1 - p.x];
            auto &mx = ref[p.x], &my = ref[1 - p.x];
            const int n = (int)mx.size(), ny = (int)my.size();
            switch (p.kind)
            {
            case K_PUSH_BACK:
            case K_EMPLACE_BACK:
            case K_PUSH_BACK_RVALUE:
            case K_PUSH_BACK_MOVED:
            case K_EMPLACE_BACK_RVALUE_ELEM:
            case K_EMPLACE_BACK_LVALUE_ELEM:
                ctx(kname(p.kind), n == (int)N ? "full" : "room");
                if (n == (int)N)
                    mc::nontrivial();
                if (p.kind == K_PUSH_BACK)
                {
                    T t(p.a);
                    X.push_back(t);
                }
                else if (p.kind == K_PUSH_BACK_RVALUE)
                    X.push_back(T(p.a));
                else if (p.kind == K_PUSH_BACK_MOVED)
                {
                    T t(p.a);
                    X.push_back(std::move(t));
                }
                else if (p.kind == K_EMPLACE_BACK_RVALUE_ELEM)
                    X.emplace_back(T(p.a));
                else if (p.kind == K_EMPLACE_BACK_LVALUE_ELEM)
                {
                    T t(p.a);
                    X.emplace_back(t);
                }
                else
                    X.emplace_back(p.a);
                if (n < (int)N)
                    mx.push_back(p.a);
                break;
            case K_ERASE:
                if constexpr (Tr::has_erase)
                {
                    if (p.b > n)
                        return false;
                    ctx(kname(p.kind), p.a == p.b ? "empty" : p.b == n ? "to_end" : "mid");
                    if (p.a != p.b)
                        mc::nontrivial();
                    X.erase(X.begin() + p.a, X.begin() + p.b);
                    mx.erase(mx.begin() + p.a, mx.begin() + p.b);
                    break;
                }
                return false;
            case K_RESIZE:
                ctx(kname(p.kind), p.a > (int)N ? "beyond_capacity" : p.a > n ? "longer" : p.a < n ? "shorter" : "same");
                if (p.a != n)
                    mc::nontrivial();
                X.resize(p.a);
                mx.resize(std::min<size_t>(p.a, N));
                break;
            case K_CLEAR:
                ctx(kname(p.kind), n ? "nonempty" : "empty");
                if (n)
                    mc::nontrivial();
                X.clear();
                mx.clear();
                break;
            case K_COPY_ASSIGN:
                ctx(kname(p.kind), n == 0 ? "onto_empty" : ny > n ? "from_longer" : ny < n ? "from_shorter" : "same_length");
                if (n || ny)
                    mc::nontrivial();
                X = Y;
                mx = my;
                break;
            case K_SELF_ASSIGN:
            {
                ctx(kname(p.kind), n ? "nonempty" : "empty");
                if (n)
                    mc::nontrivial();
                Vec &alias = X;
                X = alias;
                break;
            }
            case K_MOVE_ASSIGN:
                ctx(kname(p.kind), n == 0 ? "onto_empty" : ny > n ? "from_longer" : ny < n ? "from_shorter" : "same_length");
                if (n || ny)
                    mc::nontrivial();
                X = std::move(Y);
                mx = my;
                if (!moved_from(1 - p.x, kname(p.kind)))
                    return true;
                break;
            case K_REBUILD_DEFAULT:
                if (n)
                    mc::nontrivial();
                destroy(p.x);
                ctx(kname(p.kind));
                new (blk[p.x].ptr()) Vec();
                blk[p.x].constructed = true;
                mx.clear();
                break;
            case K_COPY_CTOR:
                if (n || ny)
                    mc::nontrivial();
                destroy(p.x);
                ctx(kname(p.kind), ny ? "nonempty" : "empty");
                new (blk[p.x].ptr()) Vec(Y);
                blk[p.x].constructed = true;
                mx = my;
                break;
            case K_MOVE_CTOR:
                if (n || ny)
                    mc::nontrivial();
                destroy(p.x);
                ctx(kname(p.kind), ny ? "nonempty" : "empty");
                new (blk[p.x].ptr()) Vec(std::move(Y));
                blk[p.x].constructed = true;
                mx = my;
                if (!moved_from(1 - p.x, kname(p.kind)))
                    return true;
                break;
            case K_CTOR_RANGE_PTR:
            case K_CTOR_RANGE_LIST:
            case K_CTOR_RANGE_MOVE_ITER:
            case K_CTOR_RANGE_INPUT_ITER:
                if constexpr (Tr::has_range_ctor)
                {
                    const auto &l = lists[p.a];
                    if (l.size() > N)
                        mc::nontrivial();
                    destroy(p.x);
                    ctx(kname(p.kind), l.size() > N ? "longer_than_capacity" : "fits");
                    if (p.kind == K_CTOR_RANGE_INPUT_ITER)
                    {
                        sp::Source src; // single pass: whatever walks the range consumes it
                        src.values = l;
                        sp::InputIt<T> first, last;
                        first.src = &src;
                        new (blk[p.x].ptr()) Vec(first, last);
                        if (src.misuse)
                            bad(kname(p.kind), "iterator_misuse", "the constructor dereferenced or advanced the end iterator of the input range");
                    }
                    else if (p.kind == K_CTOR_RANGE_MOVE_ITER)
                    {
                        std::list<T> src; // elements handed over as rvalues
                        for (int v : l)
                            src.emplace_back(v);
                        new (blk[p.x].ptr()) Vec(std::make_move_iterator(src.begin()), std::make_move_iterator(src.end()));
                    }
                    else if (p.kind == K_CTOR_RANGE_LIST)
                    {
                        std::list<T> src;
                        for (int v : l)
                            src.emplace_back(v);
                        new (blk[p.x].ptr()) Vec(src.begin(), src.end());
                    }
                    else
                    {
                        std::vector<T> src;
                        src.reserve(l.size() + 1);
                        for (int v : l)
                            src.emplace_back(v);
                        src.emplace_back(9);
                        new (blk[p.x].ptr()) Vec((const T *)src.data(), (const T *)src.data() + l.size());
                    }
                    blk[p.x].constructed = true;
                    mx = clip(l);
                    break;
                }
                return false;
            case K_CTOR_IL:
                if constexpr (Tr::has_il)
                {
                    const auto &l = lists[p.a];
                    if (l.size() > N)
                        mc::nontrivial();
                    destroy(p.x);
                    ctx(kname(p.kind), l.size() > N ? "longer_than_capacity" : "fits");
                    construct_il(blk[p.x].ptr(), l);
                    blk[p.x].constructed = true;
                    mx = clip(l);
                    break;
                }
                return false;
            case K_CTOR_IL_NAMED:
                if constexpr (Tr::has_il)
                {
                    const auto &l = lists[p.a];
                    if (l.size() > N)
                        mc::nontrivial();
                    destroy(p.x);
                    ctx(kname(p.kind), l.size() > N ? "longer_than_capacity" : "fits");
                    bool ok = true;
                    switch (l.size())
                    {
                    case 1:
                        ok = construct_named_il(blk[p.x].ptr(), l, std::make_index_sequence<1>());
                        break;
                    case 2:
                        ok = construct_named_il(blk[p.x].ptr(), l, std::make_index_sequence<2>());
                        break;
                    case 3:
                        ok = construct_named_il(blk[p.x].ptr(), l, std::make_index_sequence<3>());
                        break;
                    case 4:
                        ok = construct_named_il(blk[p.x].ptr(), l, std::make_index_sequence<4>());
                        break;
                    case 5:
                        ok = construct_named_il(blk[p.x].ptr(), l, std::make_index_sequence<5>());
                        break;
                    case 6:
                        ok = construct_named_il(blk[p.x].ptr(), l, std::make_index_sequence<6>());
                        break;
                    case 7:
                        ok = construct_named_il(blk[p.x].ptr(), l, std::make_index_sequence<7>());
                        break;
                    case 8:
                        ok = construct_named_il(blk[p.x].ptr(), l, std::make_index_sequence<8>());
                        break;
                    }
                    blk[p.x].constructed = true;
                    mx = clip(l);
                    if (!ok)
                        return true;
                    break;
                }
                return false;
            default:
                return false;
            }
            check(kname(p.kind));
            return true;
        }

        // the source of a move: any size in 0..old size, element values unspecified
        bool moved_from(int y, const char *op)
        {
            size_t now = blk[y].ptr()->size(), before = ref[y].size();
            if (now > before)
            {
                bad(op, "moved_from_source_grew", mc::fmt("the source of the move reports size %zu, it held %zu element(s)", now, before));
                return false;
            }
            ref[y].assign(now, UNSPEC);
            return true;
        }

        void check(const char *op)
        {
            bool ok = true;
            for (int i = 0; i < 2; i++)
            {
                Vec &v = *blk[i];
                const Vec &cv = v;
                const char *nm = i ? "B" : "A";
                const auto &m = ref[i];
                if (!blk[i].canaries_ok())
                {
                    bad(op, "write_outside_object", mc::fmt("the guard bytes around %s were overwritten", nm));
                    ok = false;
                    continue;
                }
                if (v.size() > N)
                {
                    bad(op, "size_exceeds_capacity", mc::fmt("%s.size()=%zu with N=%zu", nm, (size_t)v.size(), N));
                    ok = false;
                    continue;
                }
                if (v.size() != m.size())
                {
                    bad(op, "size", mc::fmt("%s.size()=%zu, reference %s", nm, (size_t)v.size(), vstr(m).c_str()));
                    ok = false;
                    continue;
                }
                if (v.room() != N - m.size())
                    bad(op, "room", mc::fmt("%s.room()=%zu, size %zu, N=%zu", nm, (size_t)v.room(), m.size(), N));
                // storage must lie inside the object
                uintptr_t d = (uintptr_t)cv.data(), ob = (uintptr_t)blk[i].ptr();
                if (d < ob || d + N * sizeof(T) > ob + sizeof(Vec))
                {
                    bad(op, "storage_outside_object", mc::fmt("%s.data() is not inside the object", nm));
                    ok = false;
                    continue;
                }
                if (tracked)
                {
                    // every element object in the block sits in a slot; slots [0,size) alive, the rest not
                    uintptr_t b = (uintptr_t)blk[i].mem, e = b + blk[i].size();
                    for (auto it = reg.st.lower_bound(b); it != reg.st.end() && it->first < e; ++it)
                    {
                        long off = (long)it->first - (long)d;
                        bool slot = off >= 0 && off % (long)sizeof(T) == 0 && (size_t)(off / (long)sizeof(T)) < N;
                        if (!slot && it->second != trk::RAW)
                        {
                            bad(op, "element_outside_storage", mc::fmt("an element of %s was constructed at byte offset %ld from data() (N=%zu, element size %zu)", nm, off, N, sizeof(T)));
                            ok = false;
                        }
                        else if (slot)
                        {
                            size_t k = (size_t)(off / (long)sizeof(T));
                            if (k >= m.size() && trk::Registry::live(it->second))
                            {
                                bad(op, "live_object_beyond_size", mc::fmt("slot %zu of %s (size %zu) still holds an %s object", k, nm, m.size(), trk::stname(it->second)));
                                ok = false;
                            }
                        }
                    }
                    for (size_t k = 0; k < m.size(); k++)
                    {
                        trk::St s = reg.state((const char *)d + k * sizeof(T));
                        if (m[k] == UNSPEC ? !trk::Registry::live(s) : s != trk::ALIVE)
                        {
                            bad(op, "element_not_alive", mc::fmt("%s[%zu] (size %zu) is %s", nm, k, m.size(), trk::stname(s)));
                            ok = false;
                        }
                    }
                }
                if (!ok)
                    continue;
                bool same = true;
                {
                    size_t k = 0;
                    for (auto it = cv.begin(); it != cv.end(); ++it, ++k)
                        if (k >= m.size() || !same_value(value_of(*it), m[k]))
                            same = false;
                    if (k != m.size())
                        same = false;
                    k = 0;
                    for (auto it = v.begin(); it != v.end(); ++it, ++k)
                        if (k >= m.size() || !same_value(value_of(*it), m[k]))
                            same = false;
                    if (k != m.size())
                        same = false;
                    for (k = 0; k < m.size(); k++)
                        if (!same_value(value_of(v[k]), m[k]) || !same_value(value_of(cv[k]), m[k]) || !same_value(value_of(v.data()[k]), m[k]))
                            same = false;
                    if (!m.empty() && (!same_value(value_of(v.front()), m.front()) || !same_value(value_of(v.back()), m.back()) ||
                                       !same_value(value_of(cv.front()), m.front()) || !same_value(value_of(cv.back()), m.back())))
                        same = false;
                }
                if (!same)
                {
                    std::vector<int> got;
                    for (size_t k = 0; k < m.size(); k++)
                        got.push_back(value_of(cv[k]));
                    bad(op, "contents", mc::fmt("%s=%s, reference %s", nm, vstr(got).c_str(), vstr(m).c_str()));
                    ok = false;
                }
            }
            if (!ok)
                return;
            if (tracked)
            {
                long want = (long)ref[0].size() + (long)ref[1].size();
                if (reg.live_total() != want)
                    bad(op, "live_object_count", mc::fmt("%ld element objects are alive, the two containers hold %ld", reg.live_total(), want));
            }
            char buf[24];
            size_t k = 0;
            for (int x : ref[0])
                buf[k++] = (char)('0' + x);
            buf[k++] = '|';
            for (int x : ref[1])
                buf[k++] = (char)('0' + x);
            mc::outcome(string(buf, k));
        }
        string key() override
        {
            trk::Use u(reg);
            string k;
            for (int i = 0; i < 2; i++)
            {
                Vec &v = *blk[i];
                size_t n = std::min<size_t>(std::min<size_t>(v.size(), N), ref[i].size());
                k += (char)('0' + n);
                k += ':';
                for (size_t j = 0; j < n; j++)
                {
                    int e = value_of(v.data()[j]);
                    k += e >= 0 && e < 10 ? (char)('0' + e) : '?';
                }
                k += '=';
                for (int e : ref[i])
                    k += (char)('0' + e);
                k += '|';
            }
            return k;
        }
    };

    // ------------------------------------------------------------------------------------ strings
    enum SKind
    {
        S_PUSH_BACK,
        S_APPEND_OP, // operator+=
        S_CLEAR,
        S_COPY_ASSIGN,
        S_REBUILD_DEFAULT,
        S_COPY_CTOR,
        S_CTOR_CSTR,
        S_CTOR_PTR_LEN,
        S_FIND,  // read-only: memory safety only
        S_SPLIT, // capacity safety of the pieces
    };
    inline const char *skname(int k)
    {
        static const char *n[] = {"push_back", "append_operator", "clear", "copy_assign", "default_ctor", "copy_ctor", "ctor_c_string", "ctor_pointer_length", "find", "split"};
        return n[k];
    }
    // characters: 'a', 'b' and the 0 byte (index 2): a string with an embedded 0 is not a C string
    inline char chr_of(int a) { return a == 2 ? '\0' : (char)('a' + a); }
    inline string printable(const string &s)
    {
        string r;
        for (char c : s)
            r += c ? string(1, c) : string("\\0");
        return r;
    }
    // Tr: template<size_t N> using str; template<class T,size_t N> using vec; has_ptr_len, has_clear, has_append, has_find_split
    template <class Tr, size_t N> struct SSModel : mc::Model
    {
        using Str = typename Tr::template str<N>;
        struct Op
        {
            int kind, x, a, b;
        };
        struct Tables
        {
            std::vector<Op> ops;
            std::vector<string> strs;
            std::vector<string> names;
        };
        string variant;
        std::shared_ptr<Tables> tab;
        const std::vector<Op> &ops;
        const std::vector<string> &strs;
        Block<Str> blk[2];
        string ref[2];
        static std::shared_ptr<Tables> tables()
        {
            static std::shared_ptr<Tables> t;
            if (t)
                return t;
            t = std::make_shared<Tables>();
            auto &ops = t->ops;
            auto &strs = t->strs;
            const size_t M = 2 * N;
            strs.push_back("");
            for (size_t i = 0; i < strs.size(); i++)
                if (strs[i].size() < M)
                    for (char c : {'a', 'b'})
                        strs.push_back(strs[i] + c);
            for (int x = 0; x < 2; x++)
            {
                for (int c = 0; c < 2; c++)
                {
                    ops.push_back({S_PUSH_BACK, x, c, 0});
                    if (Tr::has_append)
                        ops.push_back({S_APPEND_OP, x, c, 0});
                }
                if (Tr::has_clear)
                    ops.push_back({S_CLEAR, x, 0, 0});
                for (int k : {S_COPY_ASSIGN, S_REBUILD_DEFAULT, S_COPY_CTOR})
                    ops.push_back({k, x, 0, 0});
                for (int i = 0; i < (int)strs.size(); i++)
                {
                    ops.push_back({S_CTOR_CSTR, x, i, 0});
                    if (Tr::has_ptr_len)
                        ops.push_back({S_CTOR_PTR_LEN, x, i, 0});
                }
                if (Tr::has_find_split)
                {
                    for (int i = 0; i < (int)strs.size(); i++)
                        if (Tr::has_find && strs[i].size() <= 2)
                            for (int pos = 0; pos <= (int)N + 1; pos++)
                                ops.push_back({S_FIND, x, i, pos});
                    for (int cfg = 0; cfg < 4; cfg++)
                        ops.push_back({S_SPLIT, x, cfg, 0});
                }
            }
            // appended after everything else (indices above never change): the 0 byte as a character, and
            // (pointer,length) arguments that contain it
            size_t first_zero_str = strs.size();
            for (size_t i = 0; i < first_zero_str; i++)
                if (!strs[i].empty() && strs[i].size() <= M)
                {
                    // every string over {a,b} with each single 'b' replaced by 0 would be many: take the
                    // strings over {a} U {0} instead: replace every 'b' by the 0 byte
                    string z = strs[i];
                    bool has = false;
                    for (char &c : z)
                        if (c == 'b')
                        {
                            c = 0;
                            has = true;
                        }
                    if (has)
                        strs.push_back(z);
                }
            for (int x = 0; x < 2; x++)
            {
                ops.push_back({S_PUSH_BACK, x, 2, 0});
                if (Tr::has_append)
                    ops.push_back({S_APPEND_OP, x, 2, 0});
                if (Tr::has_ptr_len)
                    for (size_t i = first_zero_str; i < strs.size(); i++)
                        ops.push_back({S_CTOR_PTR_LEN, x, (int)i, 0});
            }
            t->names.resize(ops.size());
            return t;
        }
        SSModel(const string &var) : variant(var), tab(tables()), ops(tab->ops), strs(tab->strs)
        {
            for (int i = 0; i < 2; i++)
            {
                new (blk[i].ptr()) Str();
                blk[i].constructed = true;
            }
        }
        ~SSModel()
        {
            for (int i = 0; i < 2; i++)
                if (blk[i].constructed)
                    blk[i].ptr()->~Str();
        }
        int nops() override { return (int)ops.size(); }
        bool recreates(int o) const
        {
            int k = ops[o].kind;
            return k == S_REBUILD_DEFAULT || k == S_COPY_CTOR || k == S_CTOR_CSTR || k == S_CTOR_PTR_LEN;
        }
        string opname(int o) override
        {
            if (tab->names[o].empty())
                tab->names[o] = opname_(o);
            return tab->names[o];
        }
        string opname_(int o)
        {
            const Op &p = ops[o];
            const char *X = p.x ? "B" : "A", *Y = p.x ? "A" : "B";
            switch (p.kind)
            {
            case S_PUSH_BACK:
                return mc::fmt("%s.push_back('%s')", X, printable(string(1, chr_of(p.a))).c_str());
            case S_APPEND_OP:
                return mc::fmt("%s += '%s'", X, printable(string(1, chr_of(p.a))).c_str());
            case S_CLEAR:
                return mc::fmt("%s.clear()", X);
            case S_COPY_ASSIGN:
                return mc::fmt("%s = %s", X, Y);
            case S_REBUILD_DEFAULT:
                return mc::fmt("new(%s) static_string()", X);
            case S_COPY_CTOR:
                return mc::fmt("new(%s) static_string(%s)", X, Y);
            case S_CTOR_CSTR:
                return mc::fmt("new(%s) static_string<%zu>(\"%s\")", X, N, strs[p.a].c_str());
            case S_CTOR_PTR_LEN:
                return mc::fmt("new(%s) static_string<%zu>(\"%s\", %zu)", X, N, printable(strs[p.a]).c_str(), strs[p.a].size());
            case S_FIND:
                return mc::fmt("%s.find(\"%s\", %d)", X, strs[p.a].c_str(), p.b);
            case S_SPLIT:
                return mc::fmt("%s.split<%d,%d>('b')", X, 1 + (p.a & 1), 1 + (p.a >> 1));
            }
            return "?";
        }
        void bad(const string &op, const char *kind, const string &msg)
        {
            mc::violation(mc::fmt("C14.%s.%s.%s", variant.c_str(), op.c_str(), kind), "%s", msg.c_str());
        }
        // exactly-sized heap copy of a C string: one byte of over-read is an ASan report
        struct Exact
        {
            char *p;
            explicit Exact(const string &s, bool nul)
            {
                p = (char *)malloc(s.size() + (nul ? 1 : 0) + (s.empty() && !nul ? 1 : 0));
                memcpy(p, s.data(), s.size());
                if (nul)
                    p[s.size()] = 0;
            }
            ~Exact() { free(p); }
        };
        template <size_t V, size_t S> void do_split(Str &X, const string &r, const string &op)
        {
            if constexpr (Tr::has_find_split)
            {
                auto out = X.template split<V, S>('b');
                // reference: non-empty pieces between delimiters; at most V pieces, each cut to S characters
                std::vector<string> want;
                size_t i = 0;
                while (i < r.size())
                {
                    while (i < r.size() && r[i] == 'b')
                        i++;
                    if (i == r.size())
                        break;
                    size_t j = i;
                    while (j < r.size() && r[j] != 'b')
                        j++;
                    want.push_back(r.substr(i, j - i));
                    i = j;
                }
                if (want.size() > V)
                    want.resize(V);
                if (out.size() > V)
                {
                    bad(op, "size_exceeds_capacity", mc::fmt("split<%zu,%zu> of \"%s\" returned %zu pieces", V, S, r.c_str(), (size_t)out.size()));
                    return;
                }
                if (out.size() != want.size())
                {
                    bad(op, "pieces", mc::fmt("split<%zu,%zu> of \"%s\" returned %zu pieces, expected %zu", V, S, r.c_str(), (size_t)out.size(), want.size()));
                    return;
                }
                for (size_t k = 0; k < want.size(); k++)
                {
                    if (out[k].size() > S)
                    {
                        bad(op, "size_exceeds_capacity", mc::fmt("split<%zu,%zu> of \"%s\": piece %zu is a static_string<%zu> with size()=%zu", V, S, r.c_str(), k, S, (size_t)out[k].size()));
                        return;
                    }
                    string w = want[k].substr(0, S);
                    if (string(out[k].c_str(), out[k].size()) != w)
                        bad(op, "pieces", mc::fmt("split<%zu,%zu> of \"%s\": piece %zu is \"%s\", expected \"%s\"", V, S, r.c_str(), k, out[k].c_str(), w.c_str()));
                }
            }
        }
        bool apply(int o) override
        {
            fflush(nullptr);
            const Op p = ops[o];
            Str &X = *blk[p.x], &Y = *blk[1 - p.x];
            string &rx = ref[p.x], &ry = ref[1 - p.x];
            string op = skname(p.kind);
            auto clip = [](string s) {
                if (s.size() > N)
                    s.resize(N);
                return s;
            };
            auto cc = [&] { mc::crash_context("C14.%s.%s.crash", variant.c_str(), op.c_str()); };
            switch (p.kind)
            {
            case S_PUSH_BACK:
            case S_APPEND_OP:
                op += rx.size() == N ? ".full" : ".room";
                cc();
                if (rx.size() == N)
                    mc::nontrivial();
                if (p.kind == S_PUSH_BACK)
                    X.push_back(chr_of(p.a));
                else if constexpr (Tr::has_append)
                    X += chr_of(p.a);
                if (rx.size() < N)
                    rx += chr_of(p.a);
                break;
            case S_CLEAR:
                if constexpr (Tr::has_clear)
                {
                    cc();
                    X.clear();
                    rx.clear();
                    break;
                }
                return false;
            case S_COPY_ASSIGN:
                cc();
                X = Y;
                rx = ry;
                break;
            case S_REBUILD_DEFAULT:
                cc();
                X.~Str();
                memset(blk[p.x].mem + CAN, 0xAB, sizeof(Str));
                new (blk[p.x].ptr()) Str();
                rx.clear();
                break;
            case S_COPY_CTOR:
                cc();
                X.~Str();
                memset(blk[p.x].mem + CAN, 0xAB, sizeof(Str));
                new (blk[p.x].ptr()) Str(Y);
                rx = ry;
                break;
            case S_CTOR_CSTR:
            case S_CTOR_PTR_LEN:
            {
                const string &s = strs[p.a];
                op += s.size() > N ? ".longer_than_capacity" : ".fits";
                cc();
                if (s.size() > N)
                    mc::nontrivial();
                X.~Str();
                memset(blk[p.x].mem + CAN, 0xAB, sizeof(Str));
                if (p.kind == S_CTOR_CSTR)
                {
                    Exact e(s, true);
                    new (blk[p.x].ptr()) Str((const char *)e.p);
                }
                else if constexpr (Tr::has_ptr_len)
                {
                    Exact e(s, false);
                    new (blk[p.x].ptr()) Str((const char *)e.p, s.size());
                }
                rx = clip(s);
                break;
            }
            case S_FIND:
                if constexpr (Tr::has_find)
                {
                    cc();
                    Exact e(strs[p.a], true);
                    const Str &CX = X;
                    int r = CX.find(e.p, (size_t)p.b);
                    if (r < -1 || r > (int)N)
                        bad(op, "result_out_of_range", mc::fmt("find(\"%s\", %d) on \"%s\" returned %d", strs[p.a].c_str(), p.b, rx.c_str(), r));
                    break;
                }
                return false;
            case S_SPLIT:
                if constexpr (Tr::has_find_split)
                {
                    cc();
                    if (rx.find('b') != string::npos)
                        mc::nontrivial();
                    switch (p.a)
                    {
                    case 0:
                        do_split<1, 1>(X, rx, op);
                        break;
                    case 1:
                        do_split<2, 1>(X, rx, op);
                        break;
                    case 2:
                        do_split<1, 2>(X, rx, op);
                        break;
                    case 3:
                        do_split<2, 2>(X, rx, op);
                        break;
                    }
                    break;
                }
                return false;
            default:
                return false;
            }
            check(op);
            return true;
        }
        void check(const string &op)
        {
            for (int i = 0; i < 2; i++)
            {
                Str &s = *blk[i];
                const Str &cs = s;
                const char *nm = i ? "B" : "A";
                const string &r = ref[i];
                if (!blk[i].canaries_ok())
                {
                    bad(op, "write_outside_object", mc::fmt("the guard bytes around %s were overwritten", nm));
                    continue;
                }
                if (s.size() > N)
                {
                    bad(op, "size_exceeds_capacity", mc::fmt("%s.size()=%zu with N=%zu", nm, (size_t)s.size(), N));
                    continue;
                }
                if (s.size() != r.size() || s.room() != N - r.size())
                {
                    bad(op, "size", mc::fmt("%s.size()=%zu room()=%zu, reference \"%s\" N=%zu", nm, (size_t)s.size(), (size_t)s.room(), r.c_str(), N));
                    continue;
                }
                const char *c = cs.c_str();
                uintptr_t ob = (uintptr_t)blk[i].ptr();
                if ((uintptr_t)c < ob || (uintptr_t)c + N + 1 > ob + sizeof(Str))
                {
                    bad(op, "storage_outside_object", mc::fmt("%s.c_str() is not inside the object", nm));
                    continue;
                }
                if (memcmp(c, r.data(), r.size()) != 0 || c[r.size()] != 0 || (size_t)(s.end() - s.begin()) != r.size() || s.begin() != c)
                    bad(op, "contents", mc::fmt("%s=\"%.*s\", reference \"%s\"", nm, (int)r.size(), c, r.c_str()));
                if (!blk[i].canaries_ok())
                    bad(op, "write_outside_object", mc::fmt("c_str() of %s overwrote the guard bytes", nm));
            }
            // the results of c_str() of two strings of the same capacity, used at the same time
            {
                const Str &ca = *blk[0], &cb = *blk[1];
                if (blk[0]->size() <= N && blk[1]->size() <= N && blk[0]->size() == ref[0].size() && blk[1]->size() == ref[1].size())
                {
                    const char *pa = ca.c_str(), *pb = cb.c_str();
                    if (memcmp(pa, ref[0].data(), ref[0].size()) != 0 || pa[ref[0].size()] != 0 || memcmp(pb, ref[1].data(), ref[1].size()) != 0 || pb[ref[1].size()] != 0)
                        bad(op, "c_str_shared_between_strings", mc::fmt("A.c_str() and B.c_str() taken together: A reads \"%s\" (reference \"%s\"), B reads \"%s\" (reference \"%s\")",
                                                                       printable(string(pa, ref[0].size())).c_str(), printable(ref[0]).c_str(), printable(string(pb, ref[1].size())).c_str(),
                                                                       printable(ref[1]).c_str()));
                }
            }
            mc::outcome(ref[0] + "|" + ref[1]);
        }
        string key() override
        {
            string k;
            for (int i = 0; i < 2; i++)
            {
                Str &s = *blk[i];
                size_t n = std::min<size_t>(std::min<size_t>(s.size(), N), ref[i].size());
                k += string(s.c_str(), n) + "=" + ref[i] + "|";
            }
            return k;
        }
    };

    template <class Tr, size_t N> void register_n()
    {
        string n = Tr::name;
        string suffix = mc::fmt("_N%zu", N);
        mc::add_bfs(n + "_vector_int" + suffix, [n] { return std::unique_ptr<mc::Model>(new SVModel<Tr, int, N>(n + "_vector_int")); });
        mc::add_bfs(n + "_vector_tracked" + suffix, [n] { return std::unique_ptr<mc::Model>(new SVModel<Tr, Tracked, N>(n + "_vector_tracked")); });
        mc::add_bfs(n + "_string" + suffix, [n] { return std::unique_ptr<mc::Model>(new SSModel<Tr, N>(n + "_string")); });
    }
    template <class Tr> void register_all()
    {
        register_n<Tr, 1>();
        register_n<Tr, 2>();
        register_n<Tr, 3>();
#if TIER_THOROUGH // the tier is not known yet when the registration code runs: build.sh passes it
        register_n<Tr, 4>();
#endif
    }
}
