#!/bin/bash
set -e
. $MC/par.sh
SRC="$REPO/igris/osinter/wait.cpp $REPO/igris/osinter/wait-linux.cpp $REPO/igris/sync/syslock_mutex.cpp $REPO/igris/container/dlist.cpp"
INC="-I$REPO -I$MC"
# the ThreadSanitizer build is also the release build (-DNDEBUG): a condition that only an assert() evaluates, or an
# assert with a side effect, behaves differently there; the AddressSanitizer build keeps the asserts alive
# and is compiled by the other compiler at -O2 (argument evaluation order, folding and inlining differ between the two)
for san in address thread; do
  d=$BUILD/$san; mkdir -p $d
  if [ $san = thread ]; then CXX="g++ -std=c++20 -O1 -DNDEBUG"; else CXX="clang++ -std=c++20 -O2"; fi
  for f in $SRC; do par $CXX -g -fsanitize=$san -fno-omit-frame-pointer $INC -c $f -o $d/$(basename $f .cpp).o; done
  par $CXX -g -fsanitize=$san -fno-omit-frame-pointer $INC -c $VERIF/harness/c20/c20_sync.cpp -o $d/h.o
done
par g++ -std=c++20 -O2 -g $INC -c $MC/sched/sched.cpp -o $BUILD/sched.o
par g++ -std=c++20 -O2 $INC -c $MC/mc.cpp -o $BUILD/mc.o
par gcc -O1 -I$REPO -c $REPO/igris/dprint/dprint_func_impl.c -o $BUILD/dprint.o
par gcc -O1 -I$REPO -c $REPO/igris/dprint/dprint_stub.c -o $BUILD/dstub.o
parwait
for san in address thread; do
  LD=g++; [ $san = address ] && LD=clang++
  $LD -fsanitize=$san $BUILD/$san/*.o $BUILD/sched.o $BUILD/mc.o $BUILD/dprint.o $BUILD/dstub.o -ldl -lpthread -o $BUILD/c20_$san
done
echo "asan $BUILD/c20_address" > $BUILD/runs.txt
echo "tsan $BUILD/c20_thread" >> $BUILD/runs.txt
