// C20 — system lock, wait queues, safe_queue under every thread schedule (shape T).
// Each case is ONE complete execution of a small multi-threaded program on the real
// igris code under the controlled scheduler (mc/sched); all schedules with at most k
// preemptions are enumerated for k = 0,1,2 (thorough: 3).
#include "mc.hpp"
#include "sched/sched.hpp"

#include <atomic>
#include <cstring>
#include <igris/container/dlist.h>
#include <igris/event/safe_queue.h>
#include <igris/osinter/wait.h>
#include <igris/sync/semaphore.h>
#include <igris/sync/syslock.h>
#include <memory>
#include <mutex>
#include <string>
#include <vector>

static const int NSHARD = 48;
static const int MAXT = 6;
// wake-up values that do not fit 32 bits: the future is an intptr_t (a pointer or a 64-bit token)
static const long FUT = 0x123456780000000L;

// ------------------------------------------------------------------ per-execution log (one slot per thread: no harness races)
struct Log
{
    std::atomic<int> returned[MAXT];
    std::atomic<long> value[MAXT];
    std::atomic<int> stamp[MAXT];
    std::atomic<int> clock{0};
    char err[MAXT][200];
    Log()
    {
        for (int i = 0; i < MAXT; i++)
        {
            returned[i] = 0;
            value[i] = -1;
            stamp[i] = -1;
            err[i][0] = 0;
        }
    }
    void fail(int t, const char *kind, const char *msg)
    {
        if (!err[t][0])
            snprintf(err[t], sizeof err[t], "%s|%s", kind, msg);
    }
};

struct Program
{
    virtual ~Program() {}
    virtual void setup() = 0;                        // spawn threads
    virtual void check(const sched::Result &r) = 0;  // oracle on the finished execution
    std::string name;
    Log log;
    int expect_blocked = 0; // threads that must remain blocked at the end (nobody is woken spuriously)
    void report_log()
    {
        for (int t = 0; t < MAXT; t++)
            if (log.err[t][0])
            {
                std::string e = log.err[t];
                size_t bar = e.find('|');
                mc::violation("C20." + name + "." + e.substr(0, bar), "thread %d: %s", t, e.substr(bar + 1).c_str());
            }
    }
};

// ------------------------------------------------------------------ L: system lock
struct LockProg : Program
{
    int nthreads, variant; // variant 0: three nesting threads; 1: save/restore thread + contenders; 2: save must release
    std::atomic<int> owner{-1};
    int shared = 0; // plain on purpose: protected by the system lock (TSan build watches it)
    std::atomic<int> saved{0}, b_done{0}, entered_during_save{0};
    LockProg(int v) : variant(v)
    {
        name = v == 0 ? "L1_nested" : v == 1 ? "L2_save_restore" : v == 2 ? "L3_save_releases" : "L4_scoped_guards";
        nthreads = 3;
    }
    void enter_outer(int id)
    {
        int o = owner.load();
        if (o != -1)
            log.fail(id, "mutual_exclusion", mc::fmt("acquired the system lock while thread %d owns it", o).c_str());
        owner = id;
    }
    void inside(int id, int depth)
    {
        shared = id;
        sched::yield(); // let anybody run while we are inside
        if (shared != id || owner.load() != id)
            log.fail(id, "mutual_exclusion", "shared word / owner changed while inside the critical section");
        // depth < 0: the nesting goes through a scoped guard, whose bookkeeping is its own business
        if (depth >= 0 && syslock_counter() != depth)
            log.fail(id, "depth", mc::fmt("syslock_counter()=%d inside depth %d", syslock_counter(), depth).c_str());
    }
    void nesting_body(int id, int nest)
    {
        system_lock();
        enter_outer(id);
        for (int d = 2; d <= nest; d++)
        {
            system_lock(); // re-entry by the owner must not block
            inside(id, d);
        }
        for (int d = nest; d >= 2; d--)
        {
            system_unlock();
            inside(id, d - 1); // still owner after undoing an inner acquisition
        }
        inside(id, 1);
        owner = -1;
        system_unlock();
        if (syslock_counter() != 0)
            log.fail(id, "depth", "counter not 0 after the outermost unlock");
        log.returned[id] = 1;
    }
    // the C++ faces of the same lock: igris::syslock_guard (scoped) and igris::syslock (BasicLockable)
    void guard_body(int id, int shape)
    {
        if (shape == 0)
        {
            // two guards whose lifetimes overlap without nesting: the lock stays owned until the LAST one dies
            std::unique_ptr<igris::syslock_guard> a(new igris::syslock_guard); // outermost acquisition through a guard
            enter_outer(id);
            inside(id, 1);
            std::unique_ptr<igris::syslock_guard> b(new igris::syslock_guard); // re-entry by the owner
            inside(id, -1);
            a.reset();
            inside(id, -1); // b is still alive
            owner = -1;
            b.reset();
        }
        else if (shape == 1)
        {
            igris::syslock l;
            std::lock_guard<igris::syslock> g(l);
            enter_outer(id);
            inside(id, 1);
            {
                std::lock_guard<igris::syslock> g2(l); // the same BasicLockable object re-entered by its owner
                inside(id, -1);
            }
            inside(id, 1); // one acquisition is still outstanding
            owner = -1;
        }
        else
        {
            system_lock();
            enter_outer(id);
            {
                igris::syslock_guard g; // guard inside a plain critical section
                inside(id, -1);
                system_unlock(); // undoes ONE acquisition; the guard's is still outstanding
                inside(id, -1);
                owner = -1;
            }
        }
        if (syslock_counter() != 0)
            log.fail(id, "depth", mc::fmt("counter %d after every scope ended: an acquisition was never undone (or undone twice)", syslock_counter()).c_str());
        log.returned[id] = 1;
    }
    void setup() override
    {
        if (variant == 3)
        {
            sched::spawn([this] { guard_body(0, 0); }, "guards");
            sched::spawn([this] { guard_body(1, 1); }, "lockable");
            sched::spawn([this] { guard_body(2, 2); }, "guard_in_lock");
        }
        else if (variant == 0)
        {
            sched::spawn([this] { nesting_body(0, 2); }, "nest2");
            sched::spawn([this] { nesting_body(1, 1); }, "plain");
            sched::spawn([this] { nesting_body(2, 3); }, "nest3");
        }
        else if (variant == 1)
        {
            sched::spawn(
                [this] {
                    int id = 0;
                    system_lock();
                    enter_outer(id);
                    system_lock();
                    inside(id, 2);
                    owner = -1;
                    struct syslock_save_pair sv = system_lock_save(); // fully released
                    if (syslock_counter() > 0)
                        log.fail(id, "depth", "counter still positive after system_lock_save");
                    saved = 1;
                    sched::yield();
                    saved = 0;
                    system_lock_restore(sv);
                    enter_outer(id);
                    inside(id, 2);
                    system_unlock();
                    inside(id, 1);
                    owner = -1;
                    system_unlock();
                    log.returned[id] = 1;
                },
                "saver");
            for (int id = 1; id <= 2; id++)
                sched::spawn(
                    [this, id] {
                        system_lock();
                        enter_outer(id);
                        if (saved.load())
                            entered_during_save = 1;
                        inside(id, 1);
                        owner = -1;
                        system_unlock();
                        log.returned[id] = 1;
                    },
                    "contender");
        }
        else
        {
            nthreads = 2;
            sched::spawn(
                [this] {
                    system_lock();
                    enter_outer(0);
                    owner = -1;
                    struct syslock_save_pair sv = system_lock_save();
                    saved = 1;
                    sched::wait_until([this] { return b_done.load() != 0; }, "other thread got the lock");
                    system_lock_restore(sv);
                    enter_outer(0);
                    owner = -1;
                    system_unlock();
                    log.returned[0] = 1;
                },
                "saver");
            sched::spawn(
                [this] {
                    sched::wait_until([this] { return saved.load() != 0; }, "lock saved");
                    system_lock(); // must be admitted: save released every level
                    enter_outer(1);
                    owner = -1;
                    system_unlock();
                    b_done = 1;
                    log.returned[1] = 1;
                },
                "entrant");
        }
    }
    void check(const sched::Result &r) override
    {
        report_log();
        if (r.deadlock)
            mc::violation("C20." + name + ".deadlock", "threads blocked forever: %s", r.trace.c_str());
        for (int t = 0; t < nthreads && !r.deadlock; t++)
            if (!log.returned[t])
                mc::violation("C20." + name + ".not_finished", "thread %d did not finish", t);
        mc::outcome(mc::fmt("%s entered_during_save=%d", name.c_str(), entered_during_save.load()));
    }
};

// ------------------------------------------------------------------ W: wait queues
// The linux_waiter of a parked thread lives in the stack frame of wait_current_schedee().  Once that call
// has returned the frame is dead; overwriting the area right away turns a late access of the waker to the
// dead waiter (after the wake-up was delivered) into a write/write race the ThreadSanitizer build reports,
// instead of a silent scribble on whatever the stack holds next.
__attribute__((noinline)) static void scrub_dead_frames()
{
    char area[1536];
    char *p = area;
    asm volatile("" : "+r"(p) : : "memory"); // the address escapes: accesses to provably private locals are not instrumented
    // through a volatile function pointer: an inlined memset (rep stos) would carry no instrumentation
    static void *(*volatile fill)(void *, int, size_t) = memset;
    fill(p, 0x5a, sizeof area);
    asm volatile("" : : "r"(p) : "memory");
}

struct WaitProg : Program
{
    // variants:
    // 0 race    : 1 waiter, waker gated on "queue non-empty": unwait_one(7)
    // 1 fifo    : waiters A, B (B starts after A is queued); waker: unwait_one(100), unwait_one(101) each gated on non-empty
    // 2 prio    : A normal, B prioritised, waker gated on "both queued": unwait_one(100) -> B, unwait_one(101) -> A
    // 3 all     : A, B; waker gated on both queued: unwait_all(55)
    // 4 one_of_2: A, B (B after A); waker gated on both queued: ONE unwait_one(100): A returns, B must stay parked
    // 5 all_race: A, B free; waker: gate non-empty, unwait_all(55); gate "B not returned => non-empty or done" second unwait_all(56)
    // 7 3w2k    : three waiters, two wakers racing each other (X: two gated unwait_one, Y: one), then X sweeps stragglers with
    //             unwait_all; beyond what two wakers' gates can promise, every waiter still returns exactly once and no
    //             unwait_one value reaches two waiters
    // 6 early   : 1 waiter; waker issues unwait_one(1) and unwait_all(2) UNGATED (the queue may still be empty: a wake over an
    //             empty queue is a no-op that leaves the system lock free), then a gated unwait_one(3)
    int variant;
    std::unique_ptr<igris::dlist_base> head;
    std::atomic<int> woken_calls{0};
    std::atomic<int> b_parked_at_quiescence{-1}, a_back_at_quiescence{-1};
    WaitProg(int v) : variant(v)
    {
        static const char *nm[] = {"W_race", "W_fifo", "W_prio", "W_all", "W_one_of_two", "W_all_race", "W_early_wake", "W_3w2k", "W_prio_any_nonzero"};
        name = nm[v];
    }
    void waiter(int id, int prio)
    {
        void *fut = (void *)-1;
        int rc = wait_current_schedee(head.get(), prio, &fut);
        scrub_dead_frames();
        log.value[id] = (long)(intptr_t)fut;
        log.stamp[id] = log.clock++;
        log.returned[id] += 1;
        if (rc != 0)
            log.fail(id, "wait_status", "wait_current_schedee returned non-zero");
    }
    bool queued(size_t n) { return head->size() >= n; }
    void setup() override
    {
        head.reset(new igris::dlist_base);
        auto nonempty = [this] { return !head->empty(); };
        auto both = [this] { return queued(2); };
        switch (variant)
        {
        case 0:
            sched::spawn([this] { waiter(0, 0); }, "waiter");
            sched::spawn(
                [this, nonempty] {
                    sched::wait_until(nonempty, "queue non-empty");
                    unwait_one(head.get(), FUT + 7);
                    log.returned[1] = 1;
                },
                "waker");
            break;
        case 1:
        case 4:
            sched::spawn([this] { waiter(0, 0); }, "waiterA");
            sched::spawn(
                [this] {
                    // B starts once A has been queued (or has already been served)
                    sched::wait_until([this] { return !head->empty() || log.returned[0].load() != 0; }, "A queued");
                    waiter(1, 0);
                },
                "waiterB");
            if (variant == 1)
                sched::spawn(
                    [this, nonempty] {
                        sched::wait_until(nonempty, "queue non-empty");
                        unwait_one(head.get(), FUT + 100);
                        sched::wait_until(nonempty, "queue non-empty again");
                        unwait_one(head.get(), -(FUT + 101));
                        log.returned[2] = 1;
                    },
                    "waker");
            else
                sched::spawn(
                    [this, both] {
                        sched::wait_until(both, "both queued");
                        unwait_one(head.get(), FUT + 100);
                        log.returned[2] = 1;
                        // nobody else may be woken: once the system is quiescent B must still be parked
                        sched::wait_idle();
                        b_parked_at_quiescence = (log.returned[1].load() == 0);
                        a_back_at_quiescence = (log.returned[0].load() == 1);
                        unwait_one(head.get(), FUT + 200); // release B so that the execution ends
                    },
                    "waker");
            break;
        case 2:
        case 8: // the same with a priority value that is not the WAIT_PRIORITY constant: any non-zero value prioritises
            sched::spawn([this] { waiter(0, 0); }, "waiterA");
            sched::spawn([this] { waiter(1, variant == 2 ? WAIT_PRIORITY : 2); }, "waiterB_prio");
            sched::spawn(
                [this, both, nonempty] {
                    sched::wait_until(both, "both queued");
                    unwait_one(head.get(), FUT + 100);
                    sched::wait_until(nonempty, "one left");
                    unwait_one(head.get(), -(FUT + 101));
                    log.returned[2] = 1;
                },
                "waker");
            break;
        case 3:
            sched::spawn([this] { waiter(0, 0); }, "waiterA");
            sched::spawn([this] { waiter(1, 0); }, "waiterB");
            sched::spawn(
                [this, both] {
                    sched::wait_until(both, "both queued");
                    unwait_all(head.get(), FUT + 55);
                    log.returned[2] = 1;
                },
                "waker");
            break;
        case 7:
        {
            for (int w = 0; w < 3; w++)
                sched::spawn([this, w] { waiter(w, 0); }, w == 0 ? "waiterA" : w == 1 ? "waiterB" : "waiterC");
            auto all_back = [this] { return log.returned[0].load() && log.returned[1].load() && log.returned[2].load(); };
            auto gate = [this, all_back] { return !head->empty() || all_back(); };
            sched::spawn(
                [this, gate, all_back] {
                    for (int k = 1; k <= 2; k++)
                    {
                        sched::wait_until(gate, "somebody queued or everybody back");
                        unwait_one(head.get(), FUT + k); // may find the queue emptied by the other waker: a no-op
                    }
                    while (!all_back())
                    {
                        sched::wait_until(gate, "straggler queued or everybody back");
                        if (!all_back())
                            unwait_all(head.get(), FUT + 9);
                    }
                    log.returned[3] = 1;
                },
                "wakerX");
            sched::spawn(
                [this, gate] {
                    sched::wait_until(gate, "somebody queued or everybody back");
                    unwait_one(head.get(), FUT + 3);
                    log.returned[4] = 1;
                },
                "wakerY");
            break;
        }
        case 6:
            sched::spawn([this] { waiter(0, 0); }, "waiter");
            sched::spawn(
                [this] {
                    unwait_one(head.get(), FUT + 1);
                    if (syslock_counter() != 0)
                        log.fail(1, "lock_left_held", "unwait_one returned with the system lock still held by the caller");
                    unwait_all(head.get(), FUT + 2);
                    if (syslock_counter() != 0)
                        log.fail(1, "lock_left_held", "unwait_all returned with the system lock still held by the caller");
                    sched::wait_until([this] { return !head->empty() || log.returned[0].load() != 0; }, "waiter queued or already back");
                    unwait_one(head.get(), FUT + 3);
                    if (syslock_counter() != 0)
                        log.fail(1, "lock_left_held", "unwait_one returned with the system lock still held by the caller");
                    log.returned[1] = 1;
                },
                "waker");
            break;
        case 5:
            sched::spawn([this] { waiter(0, 0); }, "waiterA");
            sched::spawn([this] { waiter(1, 0); }, "waiterB");
            sched::spawn(
                [this, nonempty] {
                    sched::wait_until(nonempty, "queue non-empty");
                    unwait_all(head.get(), FUT + 55);
                    // whoever was not queued yet is served by a second round
                    sched::wait_until([this] { return !head->empty() || (log.returned[0] && log.returned[1]); },
                                      "straggler queued or everybody back");
                    unwait_all(head.get(), -(FUT + 56));
                    log.returned[2] = 1;
                },
                "waker");
            break;
        }
    }
    void want(int id, long v)
    {
        if (log.returned[id] != 1)
            mc::violation("C20." + name + ".wake_count", "waiter %d returned %d times, want exactly once", id, log.returned[id].load());
        else if (log.value[id] != v)
            mc::violation("C20." + name + ".wrong_future", "waiter %d woke with future %ld, want %ld", id, log.value[id].load(), v);
    }
    void check(const sched::Result &r) override
    {
        report_log();
        if (r.deadlock)
        {
            mc::violation("C20." + name + ".lost_wakeup", "a thread is blocked forever: %s", r.trace.c_str());
            return;
        }
        switch (variant)
        {
        case 0:
            want(0, FUT + 7);
            break;
        case 1:
            want(0, FUT + 100);
            want(1, -(FUT + 101));
            break;
        case 4:
            // exactly one wake was issued over [A,B]: A (longest waiting) returns with it; at quiescence B is
            // still parked (nobody is woken spuriously); the clean-up wake then reaches B
            want(0, FUT + 100);
            want(1, FUT + 200);
            if (b_parked_at_quiescence != 1 || a_back_at_quiescence != 1)
                mc::violation("C20." + name + ".spurious_or_lost", "at quiescence after ONE unwait_one: A back=%d, B still parked=%d (want 1,1)",
                              a_back_at_quiescence.load(), b_parked_at_quiescence.load());
            break;
        case 2:
        case 8:
            want(1, FUT + 100); // the prioritised waiter is served first
            want(0, -(FUT + 101));
            break;
        case 3:
            want(0, FUT + 55);
            want(1, FUT + 55);
            break;
        case 7:
        {
            int uses[10] = {0};
            for (int id = 0; id < 3; id++)
            {
                long v = log.value[id] - FUT;
                if (log.returned[id] != 1 || !(v == 1 || v == 2 || v == 3 || v == 9))
                    mc::violation("C20." + name + ".wrong_future", "waiter %d returned %d times with %ld", id, log.returned[id].load(), log.value[id].load());
                else
                    uses[v]++;
            }
            for (int v = 1; v <= 3; v++)
                if (uses[v] > 1)
                    mc::violation("C20." + name + ".one_wake_two_waiters", "the value of ONE unwait_one call (%d) was delivered to %d waiters", v, uses[v]);
            if (!head->empty())
                mc::violation("C20." + name + ".queue_not_empty", "the wait queue still holds a node after every waiter returned");
            mc::outcome(mc::fmt("%s C=%ld@%d", name.c_str(), log.value[2].load(), log.stamp[2].load()));
            break;
        }
        case 6:
            if (log.returned[0] != 1 || log.value[0] < FUT + 1 || log.value[0] > FUT + 3)
                mc::violation("C20." + name + ".wrong_future", "the waiter returned %d times with %ld, want once with one of the three wake values",
                              log.returned[0].load(), log.value[0].load());
            if (!head->empty())
                mc::violation("C20." + name + ".queue_not_empty", "the wait queue still holds a node after the only waiter returned");
            break;
        case 5:
            for (int id = 0; id < 2; id++)
                if (log.returned[id] != 1 || (log.value[id] != FUT + 55 && log.value[id] != -(FUT + 56)))
                    mc::violation("C20." + name + ".wrong_future", "waiter %d returned %d times with %ld", id, log.returned[id].load(),
                                  log.value[id].load());
            break;
        }
        mc::outcome(mc::fmt("%s A=%ld@%d B=%ld@%d", name.c_str(), log.value[0].load(), log.stamp[0].load(), log.value[1].load(),
                            log.stamp[1].load()));
    }
};

// ------------------------------------------------------------------ Q: safe_queue
struct QueueProg : Program
{
    int consumers;
    std::unique_ptr<igris::safe_queue<int>> q;
    std::atomic<int> pushed{0}, claimed{0};
    std::atomic<int> got[2][4];
    std::atomic<int> ngot[2];
    QueueProg(int c) : consumers(c)
    {
        name = c == 1 ? "Q_2p1c" : "Q_2p2c";
        for (auto &a : got)
            for (auto &b : a)
                b = -1;
        ngot[0] = ngot[1] = 0;
    }
    void setup() override
    {
        q.reset(new igris::safe_queue<int>);
        for (int p = 0; p < 2; p++)
            sched::spawn(
                [this, p] {
                    for (int i = 0; i < 2; i++)
                    {
                        q->push(p * 10 + i);
                        pushed++;
                    }
                    log.returned[p] = 1;
                },
                "producer");
        int per = 4 / consumers;
        for (int c = 0; c < consumers; c++)
            sched::spawn(
                [this, c, per] {
                    for (int i = 0; i < per; i++)
                    {
                        // pop() on an empty queue is outside the API: take only what was pushed
                        sched::wait_until([this] { return pushed.load() > claimed.load(); }, "an unclaimed item exists");
                        claimed++;
                        int v = q->pop();
                        got[c][ngot[c]++] = v;
                    }
                    log.returned[2 + c] = 1;
                },
                "consumer");
    }
    void check(const sched::Result &r) override
    {
        report_log();
        if (r.deadlock)
        {
            mc::violation("C20." + name + ".deadlock", "blocked forever: %s", r.trace.c_str());
            return;
        }
        std::vector<int> all;
        std::string oc;
        for (int c = 0; c < consumers; c++)
        {
            int last[2] = {-1, -1};
            for (int i = 0; i < ngot[c]; i++)
            {
                int v = got[c][i];
                all.push_back(v);
                oc += mc::fmt("%d,", v);
                int p = v / 10;
                if (p >= 0 && p < 2)
                {
                    if (v <= last[p])
                        mc::violation("C20." + name + ".reordered", "consumer %d saw producer %d's items out of order (%s)", c, p, oc.c_str());
                    last[p] = v;
                }
            }
            oc += "|";
        }
        std::sort(all.begin(), all.end());
        std::vector<int> want = {0, 1, 10, 11};
        if (all != want)
            mc::violation("C20." + name + ".lost_or_duplicated", "popped multiset {%s} differs from pushed {0,1,10,11}", oc.c_str());
        if (q->size() != 0)
            mc::violation("C20." + name + ".size", "queue not empty after all pops");
        mc::outcome(name + " " + oc);
    }
};

// streaming: one producer, one consumer that keeps up, items as large as one storage node of the underlying
// container - every push and every pop then changes the container's bookkeeping (node map, first/last node), not just
// one end of a shared node, so "push and pop never run inside the container at the same time" is observable
struct BigItem
{
    int v;
    char pad[700];
    BigItem(int x = -1) : v(x) { memset(pad, x & 0x7f, sizeof pad); }
    bool intact() const
    {
        for (char c : pad)
            if (c != (char)(v & 0x7f))
                return false;
        return true;
    }
};
struct QueueStreamProg : Program
{
    static const int N = 7; // more pushes than the container's initial node map holds behind its start
    std::unique_ptr<igris::safe_queue<BigItem>> q;
    std::atomic<int> pushed{0};
    std::atomic<int> got[N];
    QueueStreamProg()
    {
        name = "Q_stream";
        for (auto &g : got)
            g = -2;
    }
    void setup() override
    {
        q.reset(new igris::safe_queue<BigItem>);
        sched::spawn(
            [this] {
                for (int i = 0; i < N; i++)
                {
                    q->push(BigItem(i));
                    pushed++;
                }
                log.returned[0] = 1;
            },
            "producer");
        sched::spawn(
            [this] {
                for (int i = 0; i < N; i++)
                {
                    sched::wait_until([this, i] { return pushed.load() > i; }, "an unclaimed item exists");
                    BigItem b = q->pop();
                    got[i] = b.intact() ? b.v : -3;
                }
                log.returned[1] = 1;
            },
            "consumer");
    }
    void check(const sched::Result &r) override
    {
        report_log();
        if (r.deadlock)
        {
            mc::violation("C20." + name + ".deadlock", "blocked forever: %s", r.trace.c_str());
            return;
        }
        std::string oc;
        bool ok = true;
        for (int i = 0; i < N; i++)
        {
            oc += mc::fmt("%d,", got[i].load());
            ok = ok && got[i] == i;
        }
        if (!ok)
            mc::violation("C20." + name + ".lost_or_duplicated", "one producer pushed 0..%d, the consumer popped {%s} (-3 = garbled item)", N - 1, oc.c_str());
        if (q->size() != 0)
            mc::violation("C20." + name + ".size", "queue not empty after all pops");
        mc::outcome(name + " " + oc);
    }
};

// size() observed concurrently with pushes and pops: it must be one of the values the queue really had
struct QueueSizeProg : Program
{
    std::unique_ptr<igris::safe_queue<int>> q;
    std::atomic<int> pushed{0}, popped{0};
    std::atomic<int> seen[3], lo[3], hi[3];
    QueueSizeProg()
    {
        name = "Q_size";
        for (int i = 0; i < 3; i++)
        {
            seen[i] = -1;
            lo[i] = 0;
            hi[i] = 0;
        }
    }
    void setup() override
    {
        q.reset(new igris::safe_queue<int>{7}); // the initializer-list constructor: one item already queued
        sched::spawn(
            [this] {
                q->push(1);
                pushed++;
                q->push(2);
                pushed++;
                log.returned[0] = 1;
            },
            "producer");
        sched::spawn(
            [this] {
                for (int i = 0; i < 3; i++)
                {
                    // bounds that hold whatever the interleaving: pushes finished before / started before the call
                    int p0 = pushed.load(), c0 = popped.load();
                    int v = (int)q->size();
                    int p1 = pushed.load(), c1 = popped.load();
                    seen[i] = v;
                    lo[i] = 1 + p0 - c1 - 1; // a pop may be in flight
                    hi[i] = 1 + p1 + 1 - c0; // a push may be in flight
                }
                log.returned[1] = 1;
            },
            "observer");
        sched::spawn(
            [this] {
                int v = q->pop(); // the pre-queued item (or, wrongly, something else)
                popped++;
                if (v != 7)
                    log.fail(2, "reordered", "the item queued by the constructor did not come out first");
                log.returned[2] = 1;
            },
            "consumer");
    }
    void check(const sched::Result &r) override
    {
        report_log();
        if (r.deadlock)
        {
            mc::violation("C20." + name + ".deadlock", "blocked forever: %s", r.trace.c_str());
            return;
        }
        for (int i = 0; i < 3; i++)
            if (seen[i] < std::max(0, lo[i].load()) || seen[i] > hi[i])
                mc::violation("C20." + name + ".size_value", "size() call %d returned %d, possible range [%d,%d]", i, seen[i].load(),
                              std::max(0, lo[i].load()), hi[i].load());
        if (q->size() != 2)
            mc::violation("C20." + name + ".size", "final size %zu, want 2", q->size());
        mc::outcome(mc::fmt("Q_size %d %d %d", seen[0].load(), seen[1].load(), seen[2].load()));
    }
};

// ------------------------------------------------------------------ S: many operations on the same objects, one thread
// The schedule explorer runs short programs; state that only grows with use (a nesting counter that is not taken
// back on some path, an index inside the queue) needs many operations on the SAME lock and the SAME queue.  No
// scheduler here: one thread, the real pthread primitives, one fixed history.
static void soak_single_thread()
{
    int which = mc::choose(3);
    const int steps = mc::thorough() ? 1000000 : 150000;
    mc::nontrivial();
    if (which == 0)
    {
        mc::describe("system lock: %d nest/un-nest cycles with save/restore on one thread", steps);
        mc::crash_context("C20.soak.syslock.crash");
        for (int i = 0; i < steps; i++)
        {
            int depth = 1 + i % 4;
            for (int d = 1; d <= depth; d++)
            {
                system_lock();
                if (syslock_counter() != d)
                {
                    mc::violation("C20.soak.syslock.depth", "cycle %d: counter %d after %d nested acquisitions", i, syslock_counter(), d);
                    return;
                }
            }
            if (i % 5 == 0)
            {
                struct syslock_save_pair sv = system_lock_save();
                if (syslock_counter() > 0)
                {
                    mc::violation("C20.soak.syslock.save", "cycle %d: counter %d after system_lock_save", i, syslock_counter());
                    return;
                }
                system_lock_restore(sv);
                if (syslock_counter() != depth)
                {
                    mc::violation("C20.soak.syslock.restore", "cycle %d: counter %d after restore of depth %d", i, syslock_counter(), depth);
                    return;
                }
            }
            {
                igris::syslock_guard g;
                if (syslock_counter() < depth)
                {
                    mc::violation("C20.soak.syslock.guard", "cycle %d: counter %d inside a guard at depth %d", i, syslock_counter(), depth);
                    return;
                }
            }
            for (int d = depth; d >= 1; d--)
                system_unlock();
            if (syslock_counter() != 0)
            {
                mc::violation("C20.soak.syslock.depth", "cycle %d: counter %d after undoing every acquisition", i, syslock_counter());
                return;
            }
        }
        mc::outcome("syslock soak");
    }
    else if (which == 2)
    {
        mc::describe("igris::semaphore: %d wait/post cycles on one semaphore, value observed through getvalue()", steps);
        mc::crash_context("C20.soak.semaphore.crash");
        igris::semaphore s(1), s3(3);
        for (int i = 0; i < steps; i++)
        {
            s.wait();
            int v0 = s.getvalue();
            s.post();
            int v1 = s.getvalue();
            // a counting semaphore: take two of three, look, give them back
            s3.wait();
            s3.trywait();
            int w1 = s3.getvalue();
            s3.post();
            s3.post();
            int w3 = s3.getvalue();
            if (v0 != 0 || v1 != 1 || w1 != 1 || w3 != 3)
            {
                mc::violation("C20.soak.semaphore.value", "cycle %d: binary semaphore %d after wait / %d after post (want 0/1), counting semaphore %d / %d (want 1/3)", i,
                              v0, v1, w1, w3);
                return;
            }
        }
        mc::outcome("semaphore soak");
    }
    else
    {
        mc::describe("safe_queue: %d push/pop operations on one queue, fill level sweeping 0..45", steps);
        mc::crash_context("C20.soak.safe_queue.crash");
        igris::safe_queue<int> q;
        std::vector<int> ref;
        size_t head = 0;
        int next = 0;
        for (int i = 0; i < steps; i++)
        {
            size_t fill = ref.size() - head, target = (size_t)((i / 7) % 10 + ((i / 5000) % 4) * 12); // sweeps 0..9, 12..21, 24..33, 36..45
            if (fill < target || fill == 0)
            {
                q.push(next);
                ref.push_back(next++);
            }
            else
            {
                int v = q.pop();
                if (v != ref[head])
                {
                    mc::violation("C20.soak.safe_queue.order", "operation %d: popped %d, want %d", i, v, ref[head]);
                    return;
                }
                head++;
            }
            if (q.size() != ref.size() - head)
            {
                mc::violation("C20.soak.safe_queue.size", "operation %d: size() %zu, want %zu", i, q.size(), ref.size() - head);
                return;
            }
        }
        mc::outcome("safe_queue soak");
    }
    mc::more_cases(steps, steps);
}

// ------------------------------------------------------------------ registration
static void add_one(const std::string &pname, std::function<Program *()> make, int b, int spurious, bool thorough_only, bool post_release = false);
static void add_prog(const std::string &pname, std::function<Program *()> make, int qbound, int tbound)
{
    // bound qbound contains every smaller bound; bound 0 is kept as the cheap sanity level
    add_one(pname, make, 0, 0, false);
    add_one(pname, make, qbound, 0, false);
    if (tbound != qbound)
        add_one(pname, make, tbound, 0, true);
}
static void add_one(const std::string &pname, std::function<Program *()> make, int b, int spurious, bool thorough_only, bool post_release)
{
    {
        {
        mc::add_check(spurious ? mc::fmt("%s.pb%d.spurious%d", pname.c_str(), b, spurious) : post_release ? mc::fmt("%s.pb%d.after_release", pname.c_str(), b) : mc::fmt("%s.pb%d", pname.c_str(), b), [=] {
            int shard = mc::choose(NSHARD);
            sched::Options o;
            o.preemption_bound = b;
            o.spurious_bound = spurious;
            o.post_release_points = post_release;
            o.shard = shard;
            o.nshard = NSHARD;
            o.shard_depth = 6;
            mc::crash_context("C20.%s.race_or_crash", pname.c_str());
            mc::describe("%s bound=%d (the execution died before it completed)", pname.c_str(), b);
            sched::begin(o);
            std::unique_ptr<Program> p(make());
            p->setup();
            sched::Result r = sched::run();
            if (sched::leaked_threads() > 60)
                mc::request_restart();
            if (r.skipped)
            {
                if (!r.deadlock && !r.horizon_hit)
                    p.reset();
                else
                    (void)p.release(); // parked threads still reference it
                throw mc::Skip();
            }
            mc::describe("%s bound=%d preemptions=%d steps=%d: %s", pname.c_str(), b, r.preemptions, r.steps, r.trace.c_str());
            if (r.preemptions >= 1 || r.spurious >= 1)
                mc::nontrivial();
            if (r.horizon_hit)
                mc::violation("C20." + pname + ".livelock", "no termination within the step horizon: %s", r.trace.c_str());
            for (auto &e : r.errors)
            {
                std::string kind = e.substr(0, e.find(':'));
                mc::violation("C20." + pname + "." + kind, "%s :: %s", e.c_str(), r.trace.c_str());
            }
            p->check(r);
            if (r.deadlock || r.horizon_hit)
                (void)p.release(); // parked threads still reference the program state
        }, thorough_only);
        }
    }
}

MC_INIT
{
    mc::add_check("soak_single_thread", soak_single_thread);
    for (int v = 0; v < 4; v++)
    {
        add_prog(LockProg(v).name, [v] { return new LockProg(v); }, 2, 3);
        // + a scheduling point right after every release: bookkeeping a thread does AFTER giving the lock away
        add_one(LockProg(v).name, [v] { return new LockProg(v); }, 2, 0, false, true);
    }
    for (int v = 0; v < 7; v++)
    {
        add_prog(WaitProg(v).name, [v] { return new WaitProg(v); }, 2, 3);
        add_one(WaitProg(v).name, [v] { return new WaitProg(v); }, 2, 1, true); // + one spurious condvar wake-up
    }
    // five threads: every schedule without preemption (a switch only where the running thread blocks, yields or ends;
    // ~18 000 executions), thorough only - one preemption already costs millions of executions
    add_one(WaitProg(7).name, [] { return new WaitProg(7); }, 0, 0, true);
    add_prog(WaitProg(8).name, [] { return new WaitProg(8); }, 2, 3);
    add_prog("Q_size", [] { return new QueueSizeProg(); }, 2, 3);
    add_prog("Q_stream", [] { return new QueueStreamProg(); }, 2, 3);
    for (int c = 1; c <= 2; c++)
        add_prog(QueueProg(c).name, [c] { return new QueueProg(c); }, c == 1 ? 2 : 1, c == 1 ? 3 : 2);
}
MC_MAIN
