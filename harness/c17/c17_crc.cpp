// C17 — CRC routines equal their mathematical definitions and read only the given bytes.
// Shape I: exhaustive enumeration of (seed, message) spaces against ONE generic
// bit-at-a-time polynomial-division reference, on exactly-sized ASan heap copies.
#include "mc.hpp"
#include "guard.hpp"
#include <cstdlib>
#include <cstring>
#include <igris/util/crc.h>
#include <vector>

typedef std::vector<uint8_t> Bytes;

// Generic CRC register: `width` bits, MSB-first division by `poly` (without the top term).
// bits are fed one at a time; reflected CRCs feed bytes LSB-first and reflect the register.
struct BitCrc
{
    int width;
    uint64_t poly, reg;
    void bit(int b)
    {
        uint64_t top = (reg >> (width - 1)) & 1;
        reg = (reg << 1) & ((width == 64) ? ~0ull : ((1ull << width) - 1));
        if (top ^ (uint64_t)(b & 1))
            reg ^= poly;
    }
    void byte_msb(uint8_t c)
    {
        for (int i = 7; i >= 0; i--)
            bit((c >> i) & 1);
    }
    void byte_lsb(uint8_t c)
    {
        for (int i = 0; i < 8; i++)
            bit((c >> i) & 1);
    }
};
static uint64_t reflect(uint64_t v, int w)
{
    uint64_t r = 0;
    for (int i = 0; i < w; i++)
        if (v >> i & 1)
            r |= 1ull << (w - 1 - i);
    return r;
}
static uint8_t ref_dallas(const uint8_t *d, size_t n, uint8_t seed)
{ // CRC-8/MAXIM: x^8+x^5+x^4+1, reflected in and out
    BitCrc c{8, 0x31, reflect(seed, 8)};
    for (size_t i = 0; i < n; i++)
        c.byte_lsb(d[i]);
    return (uint8_t)reflect(c.reg, 8);
}
static uint8_t ref_strm8(const uint8_t *d, size_t n, uint8_t seed)
{ // x^8+x^5+x^4+1 MSB first (gstuff)
    BitCrc c{8, 0x31, seed};
    for (size_t i = 0; i < n; i++)
        c.byte_msb(d[i]);
    return (uint8_t)c.reg;
}
static uint16_t ref_crc16(const uint8_t *d, size_t n, uint16_t seed)
{ // CCITT x^16+x^12+x^5+1 MSB first
    BitCrc c{16, 0x1021, seed};
    for (size_t i = 0; i < n; i++)
        c.byte_msb(d[i]);
    return (uint16_t)c.reg;
}
static uint8_t ref_crc7(const uint8_t *d, size_t n)
{ // MMC x^7+x^3+1 MSB first, init 0
    BitCrc c{7, 0x09, 0};
    for (size_t i = 0; i < n; i++)
        c.byte_msb(d[i]);
    return (uint8_t)c.reg;
}
static uint32_t ref_crc32(const uint8_t *d, size_t n, uint32_t seed)
{ // 0x04C11DB7, MSB first over little-endian 32-bit words, a 1..3 byte tail is a zero-extended word
    BitCrc c{32, 0x04C11DB7, seed};
    for (size_t i = 0; i < n; i += 4)
    {
        uint8_t w[4] = {0, 0, 0, 0};
        for (size_t k = 0; k < 4 && i + k < n; k++)
            w[k] = d[i + k];
        for (int k = 3; k >= 0; k--)
            c.byte_msb(w[k]);
    }
    return (uint32_t)c.reg;
}

// exactly-sized heap copy at a chosen misalignment: [p, p+n) ends at the ASan redzone
struct Exact
{
    uint8_t *blk, *p;
    size_t n;
    Exact(const uint8_t *src, size_t n_, int align) : n(n_)
    {
        blk = (uint8_t *)malloc(n + align + (n + align == 0));
        p = blk + align;
        if (n)
            memcpy(p, src, n);
    }
    ~Exact() { free(blk); }
};

static int g_alphabet32[32];
static void check_all(const uint8_t *m, size_t n, int align, uint32_t seed, const char *fam)
{
    Exact e(m, n, align);
    std::string hx = mc::hex(m, n > 12 ? 12 : n);
    uint8_t s8 = (uint8_t)seed;
    uint16_t s16 = (uint16_t)(seed * 0x0101u ^ (seed >> 8));
    uint32_t s32 = seed * 0x01010101u ^ (seed >> 8) * 0x10001u;
    if (n <= 255)
    {
        mc::crash_context("C17.crc8.memory");
        uint8_t a = igris_crc8(e.p, (uint8_t)n, s8);
        mc::crash_context("C17.crc8_table.memory");
        uint8_t b = igris_crc8_table(e.p, (uint8_t)n, s8);
        uint8_t r = ref_dallas(m, n, s8);
        mc::outcome(mc::fmt("crc8=%02x", a));
        if (a != r)
            mc::violation("C17.crc8.value", "%s len=%zu seed=%02x msg=%s.. got %02x want %02x", fam, n, s8, hx.c_str(), a, r);
        if (b != r)
            mc::violation("C17.crc8_table.value", "%s len=%zu seed=%02x msg=%s.. got %02x want %02x", fam, n, s8, hx.c_str(), b, r);
        if (a != b)
            mc::violation("C17.crc8_vs_table", "%s len=%zu seed=%02x msg=%s.. bitserial %02x table %02x", fam, n, s8, hx.c_str(), a, b);
        mc::crash_context("C17.mmc_crc7.memory");
        uint8_t c7 = igris_mmc_crc7(e.p, (uint8_t)n);
        uint8_t r7 = ref_crc7(m, n);
        if (c7 != r7)
            mc::violation("C17.mmc_crc7.value", "%s len=%zu msg=%s.. got %02x want %02x", fam, n, hx.c_str(), c7, r7);
    }
    {
        mc::crash_context("C17.strmcrc8.memory");
        uint8_t c = s8;
        for (size_t i = 0; i < n; i++)
            igris_strmcrc8(&c, (char)e.p[i]);
        uint8_t r = ref_strm8(m, n, s8);
        if (c != r)
            mc::violation("C17.strmcrc8.value", "%s len=%zu seed=%02x msg=%s.. got %02x want %02x", fam, n, s8, hx.c_str(), c, r);
        uint8_t z = c;
        igris_strmcrc8(&z, (char)c);
        if (z != 0)
            mc::violation("C17.strmcrc8.self_check", "%s len=%zu seed=%02x msg=%s..: crc of message||crc = %02x, want 0", fam, n, s8, hx.c_str(), z);
    }
    if (n <= 65535)
    {
        mc::crash_context("C17.crc16.memory");
        uint16_t c = igris_crc16(e.p, (uint16_t)n, s16);
        uint16_t r = ref_crc16(m, n, s16);
        if (c != r)
            mc::violation("C17.crc16.value", "%s len=%zu seed=%04x msg=%s.. got %04x want %04x", fam, n, s16, hx.c_str(), c, r);
    }
    {
        mc::crash_context("C17.crc32.memory.len%%4=%zu", n % 4);
        uint32_t c = igris_crc32(e.p, (uint32_t)n, s32);
        uint32_t r = ref_crc32(m, n, s32);
        if (c != r)
            mc::violation("C17.crc32.value", "%s len=%zu seed=%08x msg=%s.. got %08x want %08x", fam, n, s32, hx.c_str(), c, r);
    }
    mc::crash_context("C17.harness");
}

// chaining: every split point, running value as seed
static void check_split(const uint8_t *m, size_t n, uint32_t seed)
{
    uint8_t s8 = (uint8_t)seed;
    uint16_t s16 = (uint16_t)(seed * 0x0101u);
    uint32_t s32 = seed * 0x01010101u;
    std::string hx = mc::hex(m, n);
    for (size_t k = 0; k <= n; k++)
    {
        Exact a(m, k, 0), b(m + k, n - k, 0), w(m, n, 0);
        mc::crash_context("C17.crc8.memory");
        if (igris_crc8(b.p, n - k, igris_crc8(a.p, k, s8)) != igris_crc8(w.p, n, s8))
            mc::violation("C17.crc8.chain", "msg=%s split=%zu seed=%02x", hx.c_str(), k, s8);
        mc::crash_context("C17.crc8_table.memory");
        if (igris_crc8_table(b.p, n - k, igris_crc8_table(a.p, k, s8)) != igris_crc8_table(w.p, n, s8))
            mc::violation("C17.crc8_table.chain", "msg=%s split=%zu seed=%02x", hx.c_str(), k, s8);
        mc::crash_context("C17.crc16.memory");
        if (igris_crc16(b.p, n - k, igris_crc16(a.p, k, s16)) != igris_crc16(w.p, n, s16))
            mc::violation("C17.crc16.chain", "msg=%s split=%zu seed=%04x", hx.c_str(), k, s16);
        mc::crash_context("C17.crc32.memory.len%%4=%zu", std::max(k % 4, (n - k) % 4));
        uint32_t c1 = igris_crc32(b.p, n - k, igris_crc32(a.p, k, s32)), c2 = igris_crc32(w.p, n, s32);
        if (c1 != c2)
            mc::violation(k % 4 == 0 ? "C17.crc32.chain.word_split" : "C17.crc32.chain.nonword_split",
                          "msg=%s split=%zu seed=%08x chained %08x one-shot %08x", hx.c_str(), k, s32, c1, c2);
        mc::crash_context("C17.harness");
    }
}

MC_INIT
{
    for (int i = 0; i < 32; i++)
        g_alphabet32[i] = (i < 8) ? (1 << i) : (i < 16 ? 0xFF ^ (1 << (i - 8)) : (i * 37 + 11) & 0xFF);
    g_alphabet32[16] = 0;
    g_alphabet32[17] = 0xFF;
    g_alphabet32[18] = 0x31;
    g_alphabet32[19] = 0x8C;

    // (a) all (seed, byte) pairs and all short messages, 8-bit routines + crc16/32 with derived seeds
    mc::add_check("short_messages_all_bytes", [] {
        int b0 = mc::choose(256);
        int seedsel = mc::choose(2);
        int len = 1 + mc::choose(3);
        uint32_t seed = seedsel ? 0xFF : 0;
        mc::describe("messages of length %d starting with %02x, seed %02x", len, b0, seed);
        uint8_t m[3] = {(uint8_t)b0, 0, 0};
        if (len == 1)
        {
            // every seed for the single byte: all (seed, byte) pairs
            for (int s = 0; s < 256; s++)
                check_all(m, 1, 0, s, "pair");
            mc::more_cases(255);
        }
        else if (len == 2)
        {
            for (int b1 = 0; b1 < 256; b1++)
            {
                m[1] = b1;
                check_all(m, 2, 0, seed, "len2");
            }
            mc::more_cases(255, 255);
            mc::nontrivial();
        }
        else
        {
            bool full = mc::thorough();
            int n1 = 256, n2 = full ? 256 : 32;
            for (int b1 = 0; b1 < n1; b1++)
                for (int i2 = 0; i2 < n2; i2++)
                {
                    m[1] = b1;
                    m[2] = full ? i2 : g_alphabet32[i2];
                    check_all(m, 3, 0, seed, "len3");
                }
            mc::more_cases((uint64_t)n1 * n2 - 1, (uint64_t)n1 * n2 - 1);
            mc::nontrivial();
        }
    });

    // (b) crc16: all (seed16, byte) pairs
    mc::add_check("crc16_all_seed_byte_pairs", [] {
        int b = mc::choose(256);
        int hi = mc::choose(256);
        mc::describe("byte %02x, seeds %02x00..%02xff", b, hi, hi);
        uint8_t m = b;
        Exact e(&m, 1, 0);
        mc::crash_context("C17.crc16.memory");
        for (int lo = 0; lo < 256; lo++)
        {
            uint16_t s = hi << 8 | lo;
            uint16_t c = igris_crc16(e.p, 1, s), r = ref_crc16(&m, 1, s);
            if (c != r)
                mc::violation("C17.crc16.value", "pair byte=%02x seed=%04x got %04x want %04x", b, s, c, r);
        }
        mc::more_cases(255);
    });

    // (c) generator family at every length 0..255: zero, FF, counting, each single-bit message.
    // CRCs are affine over GF(2): these pin the whole function at each length.
    mc::add_check("affine_basis_every_length", [] {
        int len = mc::choose(256);
        int fam = mc::choose(3 + 8 * len);
        int seedsel = mc::choose(3);
        uint32_t seed = seedsel == 0 ? 0 : seedsel == 1 ? 0xFF : 0xA7;
        std::vector<uint8_t> m(len + 1, 0);
        const char *nm = "zero";
        if (fam == 1)
        {
            memset(m.data(), 0xFF, len);
            nm = "ff";
        }
        else if (fam == 2)
        {
            for (int i = 0; i < len; i++)
                m[i] = i * 7 + 1;
            nm = "counting";
        }
        else if (fam >= 3)
        {
            m[(fam - 3) / 8] = 1 << ((fam - 3) % 8);
            nm = "single-bit";
        }
        mc::describe("len=%d family=%s(%d) seed=%02x", len, nm, fam, seed);
        if (len >= 2)
            mc::nontrivial();
        check_all(m.data(), len, 0, seed, nm);
    });

    // (d) all messages of length <=6 over a 5-symbol alphabet, every split point
    mc::add_check("chaining_every_split", [] {
        static const uint8_t A[5] = {0x00, 0x01, 0x80, 0xFF, 0x31};
        int len = mc::choose(7);
        uint8_t m[8];
        for (int i = 0; i < len; i++)
            m[i] = A[mc::choose(5)];
        int seedsel = mc::choose(2);
        mc::describe("msg=%s seed=%s all %d split points", mc::hex(m, len).c_str(), seedsel ? "ff" : "00", len + 1);
        if (len >= 2)
            mc::nontrivial();
        check_split(m, len, seedsel ? 0xFF : 0);
        check_all(m, len, 0, seedsel ? 0xFF : 0, "alphabet5");
    });

    // (f) lengths beyond the 8-bit range for the routines whose length parameter is wider (crc16: uint16_t,
    //     crc32: uint32_t, the streaming CRC-8 has no length): a narrow loop counter would wrap here
    mc::add_check("long_messages_wide_length", [] {
        static const int L[] = {255, 256, 257, 258, 259, 511, 512, 513, 1000, 4095, 4096, 4097, 65533, 65534, 65535, 65536, 65537, 65539, 100001};
        int li = mc::choose(19);
        int fam = mc::choose(6);
        int align = mc::choose(4);
        int len = L[li];
        std::vector<uint8_t> m(len, 0);
        switch (fam)
        {
        case 1:
            memset(m.data(), 0xFF, len);
            break;
        case 2:
            for (int i = 0; i < len; i++)
                m[i] = (uint8_t)(i * 7 + (i >> 8) + 1);
            break;
        case 3:
            m[0] = 0x80;
            break;
        case 4:
            m[len - 1] = 0x01;
            break;
        case 5:
            m[len / 2] = 0x10;
            m[len > 255 ? 255 : 0] ^= 0x04;
            break;
        }
        mc::describe("len=%d family=%d align=%d", len, fam, align);
        mc::nontrivial();
        check_all(m.data(), len, align, 0x3C, "long");
    });

    // (e) every length 0..40 at every alignment 0..7, exactly sized
    mc::add_check("alignment_x_length", [] {
        int len = mc::choose(41);
        int align = mc::choose(8);
        int pat = mc::choose(3);
        uint8_t m[48];
        for (int i = 0; i < len; i++)
            m[i] = pat == 0 ? 0xFF : pat == 1 ? (uint8_t)(i * 29 + 3) : (uint8_t)(0x80 >> (i % 8));
        mc::describe("len=%d align=%d pattern=%d", len, align, pat);
        if (len >= 2 && align)
            mc::nontrivial();
        check_all(m, len, align, 0x5A, "aligned");
        // the same message in READ-ONLY memory (a const table, a string literal in flash), flush against an
        // inaccessible page: a routine that patches its input and restores it afterwards faults here
        if (align == 0)
        {
            guard::Region r(len);
            if (len)
                memcpy(r.p, m, len);
            mprotect(r.base + 4096, r.maplen - 2 * 4096, PROT_READ);
            mc::crash_context("C17.readonly_input.memory");
            uint8_t a = igris_crc8(r.p, (uint8_t)len, 0x5A), b = igris_crc8_table(r.p, (uint8_t)len, 0x5A), c7 = igris_mmc_crc7(r.p, (uint8_t)len), s = 0x5A;
            for (int i = 0; i < len; i++)
                igris_strmcrc8(&s, (char)r.p[i]);
            uint16_t c16 = igris_crc16(r.p, (uint16_t)len, 0x5A5A);
            uint32_t c32 = igris_crc32(r.p, (uint32_t)len, 0x5A5A5A5Au);
            mc::crash_context("C17.harness");
            if (a != ref_dallas(m, len, 0x5A) || b != a || c7 != ref_crc7(m, len) || s != ref_strm8(m, len, 0x5A) || c16 != ref_crc16(m, len, 0x5A5A) ||
                c32 != ref_crc32(m, len, 0x5A5A5A5Au))
                mc::violation("C17.readonly_input.value", "len=%d pattern=%d: a CRC of a message held in read-only memory differs from the reference", len, pat);
        }
    });
    // The value depends on the BYTES, not on the argument values: the same (pointer, length, seed) after the buffer
    // was patched in place must give the CRC of the new contents.  Both calls and the store between them sit in one
    // function compiled with optimisation, so a declaration that lets the compiler merge the calls shows here.
    mc::add_check("recompute_after_patching_in_place", [] {
        int len = 1 + mc::choose(24);
        int pos = mc::choose(len);
        int pat = mc::choose(3);
        mc::describe("len=%d patched byte=%d pattern=%d", len, pos, pat);
        mc::nontrivial();
        uint8_t *buf = (uint8_t *)malloc(len), ref0[32], ref1[32];
        for (int i = 0; i < len; i++)
            ref0[i] = ref1[i] = buf[i] = pat == 0 ? 0x00 : pat == 1 ? (uint8_t)(i * 29 + 3) : 0xFF;
        ref1[pos] ^= 0x5A;
        mc::crash_context("C17.recompute.memory");
        uint8_t a8 = igris_crc8(buf, (uint8_t)len, 0x3C), t8 = igris_crc8_table(buf, (uint8_t)len, 0x3C), a7 = igris_mmc_crc7(buf, (uint8_t)len);
        uint16_t a16 = igris_crc16(buf, (uint16_t)len, 0x1D0F);
        uint32_t a32 = igris_crc32(buf, (uint32_t)len, 0xFFFFFFFFu);
        buf[pos] ^= 0x5A;
        uint8_t b8 = igris_crc8(buf, (uint8_t)len, 0x3C), u8 = igris_crc8_table(buf, (uint8_t)len, 0x3C), b7 = igris_mmc_crc7(buf, (uint8_t)len);
        uint16_t b16 = igris_crc16(buf, (uint16_t)len, 0x1D0F);
        uint32_t b32 = igris_crc32(buf, (uint32_t)len, 0xFFFFFFFFu);
        free(buf);
        struct
        {
            const char *nm;
            uint32_t first, second, want0, want1;
        } t[] = {{"crc8", a8, b8, ref_dallas(ref0, len, 0x3C), ref_dallas(ref1, len, 0x3C)},
                 {"crc8_table", t8, u8, ref_dallas(ref0, len, 0x3C), ref_dallas(ref1, len, 0x3C)},
                 {"mmc_crc7", a7, b7, ref_crc7(ref0, len), ref_crc7(ref1, len)},
                 {"crc16", a16, b16, ref_crc16(ref0, len, 0x1D0F), ref_crc16(ref1, len, 0x1D0F)},
                 {"crc32", a32, b32, ref_crc32(ref0, len, 0xFFFFFFFFu), ref_crc32(ref1, len, 0xFFFFFFFFu)}};
        for (auto &x : t)
        {
            if (x.first != x.want0)
                mc::violation(mc::fmt("C17.%s.value", x.nm), "len=%d: first call %#x want %#x", len, x.first, x.want0);
            if (x.second != x.want1)
                mc::violation(mc::fmt("C17.%s.recompute_stale", x.nm), "len=%d: after patching byte %d in place the same call returned %#x, want %#x (first call %#x)",
                              len, pos, x.second, x.want1, x.first);
        }
    });
}
MC_MAIN
