#!/bin/bash
set -e
. $MC/par.sh
# Builds of crc.c: clang -O1 (fast, the big enumerations) and gcc -O0 -funsigned-char with the alignment sanitizer
# (every load written in the source is executed: an over-read that an optimiser would delete stays visible,
# and a word load through a misaligned pointer is a report although x86 tolerates it).
CF="-g -fsanitize=address -fno-omit-frame-pointer -I$REPO -I$MC"
par clang -c -O1 $CF $REPO/igris/util/crc.c -o $BUILD/crc.o
par clang++ -std=c++20 -c -O1 $CF $VERIF/harness/c17/c17_crc.cpp -o $BUILD/h.o
par gcc -c -O0 -funsigned-char $CF -fsanitize=alignment -fno-sanitize-recover=alignment $REPO/igris/util/crc.c -o $BUILD/crc_o0.o
par g++ -std=c++20 -c -O0 -funsigned-char $CF -fsanitize=alignment -fno-sanitize-recover=alignment -DC17_STRICT_BUILD $VERIF/harness/c17/c17_crc.cpp -o $BUILD/h_o0.o
# third build of crc.c: optimised for size (-Os defines __OPTIMIZE_SIZE__; embedded builds are usually -Os, and
# code selected by that macro or by the size optimiser is otherwise never executed here)
par gcc -c -Os $CF $REPO/igris/util/crc.c -o $BUILD/crc_os.o
par g++ -std=c++20 -O2 -c -I$MC $MC/mc.cpp -o $BUILD/mc.o
# re-entrancy run: crc.c under ThreadSanitizer, two threads on the controlled scheduler (sched.cpp and mc.cpp stay
# uninstrumented: TSan then sees only what the code under test does)
TF="-O1 -g -fsanitize=thread -fno-omit-frame-pointer -I$REPO -I$MC"
par gcc -c $TF $REPO/igris/util/crc.c -o $BUILD/crc_tsan.o
par g++ -std=c++20 -c $TF $VERIF/harness/c17/c17_reentrancy.cpp -o $BUILD/h_tsan.o
par g++ -std=c++20 -O2 -g -I$MC -c $MC/sched/sched.cpp -o $BUILD/sched.o
parwait
g++ -fsanitize=thread $BUILD/h_tsan.o $BUILD/crc_tsan.o $BUILD/sched.o $BUILD/mc.o -ldl -lpthread -o $BUILD/c17_tsan
clang++ -fsanitize=address $BUILD/h.o $BUILD/crc.o $BUILD/mc.o -o $BUILD/c17
clang++ -fsanitize=address $BUILD/h.o $BUILD/crc_os.o $BUILD/mc.o -o $BUILD/c17_os
g++ -fsanitize=address,alignment $BUILD/h_o0.o $BUILD/crc_o0.o $BUILD/mc.o -o $BUILD/c17_strict
echo "crc $BUILD/c17" > $BUILD/runs.txt
echo "strict $BUILD/c17_strict --only affine_basis,chaining_every_split,alignment_x_length,long_messages,recompute" >> $BUILD/runs.txt
echo "size_optimised $BUILD/c17_os --only affine_basis,chaining_every_split,alignment_x_length,long_messages,recompute" >> $BUILD/runs.txt
echo "reentrancy $BUILD/c17_tsan" >> $BUILD/runs.txt
