#!/bin/bash
set -e
CF="-O1 -g -fsanitize=address -fno-omit-frame-pointer -I$REPO -I$MC"
clang -c $CF $REPO/igris/util/crc.c -o $BUILD/crc.o
clang++ -std=c++17 -c $CF $VERIF/harness/c17/c17_crc.cpp -o $BUILD/h.o
clang++ -std=c++17 -O2 -c -I$MC $MC/mc.cpp -o $BUILD/mc.o
clang++ -fsanitize=address $BUILD/h.o $BUILD/crc.o $BUILD/mc.o -o $BUILD/c17
echo "crc $BUILD/c17" > $BUILD/runs.txt
