// C17 re-entrancy — every CRC routine is a function of (data, length, seed): two calls running in two threads, each on
// its own message, share nothing.
//
// Shape T on /verif/mc/sched: two real threads, one running at a time, every interleaving of their scheduling points
// (start, the yield between the two calls each thread makes, end) up to preemption bound 2.  The routines contain no
// synchronisation, so the scheduler never adds a happens-before edge between the two threads' calls: under
// ThreadSanitizer ANY memory both calls touch with at least one write (a lazily built table, a "ready" flag, a static
// scratch word) is a reported race in every schedule.  Each worker process is forked from an image in which no CRC
// routine has run yet, so "the process's first call overlapping another call" is exactly what every case executes.
// Each result is also compared with the bit-serial reference.
#include "mc.hpp"
#include "sched/sched.hpp"
#include <atomic>
#include <cstdlib>
#include <cstring>
#include <igris/util/crc.h>

struct BitCrc
{
    int w;
    uint64_t poly, reg;
    void bit(int b)
    {
        int top = (int)((reg >> (w - 1)) & 1) ^ b;
        reg = (reg << 1) & ((1ull << w) - 1);
        if (top)
            reg ^= poly;
    }
    void byte_msb(uint8_t c)
    {
        for (int i = 7; i >= 0; i--)
            bit((c >> i) & 1);
    }
    void byte_lsb(uint8_t c)
    {
        for (int i = 0; i < 8; i++)
            bit((c >> i) & 1);
    }
};
static uint64_t reflect(uint64_t v, int w)
{
    uint64_t r = 0;
    for (int i = 0; i < w; i++)
        if (v >> i & 1)
            r |= 1ull << (w - 1 - i);
    return r;
}
enum
{
    R_CRC8,
    R_CRC8_TABLE,
    R_STRM8,
    R_CRC16,
    R_CRC32,
    R_CRC7,
    NR
};
static const char *rname[NR] = {"crc8", "crc8_table", "strmcrc8", "crc16", "crc32", "mmc_crc7"};

static uint32_t reference(int r, const uint8_t *d, size_t n, uint32_t seed)
{
    switch (r)
    {
    case R_CRC8:
    case R_CRC8_TABLE:
    {
        BitCrc c{8, 0x31, reflect(seed & 0xff, 8)};
        for (size_t i = 0; i < n; i++)
            c.byte_lsb(d[i]);
        return (uint32_t)reflect(c.reg, 8);
    }
    case R_STRM8:
    {
        BitCrc c{8, 0x31, seed & 0xff};
        for (size_t i = 0; i < n; i++)
            c.byte_msb(d[i]);
        return (uint32_t)c.reg;
    }
    case R_CRC16:
    {
        BitCrc c{16, 0x1021, seed & 0xffff};
        for (size_t i = 0; i < n; i++)
            c.byte_msb(d[i]);
        return (uint32_t)c.reg;
    }
    case R_CRC7:
    {
        BitCrc c{7, 0x09, 0};
        for (size_t i = 0; i < n; i++)
            c.byte_msb(d[i]);
        return (uint32_t)c.reg;
    }
    default:
    {
        BitCrc c{32, 0x04C11DB7, seed};
        for (size_t i = 0; i < n; i += 4)
        {
            uint8_t w[4] = {0, 0, 0, 0};
            for (size_t k = 0; k < 4 && i + k < n; k++)
                w[k] = d[i + k];
            for (int k = 3; k >= 0; k--)
                c.byte_msb(w[k]);
        }
        return (uint32_t)c.reg;
    }
    }
}
static uint32_t call(int r, const uint8_t *d, size_t n, uint32_t seed)
{
    switch (r)
    {
    case R_CRC8:
        return igris_crc8(d, (uint8_t)n, (uint8_t)seed);
    case R_CRC8_TABLE:
        return igris_crc8_table(d, (uint8_t)n, (uint8_t)seed);
    case R_STRM8:
    {
        uint8_t c = (uint8_t)seed;
        for (size_t i = 0; i < n; i++)
            igris_strmcrc8(&c, (char)d[i]);
        return c;
    }
    case R_CRC16:
        return igris_crc16(d, (uint16_t)n, (uint16_t)seed);
    case R_CRC7:
        return igris_mmc_crc7(d, (uint8_t)n);
    default:
        return igris_crc32(d, (uint32_t)n, seed);
    }
}

struct Side
{
    int routine;
    size_t n[2];
    uint8_t *msg[2]; // exactly sized, private to this thread
    uint32_t seed[2], got[2];
    std::atomic<int> done{0};
    void body()
    {
        got[0] = call(routine, msg[0], n[0], seed[0]);
        sched::yield(); // the other thread may run a whole call between ours
        got[1] = call(routine, msg[1], n[1], seed[1]);
        done.store(1, std::memory_order_release);
    }
};

MC_INIT
{
    mc::add_check("reentrancy.two_threads", [] {
        int first = mc::choose(NR * NR * 4);
        // lazily built state survives in the process: every case gets a worker in which no CRC routine has run yet
        mc::request_restart();
        static const size_t SZ[4][2] = {{1, 40}, {40, 3}, {8, 8}, {0, 200}};
        int sizes = first % 4, ra = first / 4 / NR, rb = first / 4 % NR;
        Side *S[2] = {new Side, new Side}; // deliberately leaked if the execution does not finish
        S[0]->routine = ra;
        S[1]->routine = rb;
        for (int t = 0; t < 2; t++)
            for (int k = 0; k < 2; k++)
            {
                size_t n = SZ[sizes][t ? 1 - k : k];
                S[t]->n[k] = n;
                S[t]->msg[k] = (uint8_t *)malloc(n ? n : 1);
                for (size_t i = 0; i < n; i++)
                    S[t]->msg[k][i] = (uint8_t)(i * 37 + 11 * t + 5 * k + 1);
                S[t]->seed[k] = t ? 0xFFFFFFFFu : 0x1D0F0000u + (uint32_t)k;
            }
        std::string who = mc::fmt("thread A: igris_%s x2, thread B: igris_%s x2, lengths %zu,%zu | %zu,%zu", rname[ra], rname[rb], S[0]->n[0],
                                  S[0]->n[1], S[1]->n[0], S[1]->n[1]);
        mc::crash_context("C17.reentrancy.%s+%s.shared_state", rname[ra], rname[rb]);
        mc::describe("%s (the execution died before it completed)", who.c_str());
        sched::Options o;
        o.preemption_bound = 2;
        sched::begin(o);
        sched::spawn([S] { S[0]->body(); }, "A");
        sched::spawn([S] { S[1]->body(); }, "B");
        sched::Result r = sched::run();
        mc::describe("%s; preemptions=%d steps=%d: %s", who.c_str(), r.preemptions, r.steps, r.trace.c_str());
        mc::nontrivial();
        if (r.deadlock || r.horizon_hit || !S[0]->done.load(std::memory_order_acquire) || !S[1]->done.load(std::memory_order_acquire))
        {
            mc::violation("C17.reentrancy.did_not_finish", "%s: %s", who.c_str(), r.trace.c_str());
            return;
        }
        mc::crash_context("C17.harness");
        for (int t = 0; t < 2; t++)
            for (int k = 0; k < 2; k++)
            {
                uint32_t want = reference(S[t]->routine, S[t]->msg[k], S[t]->n[k], S[t]->seed[k]);
                if (S[t]->got[k] != want)
                    mc::violation(mc::fmt("C17.reentrancy.%s.value", rname[S[t]->routine]), "%s: thread %c call %d returned %#x, reference %#x", who.c_str(),
                                  'A' + t, k, S[t]->got[k], want);
            }
        mc::outcome(mc::fmt("preemptions=%d", r.preemptions));
        for (int t = 0; t < 2; t++)
        {
            free(S[t]->msg[0]);
            free(S[t]->msg[1]);
            delete S[t];
        }
    });
}
MC_MAIN
