// Binding of the configurable codec (igris/protocols/gstuff.{h,cpp}); compiled with -fno-access-control
// only so that implkey() can read the three private automaton fields for C05's BFS key.
#include "gs_iface.hpp"
#include <igris/protocols/gstuff.h>

namespace gs
{
    static gstuff_context ctx_of(int codec) { return codec == CFG_V0 ? gstuff_context_v0() : gstuff_context(); }

    Markers cfg_markers(int codec)
    {
        gstuff_context c = ctx_of(codec);
        return Markers{(uint8_t)c.GSTUFF_START, (uint8_t)c.GSTUFF_STOP, (uint8_t)c.GSTUFF_STUB,
                       (uint8_t)c.GSTUFF_STUB_START, (uint8_t)c.GSTUFF_STUB_STOP, (uint8_t)c.GSTUFF_STUB_STUB};
    }

    struct CfgReceiver : Receiver
    {
        gstuff_autorecv r;
        CfgReceiver(int codec, uint8_t *buf, int cap) : r(ctx_of(codec)) { r.init(buf, cap); }
        Status feed(uint8_t c) override
        {
            switch (r.newchar((char)c))
            {
            case GSTUFF_CONTINUE:
                return CONTINUE;
            case GSTUFF_NEWPACKAGE:
                return NEWPACKAGE;
            case GSTUFF_FORCE_RESTART:
                return RESTART;
            case GSTUFF_GARBAGE:
                return GARBAGE;
            case GSTUFF_CRC_ERROR:
                return CRC_ERROR;
            case GSTUFF_OVERFLOW:
                return OVERFLOW_;
            case GSTUFF_STUFFING_ERROR:
                return STUFF_ERROR;
            default:
                return OTHER;
            }
        }
        std::vector<uint8_t> packet() override
        {
            size_t n = r.size();
            const char *p = r.cstr();
            return std::vector<uint8_t>((const uint8_t *)p, (const uint8_t *)p + n);
        }
        size_t stored() override { return r.size(); }
        std::vector<uint8_t> stored_bytes() override { return packet(); }
        std::string implkey() override
        {
            char h[64];
            snprintf(h, sizeof h, "s%u c%02x l%u k%u:", (unsigned)r.state, (unsigned)r.crc, r.line.len, r.line.cursor);
            std::string s = h;
            for (unsigned i = 0; i < r.line.len && i < r.line.cap; i++)
            {
                snprintf(h, sizeof h, "%02x", (unsigned)(uint8_t)r.line.buf[i]);
                s += h;
            }
            return s;
        }
    };
    Receiver *make_cfg_receiver(int codec, uint8_t *buf, int cap) { return new CfgReceiver(codec, buf, cap); }

    int cfg_encode_raw(int codec, const uint8_t *data, size_t n, uint8_t *out)
    {
        return gstuffing((const char *)data, n, (char *)out, ctx_of(codec));
    }
    int cfg_encode_raw_v(int codec, struct iovec *vec, size_t cnt, uint8_t *out)
    {
        return gstuffing_v(vec, cnt, (char *)out, ctx_of(codec));
    }
    std::vector<uint8_t> cfg_encode_vec(int codec, const uint8_t *data, size_t n)
    {
        return gstuffing(igris::buffer((const void *)data, n), ctx_of(codec));
    }
    std::vector<uint8_t> cfg_encode_vec_v(int codec, struct iovec *vec, size_t cnt)
    {
        return gstuffing_v(vec, cnt, ctx_of(codec));
    }
}
