// c05_monitor.hpp — clause-by-clause monitor for a gstuff receiver on an arbitrary byte stream.
//
// The monitor is NOT a second receiver automaton.  It keeps only what the clauses of the statement talk about:
//   "the unescaped bytes since the last start marker"  -> started?, d (while it still fits), invalid escape seen?,
//                                                         escape pending?, longer than the buffer?
// and judges every answer of the real receiver against it:
//   memory     never more than cap-1 bytes stored (writes outside the buffer are ASan's business)
//   soundness  NEWPACKAGE only on a stop marker, only if the bytes since the last start marker un-escape without an
//              invalid pair to d||c with CRC-8(d||c) == 0 and fit the buffer, and the delivered bytes equal d
//   overflow   a frame that does not fit is never delivered (soundness, kind frame_longer_than_buffer) and, where
//              the frame boundaries are unambiguous (strict), an OVERFLOW answer was given before its stop marker
//   complete   (strict only) a well-formed frame that fits is delivered on its stop marker, whatever came before
//              its start marker - the "from the first one when start and stop markers differ" clause
// `strict` is set for START != STOP on every stream, and by the structured-traffic checks where they know the
// phase; with START == STOP a lone marker byte may be either end of a frame, so on raw streams only the
// never-deliver-wrongly clauses apply there.
// The state is a finite abstraction (d is dropped once it no longer matters), so impl-state (+) monitor-state keys
// close under BFS.
#pragma once
#include "gs_iface.hpp"
#include "gs_ref.hpp"
#include "mc.hpp"
#include <cstdarg>
#include <cstdlib>
#include <cstring>

// hex rendering for reports; long byte strings (large-buffer checks) are abbreviated
inline std::string shx(const gsref::Bytes &b)
{
    if (b.size() <= 64)
        return gsref::hex(b);
    gsref::Bytes h(b.begin(), b.begin() + 20), t(b.end() - 12, b.end());
    return gsref::hex(h) + mc::fmt("..(%zu bytes)..", b.size()) + gsref::hex(t);
}

struct Monitor
{
    gs::Markers M;
    int codec = 0;
    int cap = 0;
    bool strict = false;

    // ---- abstract state ----
    bool started = false; // a start marker has been received and the frame it opened is still open
    bool invalid = false; // an invalid escape pair occurred since the last start marker
    bool toolong = false; // more than cap-1 unescaped bytes since the last start marker
    bool esc = false;     // the previous byte was STUB
    bool ovf = false;     // the receiver answered OVERFLOW since the last start marker
    gsref::Bytes d;       // unescaped bytes since the last start marker (only while started && !invalid && !toolong)

    // ---- what happened on the last byte (for callers that track deliveries) ----
    int flagged = 0; // violations reported by this monitor so far (mc::case_has_violation() is stale while the
                     // engine rebuilds a BFS state right after a violating transition, so callers use this)
    bool delivered = false;
    gsref::Bytes packet;

    void init(int codec_, int cap_, bool strict_)
    {
        codec = codec_;
        cap = cap_;
        strict = strict_;
        M = gsref::golden(codec_);
    }
    std::string key() const
    {
        return mc::fmt("|m%d%d%d%d%d:", started, invalid, toolong, esc, ovf) + (d.empty() ? std::string() : shx(d));
    }
    const char *phase() const
    {
        return !started ? "no_frame" : invalid ? "invalid_escape" : toolong ? "too_long" : esc ? "escape_pending" : "data";
    }
    std::string sig(const char *what) const { return mc::fmt("C05.%s.%s", gs::codec_name(codec), what); }

    void viol(const std::string &sg, const char *f, ...) __attribute__((format(printf, 3, 4)))
    {
        char b[2048];
        va_list ap;
        va_start(ap, f);
        vsnprintf(b, sizeof b, f, ap);
        va_end(ap);
        flagged++;
        mc::violation(sg, "%s", b);
    }
    void push(uint8_t x)
    {
        if (toolong)
            return;
        d.push_back(x);
        if ((int)d.size() > cap - 1)
        {
            toolong = true;
            d.clear();
        }
    }
    void open_frame()
    {
        started = true;
        invalid = toolong = esc = ovf = false;
        d.clear();
    }
    void close_frame()
    {
        started = false;
        invalid = toolong = esc = ovf = false;
        d.clear();
    }

    // b: the byte just fed; st: the receiver's answer; r: the receiver (public observers only);
    // stream: everything fed so far including b (for the report)
    void step(uint8_t b, gs::Status st, gs::Receiver &r, const gsref::Bytes &stream)
    {
        delivered = false;
        size_t at = stream.size() - 1;
        if ((int)r.stored() > cap - 1)
            viol(sig("memory.stored_more_than_cap-1"), "cap=%d stream=%s: %zu bytes stored after byte %zu", cap,
                          shx(stream).c_str(), r.stored(), at);
        bool is_start = b == M.start, is_stop = b == M.stop;
        if (st == gs::OVERFLOW_ && started)
            ovf = true;
        if (st == gs::NEWPACKAGE && !is_stop)
            viol(sig("newchar.newpackage_on_a_byte_that_is_not_the_stop_marker"), "cap=%d stream=%s byte %zu (%02x)", cap,
                          shx(stream).c_str(), at, b);
        if (is_stop)
        {
            bool valid = started && !invalid && !toolong && !esc && d.size() >= 1 && gsref::crc8(d) == 0;
            if (st == gs::NEWPACKAGE)
            {
                delivered = true;
                packet = r.packet();
                if (!valid)
                {
                    const char *kind = !started  ? "no_start_marker"
                                       : invalid ? "after_invalid_escape"
                                       : toolong ? "frame_longer_than_buffer"
                                       : esc     ? "escape_pending"
                                       : d.empty() ? "no_crc_byte"
                                                   : "crc_mismatch";
                    viol(sig((std::string("newchar.unsound_delivery.") + kind).c_str()),
                                  "cap=%d stream=%s: NEWPACKAGE at byte %zu delivering %s, but the bytes since the last start "
                                  "marker are: %s%s",
                                  cap, shx(stream).c_str(), at, shx(packet).c_str(), phase(),
                                  (started && !invalid && !toolong) ? (" " + shx(d)).c_str() : "");
                }
                else
                {
                    gsref::Bytes want(d.begin(), d.end() - 1);
                    if (packet != want)
                        viol(sig("newchar.delivered_bytes_differ"),
                                      "cap=%d stream=%s: NEWPACKAGE at byte %zu delivered %s, unescaped bytes since the last start "
                                      "marker minus CRC are %s",
                                      cap, shx(stream).c_str(), at, shx(packet).c_str(), shx(want).c_str());
                }
            }
            else if (valid && strict)
                viol(sig("newchar.wellformed_frame_not_delivered"),
                              "cap=%d stream=%s: stop marker at byte %zu closes a well-formed frame with payload||crc %s that fits, "
                              "answer was %s",
                              cap, shx(stream).c_str(), at, shx(d).c_str(), gs::status_name(st));
            if (strict && started && !invalid && toolong && !esc && !ovf)
                viol(sig("newchar.overlong_frame_not_reported_as_overflow"),
                              "cap=%d stream=%s: the frame closed at byte %zu has more than cap-1 unescaped bytes and no OVERFLOW "
                              "was answered since its start marker",
                              cap, shx(stream).c_str(), at);
        }
        if (is_start)
        {
            open_frame(); // with START == STOP the closing marker may also open the next frame
            return;
        }
        if (is_stop)
        {
            close_frame();
            return;
        }
        if (!started || invalid)
            return;
        if (esc)
        {
            esc = false;
            int u = gsref::unescape(M, b);
            if (u < 0)
            {
                invalid = true;
                toolong = false;
                d.clear();
                return;
            }
            push((uint8_t)u);
            return;
        }
        if (b == M.stub)
        {
            esc = true;
            return;
        }
        push(b);
    }
};

// A receiver + its exactly sized buffer + the monitor, fed together.
struct Rig
{
    int codec, cap;
    uint8_t *buf;
    gs::Receiver *r;
    Monitor mon;
    gsref::Bytes stream;
    gs::Status last = gs::CONTINUE;
    Rig(int codec_, int cap_, bool strict) : codec(codec_), cap(cap_)
    {
        buf = (uint8_t *)malloc((size_t)cap); // exactly sized: ASan reports any byte outside
        memset(buf, 0xEE, (size_t)cap);
        r = gs::make_receiver(codec, buf, cap);
        mon.init(codec, cap, strict);
    }
    ~Rig()
    {
        delete r;
        free(buf);
    }
    Rig(const Rig &) = delete;
    Rig &operator=(const Rig &) = delete;
    // the library's set-up call on the same buffer: everything received before it is forgotten
    int reinits = 0;
    void reinit(int variant = 0)
    {
        mc::crash_context("C05.%s.init.memory", gs::codec_name(codec));
        r->reinit(variant);
        mc::crash_context("C05.harness");
        reinits++;
        stream.clear();
        last = gs::CONTINUE;
        mon.close_frame(); // back to "no start marker seen", nothing stored
        if (r->stored() != 0)
            mon.viol(mon.sig("init.line_not_empty_after_reinit"), "cap=%d: %zu bytes stored right after re-initialisation", cap, r->stored());
    }
    gs::Status feed(uint8_t b)
    {
        mc::crash_context("C05.%s.newchar.memory", gs::codec_name(codec));
        last = r->feed(b);
        stream.push_back(b);
        mon.step(b, last, *r, stream);
        mc::crash_context("C05.harness");
        return last;
    }
};
