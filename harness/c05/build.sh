#!/bin/bash
set -e
. $MC/par.sh
H=$VERIF/harness/c05
CF="-O1 -g -fsanitize=address -fno-omit-frame-pointer -I$REPO -I$MC -I$H"
par clang++ -std=c++17 -c $CF $H/c05_bfs.cpp -o $BUILD/bfs.o
par clang++ -std=c++17 -c $CF $H/c05_streams.cpp -o $BUILD/streams.o
par clang++ -std=c++17 -c $CF -fno-access-control $H/gs_bind_cfg.cpp -o $BUILD/bind_cfg.o
par clang++ -std=c++17 -c $CF $H/gs_bind_legacy.cpp -o $BUILD/bind_legacy.o
par clang++ -std=c++17 -c $CF $REPO/igris/protocols/gstuff.cpp -o $BUILD/gstuff.o
par clang -c $CF $REPO/igris/protocols/gstuff_v1/autorecv.c -o $BUILD/autorecv_v1.o
par clang -c $CF $REPO/igris/protocols/gstuff_v1/gstuff.c -o $BUILD/gstuff_v1.o
par clang++ -std=c++17 -O2 -c -I$MC $MC/mc.cpp -o $BUILD/mc.o
parwait
LIB="$BUILD/bind_cfg.o $BUILD/bind_legacy.o $BUILD/gstuff.o $BUILD/autorecv_v1.o $BUILD/gstuff_v1.o $BUILD/mc.o"
clang++ -fsanitize=address $BUILD/bfs.o $BUILD/streams.o $LIB -o $BUILD/c05
echo "receiver $BUILD/c05" > $BUILD/runs.txt
