#!/bin/bash
set -e
. $MC/par.sh
H=$VERIF/harness/c05
CF="-O1 -g -fsanitize=address -fno-omit-frame-pointer -I$REPO -I$MC -I$H"
par clang++ -std=c++20 -c $CF $H/c05_bfs.cpp -o $BUILD/bfs.o
par clang++ -std=c++20 -c $CF $H/c05_streams.cpp -o $BUILD/streams.o
# The binding of the configurable receiver reads three private members for the BFS key.  If that does not compile
# (members renamed / restructured by a refactoring) fall back to the public-API-only key (see gs_bind_cfg.cpp).
bind_cfg() { # $1 compiler, $2 flags, $3 object
    if $1 -std=c++20 -c $2 -fno-access-control $H/gs_bind_cfg.cpp -o $3 2> $3.full.err; then
        return 0
    fi
    $1 -std=c++20 -c $2 -DGS_PUBLIC_ONLY $H/gs_bind_cfg.cpp -o $3
    [ "$1" = clang++ ] || return 0   # the note is written once, by the main build
    {
        echo "NOTE: private state names changed, gs_bind_cfg.cpp no longer compiles against gstuff_autorecv's private members"
        echo "      (first error: $(grep -m1 'error:' $3.full.err | cut -c1-200))."
        echo "      The configurable receivers' BFS state key is now built from the public API only: size(), the cstr() bytes and"
        echo "      the answers of copies of the receiver to a fixed set of probe sequences (phase and CRC fingerprint);"
        echo "      capacities, alphabets and fix-point search are unchanged.  If the receiver is not copy-constructible the"
        echo "      search keys on the symbol history instead (sub-checks named *.history_keyed): no merging on hidden state,"
        echo "      depth <= 5 symbols (quick) / 6 (thorough), capacities 2..5, reported as exhaustive=false with cap depth=N."
        echo "      Parts 2 (garbage prefixes, fault sequences, large buffers) and the legacy receiver are not affected."
    } > $BUILD/notes.txt
    cat $BUILD/notes.txt
}
par bind_cfg clang++ "$CF" $BUILD/bind_cfg.o
par clang++ -std=c++20 -c $CF -DGS_LEGACY_REINIT_SETBUF_ONLY $H/gs_bind_legacy.cpp -o $BUILD/bind_legacy.o
par clang++ -std=c++20 -c $CF $REPO/igris/protocols/gstuff.cpp -o $BUILD/gstuff.o
par clang -c $CF $REPO/igris/protocols/gstuff_v1/autorecv.c -o $BUILD/autorecv_v1.o
par clang -c $CF $REPO/igris/protocols/gstuff_v1/gstuff.c -o $BUILD/gstuff_v1.o
par clang++ -std=c++20 -O2 -c -I$MC $MC/mc.cpp -o $BUILD/mc.o
# release-mode variant: gcc -O2 -DNDEBUG (an assert that carries a side effect vanishes in release builds), ASan; re-runs a
# cheap selection of the sub-checks.
N=$BUILD/ndebug; mkdir -p $N
NF="-O2 -g -DNDEBUG -fsanitize=address -fno-omit-frame-pointer -I$REPO -I$MC -I$H"
par g++ -std=c++20 -c $NF $H/c05_bfs.cpp -o $N/bfs.o
par g++ -std=c++20 -c $NF $H/c05_streams.cpp -o $N/streams.o
par bind_cfg g++ "$NF" $N/bind_cfg.o
par g++ -std=c++20 -c $NF -DGS_LEGACY_REINIT_SETBUF_ONLY $H/gs_bind_legacy.cpp -o $N/bind_legacy.o
par g++ -std=c++20 -c $NF $REPO/igris/protocols/gstuff.cpp -o $N/gstuff.o
par gcc -c $NF $REPO/igris/protocols/gstuff_v1/autorecv.c -o $N/autorecv_v1.o
par gcc -c $NF $REPO/igris/protocols/gstuff_v1/gstuff.c -o $N/gstuff_v1.o
par g++ -std=c++20 -O2 -c -I$MC $MC/mc.cpp -o $BUILD/mc_gcc.o
parwait
g++ -fsanitize=address $N/bfs.o $N/streams.o $N/bind_cfg.o $N/bind_legacy.o $N/gstuff.o $N/autorecv_v1.o $N/gstuff_v1.o $BUILD/mc_gcc.o -o $BUILD/c05_ndebug
LIB="$BUILD/bind_cfg.o $BUILD/bind_legacy.o $BUILD/gstuff.o $BUILD/autorecv_v1.o $BUILD/gstuff_v1.o $BUILD/mc.o"
clang++ -fsanitize=address $BUILD/bfs.o $BUILD/streams.o $LIB -o $BUILD/c05
echo "receiver_ndebug_gcc_O2 $BUILD/c05_ndebug --only cap3,garbage_prefix,large_buffers,cut_then_frames,two_receivers,alphabet_constants,long_history" > $BUILD/runs.txt
echo "receiver $BUILD/c05" >> $BUILD/runs.txt
