// Binding of the legacy C codec (igris/protocols/gstuff_v1/{gstuff.c,autorecv.c}).
// Separate TU: gstuff_v1/gstuff.h redefines GSTUFF_START_V1 & co. with the V0 values.
#include "gs_iface.hpp"
#include <cstdio>
#include <cstring>
#include <igris/protocols/gstuff_v1/autorecv.h>

namespace gs
{
    Markers cfg_markers(int codec);
    int cfg_key_mode();
    Receiver *make_cfg_receiver(int codec, uint8_t *buf, int cap);
    int cfg_encode_raw(int codec, const uint8_t *data, size_t n, uint8_t *out);
    int cfg_encode_raw_v(int codec, struct iovec *vec, size_t cnt, uint8_t *out);
    std::vector<uint8_t> cfg_encode_vec(int codec, const uint8_t *data, size_t n);
    std::vector<uint8_t> cfg_encode_vec_v(int codec, struct iovec *vec, size_t cnt);

    Markers markers(int codec)
    {
        if (codec != LEGACY)
            return cfg_markers(codec);
        // the legacy protocol has one marker (start == stop) and two escape codes
        return Markers{(uint8_t)GSTUFF_START_V1, (uint8_t)GSTUFF_START_V1, (uint8_t)GSTUFF_STUB_V1,
                       (uint8_t)GSTUFF_STUB_START_V1, (uint8_t)GSTUFF_STUB_START_V1, (uint8_t)GSTUFF_STUB_STUB_V1};
    }

    struct LegacyReceiver : Receiver
    {
        gstuff_autorecv_v1 r;
        uint8_t *buf_;
        int cap_;
        // gstuff_autorecv_setbuf_v1 is the one set-up call the legacy receiver has (it binds the buffer and resets line, crc
        // and state); it is also how a receiver is re-initialised.
        void reinit(int) override { gstuff_autorecv_setbuf_v1(&r, buf_, cap_); }
        LegacyReceiver(uint8_t *buf, int cap) : buf_(buf), cap_(cap)
        {
            // the object lives in memory that is NOT zero-filled: whatever setbuf does not initialise stays 0x5A
            memset(&r, 0x5A, sizeof r);
            gstuff_autorecv_setbuf_v1(&r, buf, cap);
        }
        Status feed(uint8_t c) override
        {
            switch (gstuff_autorecv_newchar_v1(&r, (char)c))
            {
            case GSTUFF_CONTINUE_V1:
                return CONTINUE;
            case GSTUFF_NEWPACKAGE_V1:
                return NEWPACKAGE;
            case GSTUFF_CRC_ERROR_V1:
                return CRC_ERROR;
            case GSTUFF_OVERFLOW_V1:
                return OVERFLOW_;
            case GSTUFF_DATA_ERROR_V1:
                return STUFF_ERROR;
            default:
                return OTHER;
            }
        }
        std::vector<uint8_t> packet() override
        {
            // the legacy receiver leaves payload||crc in the public line; the packet is the line minus that byte
            size_t n = (size_t)sline_size(&r.line);
            const char *p = sline_getline(&r.line);
            if (n == 0)
                return std::vector<uint8_t>();
            return std::vector<uint8_t>((const uint8_t *)p, (const uint8_t *)p + n - 1);
        }
        size_t stored() override { return (size_t)sline_size(&r.line); }
        std::vector<uint8_t> stored_bytes() override
        {
            size_t n = (size_t)sline_size(&r.line);
            return std::vector<uint8_t>((const uint8_t *)r.line.buf, (const uint8_t *)r.line.buf + n);
        }
        std::string implkey() override
        {
            char h[64];
            snprintf(h, sizeof h, "s%u c%02x l%u k%u:", (unsigned)r.state, (unsigned)r.crc, r.line.len, r.line.cursor);
            std::string s = h;
            for (unsigned i = 0; i < r.line.len && i < r.line.cap; i++)
            {
                snprintf(h, sizeof h, "%02x", (unsigned)(uint8_t)r.line.buf[i]);
                s += h;
            }
            return s;
        }
    };

    Receiver *make_receiver(int codec, uint8_t *buf, int cap)
    {
        if (codec != LEGACY)
            return make_cfg_receiver(codec, buf, cap);
        return new LegacyReceiver(buf, cap);
    }

    // the legacy receiver is a plain C struct: its fields are its public interface
    int key_mode(int codec) { return codec == LEGACY ? 0 : cfg_key_mode(); }

    bool has_entry(int codec, int entry) { return codec != LEGACY || entry == RAW; }

    int encode_raw(int codec, const uint8_t *data, size_t n, uint8_t *out)
    {
        if (codec != LEGACY)
            return cfg_encode_raw(codec, data, n, out);
        return gstuffing_v1((char *)data, (int)n, (char *)out);
    }
    int encode_raw_v(int codec, struct iovec *vec, size_t cnt, uint8_t *out) { return cfg_encode_raw_v(codec, vec, cnt, out); }
    std::vector<uint8_t> encode_vec(int codec, const uint8_t *data, size_t n) { return cfg_encode_vec(codec, data, n); }
    std::vector<uint8_t> encode_vec_v(int codec, struct iovec *vec, size_t cnt) { return cfg_encode_vec_v(codec, vec, cnt); }
}
