// C05 part 2 — resynchronisation on structured traffic (shape I, choice tree), same monitor as part 1.
//
//  garbage_prefix   for every garbage prefix g over the noise alphabet (|g| <= 4 quick / 5 thorough), both capacities
//                   {3, 8} and all payload pairs (p1,p2) from P: feed g || frame(p1) || frame(p2) to a fresh receiver.
//                   START != STOP: both frames must come out (delivered on their last byte, or - when they do not
//                   fit the buffer - answered with OVERFLOW and not delivered).  START == STOP: the second must, the
//                   first too when g is empty.
//  fault_sequences  frame(p1) || frame(p2) || frame(p3) with every single (thorough: every pair of) deletion,
//                   substitution by each noise symbol, or insertion of each noise symbol, at every position
//                   (fault bound 1 / 2, at most one fault per position).  Every frame not touched by a fault must come out; with
//                   START == STOP only from the second frame after the last disturbed one ("from the second at the
//                   latest"), a frame that does not fit counts as a disturbance for the frames after it.
// Soundness / memory / overflow clauses are judged on every byte of every stream by the Monitor.
// Frames are built by the reference encoder (gs_ref.hpp), never by the library's encoders.
#include "c05_monitor.hpp"
#include <memory>

using gsref::Bytes;

static std::vector<uint8_t> noise_alphabet(const gs::Markers &M)
{
    uint8_t all[] = {M.start, M.stop, M.stub, M.c_start, M.c_stop, M.c_stub, 'a', 0xFF, 0x00};
    std::vector<uint8_t> a;
    for (uint8_t c : all)
    {
        bool dup = false;
        for (uint8_t x : a)
            dup |= x == c;
        if (!dup)
            a.push_back(c);
    }
    return a; // 9 symbols for START != STOP, 7 otherwise
}
static std::vector<Bytes> payload_set(const gs::Markers &M)
{
    return {Bytes{}, Bytes{'a'}, Bytes{M.start}, Bytes{M.stub, M.stop}};
}

struct Run
{
    std::vector<std::pair<size_t, Bytes>> deliveries;
    std::vector<size_t> overflows;
};
static void feed_all(Rig &rig, const Bytes &s, Run &run)
{
    for (size_t i = 0; i < s.size(); i++)
    {
        gs::Status st = rig.feed(s[i]);
        if (rig.mon.delivered)
            run.deliveries.push_back({rig.stream.size() - 1, rig.mon.packet});
        if (st == gs::OVERFLOW_)
            run.overflows.push_back(rig.stream.size() - 1);
    }
}

// frame with payload p occupies [s,e] of the stream: it must come out
static bool expect_frame(Rig &rig, const Run &run, size_t s, size_t e, const Bytes &p, const char *scenario, const char *which)
{
    bool fits = (int)p.size() + 1 <= rig.cap - 1;
    bool delivered_at_end = false, delivered_inside = false, ovf = false;
    Bytes got;
    for (auto &d : run.deliveries)
        if (d.first >= s && d.first <= e)
        {
            delivered_inside = true;
            if (d.first == e)
            {
                delivered_at_end = true;
                got = d.second;
            }
        }
    for (size_t o : run.overflows)
        ovf |= o >= s && o <= e;
    std::string base = mc::fmt("C05.%s.%s.", gs::codec_name(rig.codec), scenario);
    if (fits)
    {
        if (!delivered_at_end)
        {
            mc::violation(base + which + "_not_delivered", "cap=%d stream=%s: frame at bytes %zu..%zu (payload %s) was not delivered on its last byte",
                          rig.cap, shx(rig.stream).c_str(), s, e, shx(p).c_str());
            return false;
        }
        if (got != p)
        {
            mc::violation(base + which + "_delivered_wrong", "cap=%d stream=%s: frame at bytes %zu..%zu payload %s delivered as %s", rig.cap,
                          shx(rig.stream).c_str(), s, e, shx(p).c_str(), shx(got).c_str());
            return false;
        }
        return true;
    }
    if (delivered_inside)
    {
        mc::violation(base + which + "_too_long_but_delivered", "cap=%d stream=%s: frame at bytes %zu..%zu (payload %s) does not fit", rig.cap,
                      shx(rig.stream).c_str(), s, e, shx(p).c_str());
        return false;
    }
    if (!ovf)
    {
        mc::violation(base + which + "_too_long_but_no_overflow_answer", "cap=%d stream=%s: frame at bytes %zu..%zu (payload %s) does not fit",
                      rig.cap, shx(rig.stream).c_str(), s, e, shx(p).c_str());
        return false;
    }
    return true;
}

static const int CAPS[2] = {3, 8};

static void garbage_prefix_case(int codec)
{
    gs::Markers M = gsref::golden(codec);
    static std::vector<uint8_t> A[gs::NCODEC];
    if (A[codec].empty())
        A[codec] = noise_alphabet(M);
    const std::vector<uint8_t> &a = A[codec];
    int k = (int)a.size();
    int maxlen = mc::thorough() ? 5 : 4;
    int first = mc::choose(1 + k + k * k);
    Bytes g;
    if (first >= 1 && first < 1 + k)
        g.push_back(a[first - 1]);
    else if (first >= 1 + k)
    {
        g.push_back(a[(first - 1 - k) / k]);
        g.push_back(a[(first - 1 - k) % k]);
        int more = mc::choose(maxlen - 1);
        for (int i = 0; i < more; i++)
            g.push_back(a[mc::choose(k)]);
    }
    int cap = CAPS[mc::choose(2)];
    mc::describe("codec=%s cap=%d garbage=%s then frame(p1) frame(p2) for all 16 payload pairs", gs::codec_name(codec), cap,
                 shx(g).c_str());
    bool interesting = false;
    for (uint8_t c : g)
        interesting |= gsref::is_marker(M, c);
    std::vector<Bytes> P = payload_set(M);
    uint64_t n = 0;
    for (const Bytes &p1 : P)
        for (const Bytes &p2 : P)
        {
            n++;
            Rig rig(codec, cap, !M.same());
            Run run;
            feed_all(rig, g, run);
            Bytes f1 = gsref::encode(M, p1), f2 = gsref::encode(M, p2);
            size_t s1 = rig.stream.size();
            feed_all(rig, f1, run);
            size_t s2 = rig.stream.size();
            feed_all(rig, f2, run);
            size_t e2 = rig.stream.size() - 1;
            bool ok1 = true, ok2;
            if (!M.same() || g.empty())
                ok1 = expect_frame(rig, run, s1, s2 - 1, p1, "resync.garbage_prefix", "first_frame");
            ok2 = expect_frame(rig, run, s2, e2, p2, "resync.garbage_prefix", "second_frame");
            mc::outcome(mc::fmt("%s deliveries=%zu overflows=%zu ok=%d%d", gs::codec_name(codec), run.deliveries.size(),
                                run.overflows.size(), ok1, ok2));
        }
    if (interesting)
        mc::nontrivial();
    mc::more_cases(n - 1, interesting ? n - 1 : 0);
}

// one fault sequence: `nf` slots (see fault_case) applied to frame(p0) frame(p1) frame(p2)
struct FaultCtx
{
    int codec, cap, k, per;
    gs::Markers M;
    const std::vector<uint8_t> *a;
    const Bytes *p[3];
    Bytes orig;
    std::vector<int> owner;
};
static void run_faulted(const FaultCtx &x, int nf, const int *slot, const char *describe_head, const char *describe_tail)
{
    const std::vector<uint8_t> &a = *x.a;
    const int k = x.k, per = x.per;
    const size_t L = x.orig.size();
    bool touched[3] = {false, false, false};
    size_t fs[3] = {0, 0, 0}, fe[3] = {0, 0, 0};
    bool seen_first[3] = {false, false, false};
    Bytes s;
    std::string what;
    const bool describe = describe_head != nullptr;
    for (size_t i = 0; i <= L; i++)
    {
        // fault at position i: 0 none | 1 delete | 2..k+1 substitute by a[j] | k+2..2k+1 insert a[j] before
        int f = 0;
        for (int q = 0; q < nf; q++)
            if (slot[q] / per == (int)i)
                f = (i < L) ? 1 + slot[q] % per : k + 2 + slot[q] % per;
        bool boundary = i == L || i == 0 || x.owner[i] != x.owner[i - 1];
        if (f >= k + 2)
        { // insertion before byte i
            s.push_back(a[f - k - 2]);
            if (describe)
                what += mc::fmt(" insert %02x before %zu;", a[f - k - 2], i);
            if (i < L && (!boundary || x.M.same()))
                touched[x.owner[i]] = true; // between frames: garbage in front of the next frame (see header)
        }
        if (i == L)
            break;
        int o = x.owner[i];
        if (f == 1)
        {
            touched[o] = true;
            if (describe)
                what += mc::fmt(" delete %zu;", i);
            continue;
        }
        uint8_t c = x.orig[i];
        if (f >= 2 && f < k + 2 && a[f - 2] != c)
        {
            c = a[f - 2];
            touched[o] = true;
            if (describe)
                what += mc::fmt(" byte %zu -> %02x;", i, c);
        }
        if (!seen_first[o])
        {
            seen_first[o] = true;
            fs[o] = s.size();
        }
        fe[o] = s.size();
        s.push_back(c);
    }
    if (describe)
        mc::describe("%s%s%s", describe_head, what.empty() ? " none" : what.c_str(), describe_tail);
    Rig rig(x.codec, x.cap, !x.M.same());
    Run run;
    feed_all(rig, s, run);
    int last_disturbed = -1;
    std::string oc;
    for (int i = 0; i < 3; i++)
    {
        bool fits = (int)x.p[i]->size() + 1 <= x.cap - 1;
        bool required = !touched[i];
        if (x.M.same() && last_disturbed >= 0 && last_disturbed > i - 2)
            required = false;
        if (required)
            oc += expect_frame(rig, run, fs[i], fe[i], *x.p[i], "resync.fault_sequences", "untouched_frame") ? "Y" : "N";
        else
            oc += "-";
        if (touched[i] || !fits)
            last_disturbed = i;
    }
    mc::outcome(mc::fmt("%s %s deliveries=%zu", gs::codec_name(x.codec), oc.c_str(), run.deliveries.size()));
}

static void fault_case(int codec)
{
    FaultCtx x;
    x.codec = codec;
    x.M = gsref::golden(codec);
    static std::vector<uint8_t> A[gs::NCODEC];
    if (A[codec].empty())
        A[codec] = noise_alphabet(x.M);
    x.a = &A[codec];
    x.k = (int)A[codec].size();
    x.per = 1 + 2 * x.k;
    std::vector<Bytes> P = payload_set(x.M);
    int first = mc::choose(64 * 2);
    x.cap = CAPS[first & 1];
    int t = first >> 1;
    x.p[0] = &P[t & 3], x.p[1] = &P[(t >> 2) & 3], x.p[2] = &P[(t >> 4) & 3];
    for (int i = 0; i < 3; i++)
    {
        Bytes f = gsref::encode(x.M, *x.p[i]);
        for (uint8_t c : f)
        {
            x.orig.push_back(c);
            x.owner.push_back(i);
        }
    }
    // fault slots, position-major: position i < L has 1 deletion, k substitutions, k insertions-before;
    // position L (after the last byte) has k insertions.  A fault sequence = 0..bound slots at distinct, increasing
    // positions.  Sequences of 0 or 1 faults are one case each; for two faults a case fixes the first and runs every
    // second one in a loop.
    const int N = (int)x.orig.size() * x.per + x.k;
    int bound = mc::thorough() ? 2 : 1;
    int nf = mc::choose(bound + 1);
    int slot[2] = {-1, -1};
    if (nf >= 1)
        slot[0] = mc::choose(N);
    std::string head = mc::fmt("codec=%s cap=%d payloads %s|%s|%s faults:", gs::codec_name(codec), x.cap, shx(*x.p[0]).c_str(),
                               shx(*x.p[1]).c_str(), shx(*x.p[2]).c_str());
    if (nf <= 1)
    {
        run_faulted(x, nf, slot, head.c_str(), "");
        if (nf)
            mc::nontrivial();
        return;
    }
    int after = (slot[0] / x.per + 1) * x.per; // first slot of the next position
    if (after >= N)
        throw mc::Skip(); // no position left for a second fault: not a case
    slot[1] = after;
    run_faulted(x, 1, slot, head.c_str(), mc::fmt(" then every second fault at a later position (%d)", N - after).c_str());
    mc::nontrivial();
    for (slot[1] = after; slot[1] < N; slot[1]++)
        run_faulted(x, 2, slot, nullptr, nullptr);
    mc::more_cases((uint64_t)(N - after), (uint64_t)(N - after));
}

// ---- large receive buffers ----------------------------------------------------------------------------------
// "every receive buffer size": capacities around the powers of two where a narrowed length/capacity field wraps.
// For each capacity, frames whose unescaped length (payload + CRC byte) is cap-2, cap-1 (exact fit: the receiver
// stores at most cap-1 bytes) and cap (one too many), from three payload patterns, fed byte by byte; then two short
// valid frames.  Expected: a frame that fits is delivered intact on its last byte; the one that does not is answered
// with OVERFLOW and not delivered; afterwards the short frames come out (with START == STOP the first one may be lost
// after the over-long frame).  The monitor judges memory / soundness / overflow on every byte as everywhere else.
static const int LARGE_CAPS_QUICK[] = {127, 128, 129, 255, 256, 257, 300, 511, 512, 1024};
static const int LARGE_CAPS_THOROUGH[] = {9,   16,  17,  31,  32,   33,   63,   64,   65,   127,  128,   129,   130,   254,   255,  256,
                                          257, 258, 300, 511, 512,  513,  1023, 1024, 1025, 4095, 4096,  4097,  32767, 32768, 32769,
                                          65535, 65536, 65537};
static void large_buffer_case(int codec)
{
    gs::Markers M = gsref::golden(codec);
    const int *caps = mc::thorough() ? LARGE_CAPS_THOROUGH : LARGE_CAPS_QUICK;
    int ncaps = mc::thorough() ? (int)(sizeof LARGE_CAPS_THOROUGH / sizeof(int)) : (int)(sizeof LARGE_CAPS_QUICK / sizeof(int));
    int first = mc::choose(ncaps * 9);
    int cap = caps[first / 9];
    int unescaped = cap - 2 + (first % 9) / 3; // payload + CRC byte: cap-2, cap-1 (exact fit), cap (one too many)
    int pattern = first % 3;
    static const char *pname[3] = {"counting bytes", "all 'a'", "all marker bytes"};
    Bytes p;
    for (int i = 0; i < unescaped - 1; i++)
        p.push_back(pattern == 0 ? (uint8_t)(i * 7 + 1) : pattern == 1 ? (uint8_t)'a' : (i % 3 == 0 ? M.start : i % 3 == 1 ? M.stub : M.stop));
    bool fits = unescaped <= cap - 1;
    mc::describe("codec=%s cap=%d frame with %d unescaped bytes (payload %zu + CRC; %s), %s, then two short frames", gs::codec_name(codec), cap,
                 unescaped, p.size(), fits ? (unescaped == cap - 1 ? "exact fit" : "fits") : "one byte too long", pname[pattern]);
    mc::nontrivial();
    Rig rig(codec, cap, !M.same());
    Run run;
    Bytes big = gsref::encode(M, p), small1 = gsref::encode(M, Bytes{'a'}), small2 = gsref::encode(M, Bytes{M.stub, 'b'});
    feed_all(rig, big, run);
    size_t e0 = rig.stream.size() - 1;
    bool ok0 = expect_frame(rig, run, 0, e0, p, "large_buffer", fits ? "frame_that_fits" : "frame_one_byte_too_long");
    size_t s1 = rig.stream.size();
    feed_all(rig, small1, run);
    size_t s2 = rig.stream.size();
    feed_all(rig, small2, run);
    bool ok1 = true;
    if (!M.same() || fits)
        ok1 = expect_frame(rig, run, s1, s2 - 1, Bytes{'a'}, "large_buffer", "first_short_frame_after");
    bool ok2 = expect_frame(rig, run, s2, rig.stream.size() - 1, Bytes{M.stub, 'b'}, "large_buffer", "second_short_frame_after");
    mc::outcome(mc::fmt("%s fits=%d ok=%d%d%d overflows=%zu", gs::codec_name(codec), fits, ok0, ok1, ok2, run.overflows.size()));
}

// ---- a transmission cut at every byte position, then complete frames -----------------------------------------
// frame(p0) truncated after k bytes for EVERY k (in particular right behind the start marker, right behind an escape
// byte, right in front of the stop marker), followed by frame(p1) frame(p2).  p0 ranges over all payloads of length
// 1..3 over {'a', START, STOP, STUB}; (p1,p2) over the 16 pairs of the small payload set; capacities {3, 8}.
// START != STOP: both complete frames must come out; START == STOP: the second must ("from the second at the latest").
static void cut_then_frames_case(int codec)
{
    gs::Markers M = gsref::golden(codec);
    std::vector<uint8_t> sy = {'a', M.start, M.stub};
    if (!M.same())
        sy.push_back(M.stop);
    int k = (int)sy.size();
    int npay = k + k * k + k * k * k;
    int first = mc::choose(npay * 2);
    int cap = CAPS[first & 1];
    int idx = first >> 1;
    Bytes p0;
    if (idx < k)
        p0 = {sy[idx]};
    else if (idx < k + k * k)
        p0 = {sy[(idx - k) / k], sy[(idx - k) % k]};
    else
    {
        int j = idx - k - k * k;
        p0 = {sy[j / (k * k)], sy[j / k % k], sy[j % k]};
    }
    Bytes f0 = gsref::encode(M, p0);
    mc::describe("codec=%s cap=%d frame(%s)=%s cut after every 0..%zu bytes, then frame(p1) frame(p2) for all 16 pairs", gs::codec_name(codec), cap,
                 shx(p0).c_str(), shx(f0).c_str(), f0.size() - 1);
    mc::nontrivial();
    std::vector<Bytes> P = payload_set(M);
    uint64_t n = 0;
    for (size_t cut = 0; cut < f0.size(); cut++)
        for (const Bytes &p1 : P)
            for (const Bytes &p2 : P)
            {
                n++;
                Rig rig(codec, cap, !M.same());
                Run run;
                feed_all(rig, Bytes(f0.begin(), f0.begin() + cut), run);
                size_t s1 = rig.stream.size();
                feed_all(rig, gsref::encode(M, p1), run);
                size_t s2 = rig.stream.size();
                feed_all(rig, gsref::encode(M, p2), run);
                bool ok1 = true;
                if (!M.same() || cut == 0)
                    ok1 = expect_frame(rig, run, s1, s2 - 1, p1, "resync.cut_transmission", "first_frame");
                bool ok2 = expect_frame(rig, run, s2, rig.stream.size() - 1, p2, "resync.cut_transmission", "second_frame");
                mc::outcome(mc::fmt("%s cut ok=%d%d deliveries=%zu", gs::codec_name(codec), ok1, ok2, run.deliveries.size()));
            }
    mc::more_cases(n - 1, n - 1);
}

// ---- long histories: ONE receiver object, hundreds of thousands of bytes -------------------------------------
// The BFS merges states that look equal, so no receiver there ever consumes more than a few dozen bytes.  A counter
// or clock inside the object (narrowed to 16 bits, compared the wrong way round after a wrap) needs ONE object with a
// long life.  Variant 0: >= 200000 (thorough 400000) bytes of back-to-back well-formed frames with payloads of varying
// length and content - every frame must be delivered, intact, on its last byte.  Variants 1..: a stretch of G bytes
// without any complete frame (kind A: idle noise without markers; kind B: one start marker, then data that overflows
// again and again) for every G in 65516..65540 and for 70000 and 131060, then three frames (START != STOP: all three
// delivered; START == STOP: the second and third).  The clause monitor judges every single byte as everywhere else.
static Bytes varied_payload(const gs::Markers &M, unsigned k)
{
    unsigned len = (k * 7) % 11; // 0..10, stride coprime to 11
    Bytes p;
    for (unsigned i = 0; i < len; i++)
    {
        unsigned sel = (k * 5 + i * 3) % 8;
        p.push_back(sel == 0 ? M.start : sel == 1 ? M.stub : sel == 2 ? M.stop : sel == 3 ? 0x00 : sel == 4 ? 0xFF : (uint8_t)(k + i * 13));
    }
    return p;
}
static bool feed_frame_expect(Rig &rig, const gs::Markers &M, const Bytes &p, bool required, const char *what)
{
    Bytes f = gsref::encode(M, p);
    bool ok = false;
    for (size_t i = 0; i < f.size(); i++)
    {
        rig.feed(f[i]);
        if (i + 1 == f.size())
            ok = rig.mon.delivered && rig.mon.packet == p;
        else if (rig.mon.delivered)
            required = true, ok = false, i = f.size(); // a packet in the middle of a frame: the monitor has reported it too
    }
    if (required && !ok)
        mc::violation(mc::fmt("C05.%s.long_history.%s", gs::codec_name(rig.codec), what),
                      "after %zu bytes on this receiver: frame with payload %s was not delivered intact on its last byte (last answer %s)",
                      rig.stream.size(), shx(p).c_str(), gs::status_name(rig.last));
    return ok;
}
static const int LONG_G[] = {65516, 65517, 65518, 65519, 65520, 65521, 65522, 65523, 65524, 65525, 65526, 65527, 65528, 65529, 65530, 65531, 65532,
                             65533, 65534, 65535, 65536, 65537, 65538, 65539, 65540, 70000, 131060};
static void long_history_case(int codec)
{
    gs::Markers M = gsref::golden(codec);
    const int NG = sizeof LONG_G / sizeof LONG_G[0];
    int v = mc::choose(1 + 2 * NG);
    mc::nontrivial();
    Rig rig(codec, 16, !M.same());
    if (v == 0)
    {
        size_t want = mc::thorough() ? 400000 : 200000;
        mc::describe("codec=%s one receiver (cap 16), back-to-back frames with varying payloads until %zu bytes are consumed", gs::codec_name(codec), want);
        unsigned k = 0, bad = 0;
        while (rig.stream.size() < want && bad < 3)
            bad += !feed_frame_expect(rig, M, varied_payload(M, k++), true, "frame_in_clean_traffic_not_delivered");
        mc::outcome(mc::fmt("%s frames=%u bad=%u", gs::codec_name(codec), k, bad));
        mc::count("long_history_bytes", (long)rig.stream.size());
        return;
    }
    int G = LONG_G[(v - 1) % NG], kind = (v - 1) / NG;
    mc::describe("codec=%s one receiver (cap 16): %d bytes without a complete frame (%s), then three frames", gs::codec_name(codec), G,
                 kind == 0 ? "noise without markers" : "a start marker, then data overflowing the line again and again");
    for (int i = 0; i < G; i++)
        rig.feed(kind == 1 && i == 0 ? M.start : (uint8_t)('a' + i % 7));
    bool a = feed_frame_expect(rig, M, Bytes{'x', M.start, 'y'}, !M.same(), "first_frame_after_long_silence_not_delivered");
    bool b = feed_frame_expect(rig, M, Bytes{M.stub}, true, "second_frame_after_long_silence_not_delivered");
    bool c = feed_frame_expect(rig, M, Bytes{}, true, "third_frame_after_long_silence_not_delivered");
    mc::outcome(mc::fmt("%s silence ok=%d%d%d", gs::codec_name(codec), a, b, c));
    mc::count("long_history_bytes", (long)rig.stream.size());
}

// ---- two receivers (of different alphabets, or two of the same kind) alive in one process ------------------------------------------------
// Anything a receiver keeps outside its own object (a function-local static, a cached comparison) is decided by the
// receiver that runs first in the process.  Every case gets a FRESH worker process (mc::request_restart), creates two
// receivers, and feeds them alternately, byte by byte, each with its own stream garbage || frame(p1) || frame(p2);
// which of the two is fed first is a case dimension.  Expectations per receiver as in garbage_prefix.
static void two_receivers_case()
{
    static const int PAIR[6][2] = {{gs::CFG_V1, gs::CFG_V0}, {gs::CFG_V1, gs::LEGACY}, {gs::CFG_V0, gs::LEGACY},
                                   {gs::CFG_V1, gs::CFG_V1}, {gs::CFG_V0, gs::CFG_V0}, {gs::LEGACY, gs::LEGACY}}; // also two of a kind
    int first = mc::choose(6 * 2 * 6 * 6);
    mc::request_restart(); // the next case runs in a process in which no receiver has run yet
    int gb = first % 6, ga = first / 6 % 6, order = first / 36 % 2, pr = first / 72;
    int codec[2] = {PAIR[pr][order], PAIR[pr][1 - order]}; // codec[0] receives the first byte of the process
    int gsel[2] = {ga, gb};
    Bytes stream[2];
    size_t s1[2], s2[2];
    std::vector<Bytes> pay[2];
    for (int t = 0; t < 2; t++)
    {
        gs::Markers M = gsref::golden(codec[t]);
        Bytes G[6] = {{}, {M.start}, {M.start, 'a'}, {M.start, M.stub}, {'a', M.stub}, {M.start, 'a', M.start, 'a'}};
        stream[t] = G[gsel[t]];
        pay[t] = {Bytes{M.start, 'a'}, Bytes{M.stub}};
        s1[t] = stream[t].size();
        for (uint8_t c : gsref::encode(M, pay[t][0]))
            stream[t].push_back(c);
        s2[t] = stream[t].size();
        for (uint8_t c : gsref::encode(M, pay[t][1]))
            stream[t].push_back(c);
    }
    mc::describe("fresh process; receiver %s (stream %s) is fed first, alternating byte by byte with receiver %s (stream %s)", gs::codec_name(codec[0]),
                 shx(stream[0]).c_str(), gs::codec_name(codec[1]), shx(stream[1]).c_str());
    mc::nontrivial();
    Rig *rig[2] = {new Rig(codec[0], 8, !gsref::golden(codec[0]).same()), new Rig(codec[1], 8, !gsref::golden(codec[1]).same())};
    Run run[2];
    for (size_t i = 0; i < stream[0].size() || i < stream[1].size(); i++)
        for (int t = 0; t < 2; t++)
            if (i < stream[t].size())
                feed_all(*rig[t], Bytes(1, stream[t][i]), run[t]);
    for (int t = 0; t < 2; t++)
    {
        bool same = gsref::golden(codec[t]).same();
        const char *scen = t == 0 ? "two_receivers.fed_first" : "two_receivers.fed_second";
        bool ok1 = true;
        if (!same || gsel[t] == 0)
            ok1 = expect_frame(*rig[t], run[t], s1[t], s2[t] - 1, pay[t][0], scen, "first_frame");
        bool ok2 = expect_frame(*rig[t], run[t], s2[t], stream[t].size() - 1, pay[t][1], scen, "second_frame");
        mc::outcome(mc::fmt("%s %s ok=%d%d", gs::codec_name(codec[t]), scen, ok1, ok2));
    }
    delete rig[0];
    delete rig[1];
}

// the library's own context objects / macros must hold the protocol's constants: all traffic here is built from the
// pinned constants (gsref::golden), so a drifted alphabet also shows up as lost frames, and here by name
static void alphabet_constants_case()
{
    int codec = mc::choose(gs::NCODEC);
    mc::describe("alphabet exposed by the library for %s vs. the protocol constants", gs::codec_name(codec));
    mc::nontrivial();
    std::string d = gsref::alphabet_difference(codec);
    mc::outcome(gs::codec_name(codec));
    if (!d.empty())
        mc::violation(mc::fmt("C05.%s.alphabet_constants", gs::codec_name(codec)), "%s: %s", gs::codec_name(codec), d.c_str());
}

MC_INIT
{
    mc::add_check("alphabet_constants", alphabet_constants_case);
    mc::add_check("two_receivers_one_process", two_receivers_case);
    for (int codec = 0; codec < gs::NCODEC; codec++)
    {
        mc::add_check(mc::fmt("garbage_prefix.%s", gs::codec_name(codec)), [codec] { garbage_prefix_case(codec); });
        mc::add_check(mc::fmt("fault_sequences.%s", gs::codec_name(codec)), [codec] { fault_case(codec); });
        mc::add_check(mc::fmt("large_buffers.%s", gs::codec_name(codec)), [codec] { large_buffer_case(codec); });
        mc::add_check(mc::fmt("cut_then_frames.%s", gs::codec_name(codec)), [codec] { cut_then_frames_case(codec); });
        mc::add_check(mc::fmt("long_history.%s", gs::codec_name(codec)), [codec] { long_history_case(codec); });
    }
}
