// gs_iface.hpp — the only thing the checking TUs know about igris' gstuff code.
//
// igris/protocols/gstuff.h (configurable codec) and igris/protocols/gstuff_v1/*.h
// (legacy C codec) define the same macro names with different values, so they
// cannot be included into one translation unit.  Each codec is bound in its own
// TU (gs_bind_cfg.cpp, gs_bind_legacy.cpp) behind this plain interface; the
// oracles and reference models live in TUs that include no igris header at all.
#pragma once
#include <cstddef>
#include <cstdint>
#include <string>
#include <sys/uio.h>
#include <vector>

namespace gs
{
    enum Codec
    {
        CFG_V1 = 0, // gstuff_context()            START A8, STOP B2, STUB C5, codes 8A 2B 5C
        CFG_V0 = 1, // gstuff_context_v0()         START = STOP = AC, STUB AD, codes AE (AE) AF
        LEGACY = 2, // gstuffing_v1 / gstuff_autorecv_v1   same alphabet as CFG_V0, C code
        NCODEC = 3
    };
    inline const char *codec_name(int c) { return c == CFG_V1 ? "cfg_v1" : c == CFG_V0 ? "cfg_v0" : "legacy"; }

    // marker alphabet as the *library* declares it (read from its macros / context struct by the binding TU)
    struct Markers
    {
        uint8_t start, stop, stub, c_start, c_stop, c_stub;
        bool same() const { return start == stop; }
    };
    Markers markers(int codec);

    // receiver status, normalised over the two status code families
    enum Status
    {
        CONTINUE,
        NEWPACKAGE,
        RESTART,  // configurable only (GSTUFF_FORCE_RESTART)
        GARBAGE,  // configurable only
        CRC_ERROR,
        OVERFLOW_,
        STUFF_ERROR, // GSTUFF_STUFFING_ERROR / GSTUFF_DATA_ERROR_V1
        OTHER
    };
    inline const char *status_name(int s)
    {
        static const char *n[] = {"CONTINUE", "NEWPACKAGE", "RESTART", "GARBAGE", "CRC_ERROR", "OVERFLOW", "STUFF_ERROR", "OTHER"};
        return n[s];
    }

    struct Receiver
    {
        virtual ~Receiver() {}
        virtual Status feed(uint8_t c) = 0;
        // Valid right after feed() returned NEWPACKAGE: the delivered packet through the public observers
        // (configurable: cstr()/size(); legacy: the public `line` member minus its trailing CRC byte).
        virtual std::vector<uint8_t> packet() = 0;
        // number of bytes currently stored in the receive buffer (public observer: size() / line.len)
        virtual size_t stored() = 0;
        // the bytes currently stored, through the same public observers (cstr()/size(); line.buf/line.len)
        virtual std::vector<uint8_t> stored_bytes() = 0;
        // re-initialise the receiver on the same buffer through the library's own set-up call
        // variant 0: configurable init(buf,len);  variant 1: configurable setbuf(buf,len);
        // legacy (either variant): gstuff_autorecv_setbuf_v1
        virtual void reinit(int variant = 0) = 0;
        // the receiver's contribution to a BFS state key (C05 only); what it is made of depends on key_mode()
        virtual std::string implkey() = 0;
    };
    // 0: implkey() is the receiver's own automaton fields (state, crc, len, cursor, stored bytes)
    // 1: implkey() is the public observers + a behavioural fingerprint from probing copies (private names unavailable)
    // 2: implkey() is the public observers only: NOT a sound merge key, the search must key on the input history
    int key_mode(int codec);
    // buf/cap: the receive buffer handed to the library (owned by the caller, must outlive the receiver)
    Receiver *make_receiver(int codec, uint8_t *buf, int cap);

    // a configurable receiver for an arbitrary alphabet (gstuff_autorecv(ctx) with a context filled from m)
    Receiver *make_receiver_markers(const Markers &m, uint8_t *buf, int cap);

    // ---- the configurable encoders driven through ONE context object whose contents change (C04 reassigned_context) ----
    enum CtxHow
    {
        SAME_OBJECT_REASSIGNED = 0, // one static gstuff_context, assigned a new alphabet before the call, passed by reference
        BY_VALUE_HELPER = 1,        // the alphabet travels as a by-value gstuff_context parameter of one non-inlined helper
        NCTXHOW
    };
    // encode one byte through a DIFFERENT context object: any per-context state inside the library is in a known state
    // afterwards, whatever earlier cases of the same process did (keeps cases independent of each other)
    void ctx_flush();
    // entry as in Entry below; raw entries write into an exactly 2n+4-byte heap block; the *_v entries get the payload
    // as two pieces split at `split`
    std::vector<uint8_t> encode_ctx(const Markers &m, int how, int entry, const uint8_t *data, size_t n, size_t split);

    // ---- encoder entry points ----
    enum Entry
    {
        RAW,     // int gstuffing(const char*, size_t, char*, ctx)   |  int gstuffing_v1(char*, int, char*)
        RAW_V,   // int gstuffing_v(iovec*, n, char*, ctx)
        VEC,     // std::vector<uint8_t> gstuffing(igris::buffer, ctx)
        VEC_V,   // std::vector<uint8_t> gstuffing_v(iovec*, n, ctx)
        NENTRY
    };
    inline const char *entry_name(int e)
    {
        static const char *n[] = {"gstuffing_raw", "gstuffing_v_raw", "gstuffing_vec", "gstuffing_v_vec"};
        return n[e];
    }
    bool has_entry(int codec, int entry);
    // raw-buffer entries: write into out, return the library's return value
    int encode_raw(int codec, const uint8_t *data, size_t n, uint8_t *out);
    int encode_raw_v(int codec, struct iovec *vec, size_t cnt, uint8_t *out);
    // self-sizing entries
    std::vector<uint8_t> encode_vec(int codec, const uint8_t *data, size_t n);
    std::vector<uint8_t> encode_vec_v(int codec, struct iovec *vec, size_t cnt);
}
