// C05 part 1 — explicit-state search over symbol streams fed to the REAL receivers.
//
// One universe per (codec, capacity).  An operation feeds one symbol:
//   START, STOP, STUB, the three escape codes, data 'a', data 'b',
//   RFIX  the byte (escaped if it is a marker) that closes the CRC of the monitor's "unescaped bytes since the last
//         start marker"  -> reaches every well-formed frame,
//   IFIX  the byte (escaped likewise) that closes the CRC of whatever the receiver currently holds in its buffer
//         (read through the public observers) -> reaches every frame the receiver is prepared to accept, which is
//         exactly where an unsound delivery would happen.
// State key = receiver's private automaton fields (state, crc, len, cursor, stored bytes) (+) the monitor's finite
// abstraction (c05_monitor.hpp).  Both are finite for a fixed capacity, so the search runs to fix-point: the claim is
// "every reachable (receiver, monitor) state x every symbol", independent of stream length.
#include "c05_monitor.hpp"
#include <memory>

enum Sym
{
    S_START,
    S_STOP,
    S_STUB,
    S_CSTART,
    S_CSTOP,
    S_CSTUB,
    S_A,
    S_B,
    S_RFIX,
    S_IFIX,
    S_REINIT,        // appended, so that recorded cases keep their numbering
    S_REINIT_SETBUF, // the same through gstuff_autorecv::setbuf (configurable receivers only)
    NSYM
};
static const char *sym_name[NSYM] = {"START", "STOP", "STUB", "code(START)", "code(STOP)", "code(STUB)", "'a'", "'b'", "RFIX", "IFIX", "re-init", "re-init(setbuf)"};

struct RxModel : mc::Model
{
    Rig rig;
    std::vector<int> ops;
    bool ifix_used = false; // at most one IFIX between two marker bytes (see bytes_of)
    RxModel(int codec, int cap, bool small_alphabet) : rig(codec, cap, !gsref::golden(codec).same())
    {
        bool same = rig.mon.M.same();
        for (int s = 0; s < NSYM; s++)
        {
            if (same && (s == S_STOP || s == S_CSTOP))
                continue; // identical bytes to START / code(START)
            if (small_alphabet && (s == S_B || s == S_CSTOP || s == S_CSTUB))
                continue;
            ops.push_back(s);
        }
    }
    int nops() override { return (int)ops.size(); }
    std::string opname(int op) override { return sym_name[ops[op]]; }
    // the receiver took the previous byte into a frame (or nothing was fed yet): its buffer is not a stale leftover
    bool live() const { return rig.last == gs::CONTINUE || rig.last == gs::RESTART; }
    std::string hist; // symbol history, only used as the key when no sound receiver key is available (key_mode 2)
    std::string key() override
    {
        std::string k = gs::key_mode(rig.codec) == 2 ? "H" + hist + "|" + rig.r->implkey() : rig.r->implkey();
        return k + rig.mon.key() + (ifix_used ? "|i" : "|-") + (live() ? "L" : "-");
    }

    // bytes of a symbol in the current state; false = not enabled
    bool bytes_of(int s, gsref::Bytes &out)
    {
        const gs::Markers &M = rig.mon.M;
        const Monitor &m = rig.mon;
        switch (s)
        {
        case S_START:
            out.push_back(M.start);
            return true;
        case S_STOP:
            out.push_back(M.stop);
            return true;
        case S_STUB:
            out.push_back(M.stub);
            return true;
        case S_CSTART:
            out.push_back(M.c_start);
            return true;
        case S_CSTOP:
            out.push_back(M.c_stop);
            return true;
        case S_CSTUB:
            out.push_back(M.c_stub);
            return true;
        case S_A:
            out.push_back('a');
            return true;
        case S_B:
            out.push_back('b');
            return true;
        case S_RFIX:
            if (!m.started || m.invalid || m.toolong || m.esc)
                return false;
            gsref::put_escaped(M, gsref::crc8(m.d), out);
            return true;
        case S_REINIT:
            return true; // no bytes: handled in apply()
        case S_REINIT_SETBUF:
            return rig.codec != gs::LEGACY; // the legacy receiver has one set-up call only
        case S_IFIX:
        {
            // One IFIX between two marker bytes: the value is a function of the receiver's buffer, and a receiver that
            // keeps accumulating after OVERFLOW (legacy) would otherwise walk the whole 256-value orbit x -> crc8(x)
            // in every buffer position.  The fix byte matters once per frame candidate.
            // Not after an answer other than CONTINUE/RESTART: what the buffer holds then is the leftover of a finished or
            // abandoned frame, and a fix byte computed from it only multiplies states.
            if (m.esc || ifix_used || !live())
                return false;
            uint8_t x = gsref::crc8(rig.r->stored_bytes());
            if (m.started && !m.invalid && !m.toolong && x == gsref::crc8(m.d))
                return false; // same byte as RFIX
            gsref::put_escaped(M, x, out);
            return true;
        }
        }
        return false;
    }
    bool apply(int op) override
    {
        gsref::Bytes bs;
        if (!bytes_of(ops[op], bs))
            return false;
        hist += (char)('a' + op);
        if (ops[op] == S_REINIT || ops[op] == S_REINIT_SETBUF)
        {
            // init()/setbuf() again on the same buffer, in whatever state the receiver is (buffer hand-over, link
            // restart).  From here on the receiver must behave like a fresh one.
            if (rig.mon.started || rig.mon.esc)
                mc::nontrivial();
            rig.reinit(ops[op] == S_REINIT_SETBUF ? 1 : 0);
            ifix_used = false;
            mc::outcome("re-init");
            return true;
        }
        int flagged0 = rig.mon.flagged;
        if (ops[op] == S_IFIX)
            ifix_used = true;
        else if (ops[op] == S_START || ops[op] == S_STOP)
            ifix_used = false;
        for (uint8_t b : bs)
        {
            gs::Status st = rig.feed(b);
            mc::outcome(mc::fmt("%s/%s", gs::status_name(st), rig.mon.phase()));
            if (st != gs::CONTINUE && st != gs::GARBAGE)
                mc::nontrivial();
            if (rig.mon.flagged != flagged0)
                break; // the rest of a two-byte symbol is not fed after a violation
        }
        return true;
    }
};

MC_INIT
{
    if (gs::key_mode(gs::CFG_V1) == 1)
        fprintf(stderr, "NOTE: C05 configurable receiver: BFS key from public observers + probe fingerprint (private member names unavailable)\n");
    if (gs::key_mode(gs::CFG_V1) == 2)
        fprintf(stderr, "NOTE: C05 configurable receiver: no sound state key available, BFS keyed on the symbol history, depth-bounded\n");
    for (int codec = 0; codec < gs::NCODEC; codec++)
        for (int cap = 2; cap <= 8; cap++)
        {
            bool small = cap >= 7;
            mc::BfsOpts o;
            o.max_states = 6000000;
            std::string name = mc::fmt("streams.%s.cap%d%s", gs::codec_name(codec), cap, small ? ".reduced_alphabet" : "");
            o.thorough_only = cap > 5; // quick: capacities 2..5
            if (gs::key_mode(codec) == 2)
            { // no merging on hidden receiver state: every symbol history is its own state, so the depth is bounded
                o.depth_quick = 5;
                o.depth_thorough = 6;
                name += ".history_keyed";
                if (cap > 5)
                    continue;
            }
            mc::add_bfs(name, [codec, cap, small] { return std::unique_ptr<mc::Model>(new RxModel(codec, cap, small)); }, o);
        }
}
MC_MAIN
