// C01 — intrusive lists (C dlist, C++ dlist, slist, hlist): explicit-state BFS to fix-point
// over operation histories on a small universe, against a permutation reference model.
#include "mc.hpp"
#include <cstring>
#include <igris/container/dlist.h>
#include <igris/container/slist.h>
#include <igris/datastruct/dlist.h>
#include <igris/datastruct/hlist.h>
#include <igris/datastruct/slist.h>
#include <algorithm>
#include <memory>
#include <string>
#include <vector>

using std::string;
using std::vector;

// ---------------------------------------------------------------- reference: permutation
struct Perm
{
    vector<int> nx, pv;
    explicit Perm(int n) : nx(n), pv(n)
    {
        for (int i = 0; i < n; i++)
            nx[i] = pv[i] = i;
    }
    void unlink(int x)
    {
        int p = pv[x], q = nx[x];
        nx[p] = q;
        pv[q] = p;
        nx[x] = pv[x] = x;
    }
    void ins_after(int x, int a)
    { // x must be a fixed point
        int q = nx[a];
        nx[a] = x;
        pv[x] = a;
        nx[x] = q;
        pv[q] = x;
    }
    void ins_before(int x, int a) { ins_after(x, pv[a]); }
    vector<int> cycle(int h) const
    {
        vector<int> v;
        for (int i = nx[h]; i != h; i = nx[i])
            v.push_back(i);
        return v;
    }
    bool in_ring(int x, int h) const
    {
        if (x == h)
            return true;
        for (int i = nx[h]; i != h; i = nx[i])
            if (i == x)
                return true;
        return false;
    }
};
static string vstr(const vector<int> &v)
{
    string s;
    for (int x : v)
        s += mc::fmt("%d ", x);
    return s;
}

// ================================================================ A. C dlist
static int g_nodes() { return mc::thorough() ? 5 : 4; }

struct CItem
{
    int key;
    struct dlist_head lnk;
    int pad;
};
static bool cmp_less(CItem *added, CItem *pos) { return added->key < pos->key; }

struct CDlist : mc::Model
{
    enum St
    {
        FRESH,
        INIT, // linked or self-linked: member of the permutation
        POISON
    };
    static const int H = 2;
    int N, E;
    CItem *it; // elements 0..H-1 are heads (embedded in items as well, key unused)
    vector<int> st;
    Perm ref;
    struct Op
    {
        int kind, x, a;
    };
    vector<Op> ops;
    enum
    {
        K_INIT,
        K_ADD_NEXT,
        K_ADD_PREV,
        K_DEL,
        K_DEL_INIT,
        K_MOVE,
        K_MOVE_TAIL,
        K_MOVE_SORTED,
        K_INSTEAD,
        K_FILTER_SAFE,      // dlist_for_each_safe with the body removing / moving the visited node
        K_FILTER_ENTRY_SAFE // dlist_for_each_entry_safe, same bodies
    };
    CDlist() : N(g_nodes()), E(H + N), st(E, FRESH), ref(E)
    {
        it = (CItem *)malloc(sizeof(CItem) * E);
        memset(it, 0xAB, sizeof(CItem) * E);
        for (int i = 0; i < E; i++)
            it[i].key = i;
        // head 0 through dlist_init, head 1 through the static initialiser macro
        dlist_init(&it[0].lnk);
        {
            struct dlist_head tmp = DLIST_HEAD_INIT(it[1].lnk);
            it[1].lnk = tmp;
        }
        for (int h = 0; h < H; h++)
            st[h] = INIT;
        for (int x = H; x < E; x++)
            ops.push_back({K_INIT, x, 0});
        for (int k : {K_ADD_NEXT, K_ADD_PREV, K_MOVE, K_MOVE_TAIL, K_INSTEAD})
            for (int x = H; x < E; x++)
                for (int a = 0; a < E; a++)
                    ops.push_back({k, x, a});
        for (int x = H; x < E; x++)
            ops.push_back({K_DEL, x, 0});
        for (int x = 0; x < E; x++)
            ops.push_back({K_DEL_INIT, x, 0});
        for (int x = H; x < E; x++)
            for (int h = 0; h < H; h++)
                ops.push_back({K_MOVE_SORTED, x, h});
        // x = head whose ring is traversed, a = what the loop body does with the node it stands on:
        // 0/1 del_init nodes of even/odd position, 2 del_init every node, 3 move every node to the other head's tail
        for (int k : {K_FILTER_SAFE, K_FILTER_ENTRY_SAFE})
            for (int h = 0; h < H; h++)
                for (int a = 0; a < 4; a++)
                    ops.push_back({k, h, a});
    }
    ~CDlist() { free(it); }
    int nops() override { return (int)ops.size(); }
    string el(int i) { return i < H ? mc::fmt("H%d", i) : mc::fmt("n%d", i - H); }
    string opname(int o) override
    {
        static const char *nm[] = {"dlist_init", "dlist_add_next", "dlist_add_prev", "dlist_del", "dlist_del_init",
                                   "dlist_move", "dlist_move_tail", "dlist_move_sorted", "dlist_insert_instead"};
        Op &p = ops[o];
        if (p.kind == K_FILTER_SAFE || p.kind == K_FILTER_ENTRY_SAFE)
        {
            static const char *body[] = {"del_init even positions", "del_init odd positions", "del_init every node", "move_tail every node to the other head"};
            return mc::fmt("%s(%s){%s}", p.kind == K_FILTER_SAFE ? "dlist_for_each_safe" : "dlist_for_each_entry_safe", el(p.x).c_str(), body[p.a]);
        }
        if (p.kind == K_INIT || p.kind == K_DEL || p.kind == K_DEL_INIT)
            return mc::fmt("%s(%s)", nm[p.kind], el(p.x).c_str());
        return mc::fmt("%s(%s,%s)", nm[p.kind], el(p.x).c_str(), el(p.a).c_str());
    }
    bool linked(int x) { return st[x] == INIT && ref.nx[x] != x; }
    int idx(struct dlist_head *p)
    {
        for (int i = 0; i < E; i++)
            if (p == &it[i].lnk)
                return i;
        return -1;
    }
    bool apply(int o) override
    {
        Op p = ops[o];
        struct dlist_head *X = &it[p.x].lnk, *A = &it[p.a].lnk;
        const char *sigk = "";
        switch (p.kind)
        {
        case K_INIT:
            if (linked(p.x))
                return false; // re-initialising a linked node is outside the API contract
            dlist_init(X);
            st[p.x] = INIT;
            break;
        case K_ADD_NEXT:
        case K_ADD_PREV:
            if (p.x == p.a || linked(p.x) || st[p.a] != INIT)
                return false; // add* inserts without unlinking: only for nodes not in a list
            mc::crash_context("C01.c_dlist.add.crash");
            if (p.kind == K_ADD_NEXT)
            {
                dlist_add_next(X, A);
                ref.ins_after(p.x, p.a);
            }
            else
            {
                dlist_add_prev(X, A);
                ref.ins_before(p.x, p.a);
            }
            st[p.x] = INIT;
            sigk = "add";
            break;
        case K_DEL:
            if (st[p.x] != INIT)
                return false;
            mc::crash_context("C01.c_dlist.del.crash");
            dlist_del(X);
            ref.unlink(p.x);
            st[p.x] = POISON;
            sigk = "del";
            break;
        case K_DEL_INIT:
            if (st[p.x] != INIT)
                return false;
            mc::crash_context("C01.c_dlist.del_init.crash");
            if (!linked(p.x))
                mc::nontrivial(); // removing an already removed node again
            dlist_del_init(X);
            ref.unlink(p.x);
            sigk = "del_init";
            break;
        case K_MOVE:
        case K_MOVE_TAIL:
            if (st[p.x] != INIT || st[p.a] != INIT)
                return false;
            mc::crash_context("C01.c_dlist.move.crash");
            {
                bool self = p.x == p.a, neigh = ref.nx[p.x] == p.a || ref.pv[p.x] == p.a;
                if (self || neigh)
                    mc::nontrivial();
                int a_after = p.a;
                ref.unlink(p.x);
                if (p.kind == K_MOVE)
                {
                    dlist_move(X, A);
                    ref.ins_after(p.x, a_after);
                }
                else
                {
                    dlist_move_tail(X, A);
                    ref.ins_before(p.x, a_after);
                }
                sigk = self ? "move_next_to_itself" : neigh ? "move_next_to_neighbour" : "move";
            }
            break;
        case K_MOVE_SORTED:
        {
            if (linked(p.x) || st[p.a] != INIT)
                return false;
            // the ring of the head must hold items only (the macro casts every member to an entry)
            for (int i : ref.cycle(p.a))
                if (i < H)
                    return false;
            mc::crash_context("C01.c_dlist.move_sorted.crash");
            CItem *added = &it[p.x];
            struct dlist_head *head = &it[p.a].lnk;
            dlist_move_sorted(added, head, lnk, cmp_less);
            // reference: before the first element with a larger key, else at the tail
            int pos = p.a;
            for (int i : ref.cycle(p.a))
                if (it[p.x].key < it[i].key)
                {
                    pos = i;
                    break;
                }
            ref.ins_before(p.x, pos);
            st[p.x] = INIT;
            sigk = "move_sorted";
            if (ref.cycle(p.a).size() >= 2)
                mc::nontrivial();
            break;
        }
        case K_INSTEAD:
            if (p.x == p.a || linked(p.x) || st[p.a] != INIT)
                return false;
            mc::crash_context("C01.c_dlist.insert_instead.crash");
            dlist_insert_instead(X, A);
            ref.ins_before(p.x, p.a);
            ref.unlink(p.a);
            st[p.x] = INIT;
            sigk = "insert_instead";
            break;
        case K_FILTER_SAFE:
        case K_FILTER_ENTRY_SAFE:
        {
            // the "safe" loops exist so that the body may remove the node the loop stands on
            int other = 1 - p.x;
            if (st[p.x] != INIT || st[other] != INIT)
                return false;
            vector<int> want = ref.cycle(p.x), seen;
            for (int i : want)
                if (i < H)
                    return false; // entry macros cast every ring member to an item
            if (want.empty())
                return false;
            mc::crash_context("C01.c_dlist.for_each_safe.crash");
            mc::nontrivial();
            sigk = p.kind == K_FILTER_SAFE ? "for_each_safe" : "for_each_entry_safe";
            int pos_no = 0;
            bool runaway = false;
            auto body = [&](int i) {
                seen.push_back(i);
                if ((int)seen.size() > 4 * E)
                {
                    runaway = true;
                    return false;
                }
                if (i < 0 || i >= E || st[i] != INIT)
                    return false; // the loop handed the body something that is not a live node
                bool act = p.a == 2 || p.a == 3 || (pos_no % 2) == p.a;
                pos_no++;
                if (act && p.a == 3)
                {
                    dlist_move_tail(&it[i].lnk, &it[other].lnk);
                    ref.unlink(i);
                    ref.ins_before(i, other);
                }
                else if (act)
                {
                    dlist_del_init(&it[i].lnk);
                    ref.unlink(i);
                }
                return true;
            };
            struct dlist_head *hd = &it[p.x].lnk, *pos, *nn;
            CItem *e, *en;
            if (p.kind == K_FILTER_SAFE)
            {
                dlist_for_each_safe(pos, nn, hd) if (!body(idx(pos))) break;
            }
            else
            {
                dlist_for_each_entry_safe(e, en, hd, lnk) if (!body(idx(&e->lnk))) break;
            }
            if (runaway || seen != want)
            {
                mc::violation(mc::fmt("C01.c_dlist.%s.visits", sigk), "%s over ring %s with the body removing nodes visited %s%s", sigk, vstr(want).c_str(),
                              vstr(seen).c_str(), runaway ? " (and did not stop)" : "");
                return true;
            }
            break;
        }
        }
        mc::crash_context("C01.c_dlist.observe.crash");
        check(sigk);
        return true;
    }
    void check(const char *sigk)
    {
        // (1) raw pointer walk == permutation and its inverse
        bool ok = true;
        for (int i = 0; i < E && ok; i++)
        {
            if (st[i] != INIT)
                continue;
            int n = idx(it[i].lnk.next), p = idx(it[i].lnk.prev);
            if (n != ref.nx[i] || p != ref.pv[i])
            {
                mc::violation(mc::fmt("C01.c_dlist.%s.structure", sigk),
                              "element %s: next=%s prev=%s, reference next=%s prev=%s", el(i).c_str(),
                              n < 0 ? "?" : el(n).c_str(), p < 0 ? "?" : el(p).c_str(), el(ref.nx[i]).c_str(), el(ref.pv[i]).c_str());
                ok = false;
            }
        }
        if (!ok)
            return;
        // (2) public observers, from every initialised element taken as ring anchor
        for (int h = 0; h < E; h++)
        {
            if (st[h] != INIT)
                continue;
            struct dlist_head *hd = &it[h].lnk, *pos, *nn;
            vector<int> want = ref.cycle(h), fwd, rev, safe, efwd, erev, esafe;
            dlist_for_each(pos, hd) fwd.push_back(idx(pos));
            dlist_for_each_reverse(pos, hd) rev.push_back(idx(pos));
            dlist_for_each_safe(pos, nn, hd) safe.push_back(idx(pos));
            CItem *e, *en;
            dlist_for_each_entry(e, hd, lnk) efwd.push_back((int)(e - it));
            dlist_for_each_entry_reverse(e, hd, lnk) erev.push_back((int)(e - it));
            dlist_for_each_entry_safe(e, en, hd, lnk) esafe.push_back((int)(e - it));
            // cursor idiom: the entry macro's pointer argument is an expression with a side effect
            vector<int> cur_f;
            for (struct dlist_head *cur = hd; cur->next != hd && (int)cur_f.size() <= E;)
                cur_f.push_back((int)(dlist_entry(cur = cur->next, CItem, lnk) - it));
            vector<int> wrev(want.rbegin(), want.rend());
            if (cur_f != want)
                mc::violation(mc::fmt("C01.c_dlist.%s.forward_cursor", sigk), "from %s dlist_entry(cur = cur->next, ...) walks %s want %s", el(h).c_str(),
                              vstr(cur_f).c_str(), vstr(want).c_str());
            if (fwd != want || safe != want || efwd != want || esafe != want)
                mc::violation(mc::fmt("C01.c_dlist.%s.forward", sigk), "from %s forward %s want %s", el(h).c_str(), vstr(fwd).c_str(), vstr(want).c_str());
            if (rev != wrev || erev != wrev)
                mc::violation(mc::fmt("C01.c_dlist.%s.backward", sigk), "from %s backward %s want %s", el(h).c_str(), vstr(rev).c_str(), vstr(wrev).c_str());
            int sz = (int)want.size();
            if (dlist_size(hd) != sz || dlist_size_reversed(hd) != sz || (dlist_empty(hd) != 0) != (sz == 0) ||
                (dlist_is_linked(hd) != 0) != (sz != 0) || dlist_check(hd, 1000) != sz || dlist_check_reversed(hd, 1000) != sz ||
                !dlist_is_correct(hd))
                mc::violation(mc::fmt("C01.c_dlist.%s.size_queries", sigk), "from %s size=%d rsize=%d empty=%d check=%d want %d",
                              el(h).c_str(), dlist_size(hd), dlist_size_reversed(hd), dlist_empty(hd), dlist_check(hd, 1000), sz);
            for (int x = 0; x < E; x++)
            {
                if (x == h)
                    continue;
                bool in = dlist_in(&it[x].lnk, hd) != 0;
                bool w = st[x] == INIT && ref.in_ring(x, h);
                if (in != w)
                    mc::violation(mc::fmt("C01.c_dlist.%s.membership", sigk), "dlist_in(%s,%s)=%d want %d", el(x).c_str(), el(h).c_str(), in, w);
            }
            mc::outcome(vstr(want));
        }
    }
    string key() override
    {
        string k;
        for (int i = 0; i < E; i++)
            k += mc::fmt("%d:%d,%d,%d|", st[i], st[i] == INIT ? idx(it[i].lnk.next) : -1, st[i] == INIT ? idx(it[i].lnk.prev) : -1, ref.nx[i]);
        return k;
    }
};

// ================================================================ B. C++ dlist
struct XItem
{
    int id;
    igris::dlist_node lnk;
    XItem(int i) : id(i) {}
};
typedef igris::dlist<XItem, &XItem::lnk> XList;

struct XDlist : mc::Model
{
    static const int H = 2;
    int N, E;
    vector<XList *> L;
    vector<XItem *> I;
    vector<bool> alive; // per element
    Perm ref;
    struct Op
    {
        int kind, l, x, a;
    };
    vector<Op> ops;
    enum
    {
        MOVE_FRONT,
        MOVE_BACK,
        BASE_MOVE_FRONT,
        BASE_MOVE_BACK,
        MOVE_NEXT_OBJ,
        MOVE_PREV_OBJ,
        MOVE_NEXT_NODE,
        MOVE_PREV_NODE,
        MOVE_NEXT_ITER,
        MOVE_PREV_ITER,
        POP,
        POP_FRONT,
        POP_BACK,
        CLEAR,
        SPLICE,
        UNLINK,
        DEL_ITEM,
        NEW_ITEM,
        DEL_LIST,
        NEW_LIST
    };
    XDlist() : N(g_nodes()), E(H + N), L(H), I(N), alive(E, true), ref(E)
    {
        for (int h = 0; h < H; h++)
            L[h] = new XList();
        for (int i = 0; i < N; i++)
            I[i] = new XItem(i);
        for (int k : {MOVE_FRONT, MOVE_BACK, BASE_MOVE_FRONT, BASE_MOVE_BACK, POP})
            for (int l = 0; l < H; l++)
                for (int x = 0; x < N; x++)
                    ops.push_back({k, l, x, 0});
        for (int k : {MOVE_NEXT_OBJ, MOVE_PREV_OBJ})
            for (int x = 0; x < N; x++)
                for (int a = 0; a < N; a++)
                    ops.push_back({k, 0, x, H + a});
        for (int k : {MOVE_NEXT_NODE, MOVE_PREV_NODE, MOVE_NEXT_ITER, MOVE_PREV_ITER})
            for (int x = 0; x < N; x++)
                for (int a = 0; a < E; a++)
                    ops.push_back({k, 0, x, a}); // a<H: list head node / end() iterator
        for (int k : {POP_FRONT, POP_BACK, CLEAR, DEL_LIST, NEW_LIST})
            for (int l = 0; l < H; l++)
                ops.push_back({k, l, 0, 0});
        for (int l = 0; l < H; l++)
            for (int m = 0; m < H; m++)
                if (l != m)
                    ops.push_back({SPLICE, l, 0, m});
        for (int k : {UNLINK, DEL_ITEM, NEW_ITEM})
            for (int x = 0; x < N; x++)
                ops.push_back({k, 0, x, 0});
    }
    ~XDlist()
    {
        // tear down without relying on the (possibly corrupt) library state
        for (auto *i : I)
            if (i)
            {
                i->lnk.next = i->lnk.prev = &i->lnk;
                delete i;
            }
        for (auto *l : L)
            if (l)
            {
                igris::dlist_node *hn = l->end().current; // the list's own node, through the public iterator
                hn->next = hn->prev = hn;
                delete l;
            }
    }
    int nops() override { return (int)ops.size(); }
    string el(int i) { return i < H ? mc::fmt("L%d", i) : mc::fmt("i%d", i - H); }
    string opname(int o) override
    {
        static const char *nm[] = {"move_front", "move_back", "dlist_base::move_front", "dlist_base::move_back", "move_next(obj,obj)",
                                   "move_prev(obj,obj)", "move_next(obj,node*)", "move_prev(obj,node*)", "move_next(obj,iterator)",
                                   "move_prev(obj,iterator)", "pop", "pop_front", "pop_back", "clear",
                                   "unlink_and_move_all_nodes_from_other", "node.unlink", "delete item", "new item", "delete list", "new list"};
        Op &p = ops[o];
        return mc::fmt("%s[list L%d, item i%d, anchor/other %s]", nm[p.kind], p.l, p.x, el(p.a).c_str());
    }
    // the head node of a list is what its public end() iterator points at
    igris::dlist_node *node(int e) { return e < H ? L[e]->end().current : &I[e - H]->lnk; }
    int idx(igris::dlist_node *p)
    {
        for (int e = 0; e < E; e++)
            if (alive[e] && node(e) == p)
                return e;
        return -1;
    }
    bool apply(int o) override
    {
        Op p = ops[o];
        int xe = H + p.x;
        const char *sigk = "";
        auto mv = [&](bool next, int anchor) {
            bool self = anchor == xe, neigh = ref.nx[xe] == anchor || ref.pv[xe] == anchor;
            if (self || neigh)
                mc::nontrivial();
            ref.unlink(xe);
            if (next)
                ref.ins_after(xe, anchor);
            else
                ref.ins_before(xe, anchor);
            sigk = self ? "move_next_to_itself" : neigh ? "move_next_to_neighbour" : "move";
        };
        mc::crash_context("C01.cxx_dlist.op%d.crash", p.kind);
        switch (p.kind)
        {
        case MOVE_FRONT:
        case MOVE_BACK:
        case BASE_MOVE_FRONT:
        case BASE_MOVE_BACK:
            if (!alive[p.l] || !alive[xe])
                return false;
            if (p.kind == MOVE_FRONT)
                L[p.l]->move_front(*I[p.x]);
            else if (p.kind == MOVE_BACK)
                L[p.l]->move_back(*I[p.x]);
            else if (p.kind == BASE_MOVE_FRONT)
                ((igris::dlist_base *)L[p.l])->move_front(I[p.x]->lnk);
            else
                ((igris::dlist_base *)L[p.l])->move_back(I[p.x]->lnk);
            mv(p.kind == MOVE_FRONT || p.kind == BASE_MOVE_FRONT, p.l);
            break;
        case MOVE_NEXT_OBJ:
        case MOVE_PREV_OBJ:
            if (!alive[0] || !alive[xe] || !alive[p.a])
                return false;
            if (p.kind == MOVE_NEXT_OBJ)
                L[0]->move_next(*I[p.x], *I[p.a - H]);
            else
                L[0]->move_prev(*I[p.x], *I[p.a - H]);
            mv(p.kind == MOVE_NEXT_OBJ, p.a);
            break;
        case MOVE_NEXT_NODE:
        case MOVE_PREV_NODE:
            if (!alive[0] || !alive[xe] || !alive[p.a])
                return false;
            if (p.kind == MOVE_NEXT_NODE)
                L[0]->move_next(*I[p.x], node(p.a));
            else
                L[0]->move_prev(*I[p.x], node(p.a));
            mv(p.kind == MOVE_NEXT_NODE, p.a);
            break;
        case MOVE_NEXT_ITER:
        case MOVE_PREV_ITER:
        {
            if (!alive[0] || !alive[xe] || !alive[p.a])
                return false;
            XList::iterator itr(node(p.a)); // a<H: that list's end()
            if (p.a < H)
                itr = L[p.a]->end();
            if (p.kind == MOVE_NEXT_ITER)
                L[0]->move_next(*I[p.x], itr);
            else
                L[0]->move_prev(*I[p.x], itr);
            mv(p.kind == MOVE_NEXT_ITER, p.a);
            break;
        }
        case POP:
            if (!alive[p.l] || !alive[xe])
                return false;
            if (ref.nx[xe] == xe)
                mc::nontrivial(); // removing an unlinked node again
            L[p.l]->pop(*I[p.x]);
            ref.unlink(xe);
            sigk = "pop";
            break;
        case UNLINK:
            if (!alive[xe])
                return false;
            I[p.x]->lnk.unlink();
            ref.unlink(xe);
            sigk = "pop";
            break;
        case POP_FRONT:
        case POP_BACK:
            if (!alive[p.l])
                return false;
            if (p.kind == POP_FRONT)
            {
                int v = ref.nx[p.l];
                L[p.l]->pop_front();
                ref.unlink(v);
            }
            else
            {
                int v = ref.pv[p.l];
                L[p.l]->pop_back();
                ref.unlink(v);
            }
            sigk = "pop_end";
            break;
        case CLEAR:
            if (!alive[p.l])
                return false;
            L[p.l]->clear();
            for (int v : ref.cycle(p.l))
                ref.unlink(v);
            sigk = "clear";
            break;
        case SPLICE:
        {
            if (!alive[p.l] || !alive[p.a])
                return false;
            bool src_empty = ref.nx[p.a] == p.a, dst_empty = ref.nx[p.l] == p.l;
            mc::nontrivial();
            L[p.l]->unlink_and_move_all_nodes_from_other(std::move(*L[p.a]));
            // reference: destination head leaves its ring and takes the place of the source head
            ref.unlink(p.l);
            ref.ins_after(p.l, p.a);
            ref.unlink(p.a);
            sigk = src_empty ? "splice_from_empty" : dst_empty ? "splice" : "splice_into_nonempty";
            break;
        }
        case DEL_ITEM:
            if (!alive[xe])
                return false;
            delete I[p.x];
            I[p.x] = nullptr;
            alive[xe] = false;
            ref.unlink(xe);
            sigk = "destroy_node";
            break;
        case NEW_ITEM:
            if (alive[xe])
                return false;
            I[p.x] = new XItem(p.x);
            alive[xe] = true;
            sigk = "new";
            break;
        case DEL_LIST:
            if (!alive[p.l])
                return false;
            for (int v : ref.cycle(p.l))
                ref.unlink(v);
            delete L[p.l];
            L[p.l] = nullptr;
            alive[p.l] = false;
            sigk = "destroy_list";
            break;
        case NEW_LIST:
            if (alive[p.l])
                return false;
            L[p.l] = new XList();
            alive[p.l] = true;
            sigk = "new";
            break;
        }
        mc::crash_context("C01.cxx_dlist.%s.observe.crash", sigk);
        check(sigk);
        return true;
    }
    void check(const char *sigk)
    {
        bool ok = true;
        for (int e = 0; e < E && ok; e++)
        {
            if (!alive[e])
                continue;
            int n = idx(node(e)->next), p = idx(node(e)->prev);
            if (n != ref.nx[e] || p != ref.pv[e])
            {
                mc::violation(mc::fmt("C01.cxx_dlist.%s.structure", sigk), "element %s: next=%s prev=%s, reference next=%s prev=%s",
                              el(e).c_str(), n < 0 ? "?" : el(n).c_str(), p < 0 ? "?" : el(p).c_str(), el(ref.nx[e]).c_str(),
                              el(ref.pv[e]).c_str());
                ok = false;
            }
        }
        if (!ok)
            return;
        for (int l = 0; l < H; l++)
        {
            if (!alive[l])
                continue;
            XList &q = *L[l];
            vector<int> want = ref.cycle(l), fwd, rev, fwd2;
            for (auto i = q.begin(); i != q.end(); ++i)
                fwd.push_back(H + i->id);
            for (auto i = q.begin(); i != q.end(); i++)
                fwd2.push_back(H + (*i).id);
            for (auto i = q.rbegin(); i != q.rend(); ++i)
                rev.push_back(H + i->id);
            vector<int> wrev(want.rbegin(), want.rend()), back;
            // reverse walk of the forward iterator from end()
            for (auto i = q.end(); i != q.begin();)
            {
                --i;
                back.push_back(H + i->id);
            }
            // the same walks with the other increment/decrement forms, and the const overloads
            {
                vector<int> b2, r2, cf;
                for (auto i = q.end(); i != q.begin();)
                {
                    i--;
                    b2.push_back(H + (*i).id);
                }
                for (auto i = q.rbegin(); i != q.rend(); i++)
                    r2.push_back(H + (*i).id);
                // reverse iterator walked backwards from rend() gives the forward order
                vector<int> rb;
                for (auto i = q.rend(); i != q.rbegin();)
                {
                    --i;
                    rb.push_back(H + i->id);
                }
                const XList &cq = q;
                for (auto i = cq.begin(); i != cq.end(); ++i)
                    cf.push_back(H + i->id);
                // the VALUE of the postfix forms is the old position: `*it++` / `*it--` idioms
                {
                    vector<int> pf, pr, pb;
                    for (auto i = q.begin(); i != q.end() && pf.size() <= want.size();)
                        pf.push_back(H + (*i++).id);
                    for (auto i = q.rbegin(); i != q.rend() && pr.size() <= want.size();)
                        pr.push_back(H + (*i++).id);
                    if (!want.empty())
                    {
                        auto i = q.end();
                        --i; // last element
                        while (pb.size() < want.size())
                        {
                            bool first = (i == q.begin());
                            if (first)
                            {
                                pb.push_back(H + (*i).id);
                                break;
                            }
                            pb.push_back(H + (*i--).id);
                        }
                    }
                    if (pf != want || pr != wrev || pb != wrev)
                        mc::violation(mc::fmt("C01.cxx_dlist.%s.postfix_value", sigk), "%s: *it++ forward %s (want %s), *rit++ %s, *it-- %s (want %s)", el(l).c_str(),
                                      vstr(pf).c_str(), vstr(want).c_str(), vstr(pr).c_str(), vstr(pb).c_str(), vstr(wrev).c_str());
                }
                if (b2 != wrev || r2 != wrev)
                    mc::violation(mc::fmt("C01.cxx_dlist.%s.backward", sigk), "%s postfix backward walk %s / %s want %s", el(l).c_str(),
                                  vstr(b2).c_str(), vstr(r2).c_str(), vstr(wrev).c_str());
                if (rb != want || cf != want)
                    mc::violation(mc::fmt("C01.cxx_dlist.%s.forward", sigk), "%s reverse_iterator-- / const walk %s / %s want %s", el(l).c_str(),
                                  vstr(rb).c_str(), vstr(cf).c_str(), vstr(want).c_str());
            }
            // only items may be in a list's ring in this universe (heads never share a ring)
            for (int v : want)
                if (v < H)
                    mc::harness_error("C01 model: two heads in one ring");
            if (fwd != want || fwd2 != want)
                mc::violation(mc::fmt("C01.cxx_dlist.%s.forward", sigk), "%s forward %s want %s", el(l).c_str(), vstr(fwd).c_str(), vstr(want).c_str());
            if (rev != wrev || back != wrev)
                mc::violation(mc::fmt("C01.cxx_dlist.%s.backward", sigk), "%s backward %s want %s", el(l).c_str(), vstr(rev).c_str(), vstr(wrev).c_str());
            size_t sz = want.size();
            bool qok = q.size() == sz && q.empty() == (sz == 0) && q.is_correct() && q.end().current->circular_size() == sz + 1 &&
                       q.end().current->reverse_circular_size() == sz + 1;
            if (sz)
                qok = qok && q.front().id == want.front() - H && q.back().id == want.back() - H && q.first().id == want.front() - H &&
                      q.first_node() == node(want.front()) && q.last_node() == node(want.back());
            if (!qok)
                mc::violation(mc::fmt("C01.cxx_dlist.%s.size_queries", sigk), "%s size=%zu empty=%d want %zu", el(l).c_str(), q.size(), q.empty(), sz);
            mc::outcome(vstr(want));
        }
        for (int x = H; x < E; x++)
        {
            if (!alive[x])
                continue;
            bool lk = ref.nx[x] != x;
            igris::dlist_node &n = I[x - H]->lnk;
            if (n.is_linked() != lk || n.is_unlinked() == lk || n.empty() == lk)
                mc::violation(mc::fmt("C01.cxx_dlist.%s.is_linked", sigk), "%s is_linked=%d want %d", el(x).c_str(), n.is_linked(), lk);
        }
    }
    string key() override
    {
        string k;
        for (int e = 0; e < E; e++)
            k += alive[e] ? mc::fmt("%d,%d,%d|", idx(node(e)->next), idx(node(e)->prev), ref.nx[e]) : string("x|");
        return k;
    }
};

// ================================================================ C. slist (C functions + C++ wrapper)
struct SItem
{
    int id;
    struct slist_head lnk;
};
typedef igris::slist<SItem, &SItem::lnk> SList;
struct SlistModel : mc::Model
{
    // list 0,1: plain C heads; list 2: the C++ wrapper's own head
    static const int H = 3;
    int N;
    struct slist_head heads[2];
    SList wrap;
    vector<SItem> it;
    vector<vector<int>> ref; // per list: node ids front to back
    vector<int> where;       // node -> list or -1
    struct Op
    {
        int kind, l, x, a;
    };
    vector<Op> ops;
    enum
    {
        ADD_HEAD,
        ADD_AFTER,
        POP_FIRST,
        XX_ADD_FIRST,
        XX_MOVE_FRONT,
        POP_FIRST_ENTRY // slist_pop_first_entry: the macro's argument is a call with a side effect
    };
    SlistModel() : N(g_nodes()), it(N), ref(H), where(N, -1)
    {
        slist_init(&heads[0]);
        {
            struct slist_head tmp = SLIST_HEAD_INIT(heads[1]);
            heads[1] = tmp;
        }
        for (int i = 0; i < N; i++)
        {
            it[i].id = i;
            it[i].lnk.next = (struct slist_head *)0xABABABAB;
        }
        for (int l = 0; l < H; l++)
            for (int x = 0; x < N; x++)
                ops.push_back({ADD_HEAD, l, x, 0});
        for (int x = 0; x < N; x++)
            for (int a = 0; a < N; a++)
                if (a != x)
                    ops.push_back({ADD_AFTER, 0, x, a});
        for (int l = 0; l < H; l++)
            ops.push_back({POP_FIRST, l, 0, 0});
        for (int l = 0; l < H; l++)
            ops.push_back({POP_FIRST_ENTRY, l, 0, 0});
        for (int x = 0; x < N; x++)
        {
            ops.push_back({XX_ADD_FIRST, 2, x, 0});
            ops.push_back({XX_MOVE_FRONT, 2, x, 0});
        }
    }
    // the wrapper's own head is what its public end() iterator points at
    struct slist_head *head(int l) { return l < 2 ? &heads[l] : wrap.end().current; }
    int nops() override { return (int)ops.size(); }
    string opname(int o) override
    {
        static const char *nm[] = {"slist_add(n,head)", "slist_add(n,after node)", "slist_pop_first", "slist::add_first", "slist::move_front", "slist_pop_first_entry"};
        Op &p = ops[o];
        return mc::fmt("%s[list %d, node %d, anchor %d]", nm[p.kind], p.l, p.x, p.a);
    }
    bool apply(int o) override
    {
        Op p = ops[o];
        const char *sigk = "add";
        mc::crash_context("C01.slist.op%d.crash", p.kind);
        switch (p.kind)
        {
        case ADD_HEAD:
            if (where[p.x] >= 0)
                return false;
            slist_add(&it[p.x].lnk, head(p.l));
            ref[p.l].insert(ref[p.l].begin(), p.x);
            where[p.x] = p.l;
            break;
        case ADD_AFTER:
        {
            if (where[p.x] >= 0 || where[p.a] < 0)
                return false;
            int l = where[p.a];
            slist_add(&it[p.x].lnk, &it[p.a].lnk);
            auto &v = ref[l];
            for (size_t i = 0; i < v.size(); i++)
                if (v[i] == p.a)
                {
                    v.insert(v.begin() + i + 1, p.x);
                    break;
                }
            where[p.x] = l;
            mc::nontrivial();
            break;
        }
        case POP_FIRST:
        {
            struct slist_head *r = slist_pop_first(head(p.l));
            sigk = "pop_first";
            if (ref[p.l].empty())
            {
                if (r != NULL)
                    mc::violation("C01.slist.pop_first.empty", "pop_first on an empty list returned non-null");
            }
            else
            {
                int w = ref[p.l].front();
                if (r != &it[w].lnk)
                    mc::violation("C01.slist.pop_first.value", "pop_first returned the wrong node, want %d", w);
                ref[p.l].erase(ref[p.l].begin());
                where[w] = -1;
                if (slist_entry(r, SItem, lnk) != &it[w])
                    mc::violation("C01.slist.entry", "slist_entry mismatch");
            }
            break;
        }
        case POP_FIRST_ENTRY:
        {
            if (ref[p.l].empty())
                return false; // the entry form has no "empty" answer
            SItem *e = slist_pop_first_entry(head(p.l), SItem, lnk);
            sigk = "pop_first_entry";
            int w = ref[p.l].front();
            if (e != &it[w])
                mc::violation("C01.slist.pop_first_entry.value", "slist_pop_first_entry returned the wrong element, want %d", w);
            ref[p.l].erase(ref[p.l].begin());
            where[w] = -1;
            break;
        }
        case XX_ADD_FIRST:
        case XX_MOVE_FRONT:
            if (where[p.x] >= 0)
                return false; // neither unlinks: only for nodes that are in no list
            if (p.kind == XX_ADD_FIRST)
                wrap.add_first(it[p.x]);
            else
                wrap.move_front(it[p.x]);
            ref[2].insert(ref[2].begin(), p.x);
            where[p.x] = 2;
            break;
        }
        mc::crash_context("C01.slist.observe.crash");
        for (int l = 0; l < H; l++)
        {
            // bounded raw walk first
            vector<int> raw;
            struct slist_head *q = head(l)->next;
            int steps = 0;
            while (q != head(l) && steps++ < 20)
            {
                int id = -1;
                for (int i = 0; i < N; i++)
                    if (q == &it[i].lnk)
                        id = i;
                raw.push_back(id);
                if (id < 0)
                    break;
                q = q->next;
            }
            if (raw != ref[l])
            {
                mc::violation(mc::fmt("C01.slist.%s.structure", sigk), "list %d is %s want %s", l, vstr(raw).c_str(), vstr(ref[l]).c_str());
                return true;
            }
            vector<int> a, b;
            struct slist_head *pos;
            SItem *e;
            slist_for_each(pos, head(l)) a.push_back((int)(slist_entry(pos, SItem, lnk) - &it[0]));
            slist_for_each_entry(e, head(l), lnk) b.push_back(e->id);
            if (a != ref[l] || b != ref[l])
                mc::violation(mc::fmt("C01.slist.%s.forward", sigk), "list %d iterates %s want %s", l, vstr(a).c_str(), vstr(ref[l]).c_str());
            if (slist_size(head(l)) != (int)ref[l].size() || (slist_empty(head(l)) != 0) != ref[l].empty())
                mc::violation(mc::fmt("C01.slist.%s.size_queries", sigk), "list %d size %d want %zu", l, slist_size(head(l)), ref[l].size());
            for (int x = 0; x < N; x++)
                if ((slist_in(head(l), &it[x].lnk) != 0) != (where[x] == l))
                    mc::violation(mc::fmt("C01.slist.%s.membership", sigk), "slist_in(list %d,node %d) wrong", l, x);
            mc::outcome(vstr(ref[l]));
        }
        {
            vector<int> c, d;
            for (auto i = wrap.begin(); i != wrap.end(); ++i)
                c.push_back(i->id);
            for (auto i = wrap.begin(); i != wrap.end(); i++)
                d.push_back((*i).id);
            if (c != ref[2] || d != ref[2] || wrap.empty() != ref[2].empty())
                mc::violation(mc::fmt("C01.slist.%s.cxx_iteration", sigk), "wrapper iterates %s want %s", vstr(c).c_str(), vstr(ref[2]).c_str());
        }
        return true;
    }
    string key() override
    {
        string k;
        for (int l = 0; l < H; l++)
            k += vstr(ref[l]) + "|";
        return k;
    }
};

// ================================================================ D. hlist
struct HItem
{
    int id;
    struct hlist_node lnk;
};
struct HlistModel : mc::Model
{
    static const int H = 2;
    int N;
    struct hlist_head heads[H];
    vector<HItem> it;
    vector<vector<int>> ref;
    vector<int> where;   // -1 fresh(node_init'ed), -2 deleted (stale pprev), else list
    struct Op
    {
        int kind, l, x, a;
    };
    vector<Op> ops;
    enum
    {
        ADD_FIRST,
        ADD_AFTER,
        DEL,
        NODE_INIT
    };
    HlistModel() : N(g_nodes()), it(N), ref(H), where(N, -1)
    {
        for (int l = 0; l < H; l++)
            hlist_head_init(&heads[l]);
        for (int i = 0; i < N; i++)
        {
            it[i].id = i;
            it[i].lnk.next = (struct hlist_node *)0xABABABAB;
            hlist_node_init(&it[i].lnk);
        }
        for (int l = 0; l < H; l++)
            for (int x = 0; x < N; x++)
                ops.push_back({ADD_FIRST, l, x, 0});
        for (int x = 0; x < N; x++)
            for (int a = 0; a < N; a++)
                if (a != x)
                    ops.push_back({ADD_AFTER, 0, x, a});
        for (int x = 0; x < N; x++)
        {
            ops.push_back({DEL, 0, x, 0});
            ops.push_back({NODE_INIT, 0, x, 0});
        }
    }
    int nops() override { return (int)ops.size(); }
    string opname(int o) override
    {
        static const char *nm[] = {"hlist_add_next(n,&head.first)", "hlist_add_next(n,&anchor.next)", "hlist_del", "hlist_node_init"};
        Op &p = ops[o];
        return mc::fmt("%s[list %d, node %d, anchor %d]", nm[p.kind], p.l, p.x, p.a);
    }
    bool apply(int o) override
    {
        Op p = ops[o];
        const char *sigk = "add";
        mc::crash_context("C01.hlist.op%d.crash", p.kind);
        switch (p.kind)
        {
        case ADD_FIRST:
            if (where[p.x] >= 0)
                return false;
            hlist_add_next(&it[p.x].lnk, &heads[p.l].first);
            ref[p.l].insert(ref[p.l].begin(), p.x);
            where[p.x] = p.l;
            break;
        case ADD_AFTER:
        {
            if (where[p.x] >= 0 || where[p.a] < 0)
                return false;
            int l = where[p.a];
            hlist_add_next(&it[p.x].lnk, &it[p.a].lnk.next);
            auto &v = ref[l];
            for (size_t i = 0; i < v.size(); i++)
                if (v[i] == p.a)
                {
                    v.insert(v.begin() + i + 1, p.x);
                    break;
                }
            where[p.x] = l;
            mc::nontrivial();
            break;
        }
        case DEL:
            // hlist_del does not reset pprev: repeating it without re-insertion is outside the
            // contract (the property's idempotence clause names the dlist flavours only);
            // on a node_init'ed node it is a documented no-op.
            if (where[p.x] == -2)
                return false;
            hlist_del(&it[p.x].lnk);
            sigk = "del";
            if (where[p.x] >= 0)
            {
                auto &v = ref[where[p.x]];
                for (size_t i = 0; i < v.size(); i++)
                    if (v[i] == p.x)
                    {
                        v.erase(v.begin() + i);
                        break;
                    }
                where[p.x] = -2;
                mc::nontrivial();
            }
            break;
        case NODE_INIT:
            if (where[p.x] >= 0)
                return false;
            hlist_node_init(&it[p.x].lnk);
            where[p.x] = -1;
            break;
        }
        mc::crash_context("C01.hlist.observe.crash");
        for (int l = 0; l < H; l++)
        {
            vector<int> raw;
            struct hlist_node *q = heads[l].first;
            struct hlist_node **back = &heads[l].first;
            int steps = 0;
            bool backok = true;
            while (q && steps++ < 20)
            {
                int id = -1;
                for (int i = 0; i < N; i++)
                    if (q == &it[i].lnk)
                        id = i;
                raw.push_back(id);
                if (id < 0)
                    break;
                if (q->pprev != back)
                    backok = false;
                back = &q->next;
                q = q->next;
            }
            if (raw != ref[l])
            {
                mc::violation(mc::fmt("C01.hlist.%s.structure", sigk), "list %d is %s want %s", l, vstr(raw).c_str(), vstr(ref[l]).c_str());
                return true;
            }
            if (!backok)
                mc::violation(mc::fmt("C01.hlist.%s.back_pointer", sigk), "list %d: a node's pprev does not point at its predecessor's link", l);
            vector<int> a, b;
            struct hlist_node *pos;
            HItem *e;
            hlist_for_each(pos, &heads[l]) a.push_back(hlist_entry(pos, HItem, lnk)->id);
            hlist_for_each_entry(e, &heads[l], lnk) b.push_back(e->id);
            if (a != ref[l] || b != ref[l])
                mc::violation(mc::fmt("C01.hlist.%s.forward", sigk), "list %d iterates %s want %s", l, vstr(a).c_str(), vstr(ref[l]).c_str());
            if (!ref[l].empty() && hlist_first_entry(&heads[l], HItem, lnk)->id != ref[l][0])
                mc::violation(mc::fmt("C01.hlist.%s.first_entry", sigk), "list %d", l);
            mc::outcome(vstr(ref[l]));
        }
        return true;
    }
    string key() override
    {
        string k;
        for (int l = 0; l < H; l++)
            k += vstr(ref[l]) + "|";
        for (int x = 0; x < N; x++)
            k += mc::fmt("%d,", where[x] >= 0 ? 0 : where[x]);
        return k;
    }
};

// ================================================================ E. long lists (any number of nodes)
// Sizes around 1000 (dlist_check's customary step limit) and 65536: counting and traversal must not depend
// on a bounded helper or a narrow counter.
static void long_lists()
{
    static const int NS[] = {255, 256, 257, 999, 1000, 1001, 1100, 65535, 65536, 65537};
    int n = NS[mc::choose(mc::thorough() ? 10 : 7)];
    int flavour = mc::choose(4);
    mc::describe("%d nodes, %s", n, flavour == 0 ? "C dlist" : flavour == 1 ? "C++ dlist" : flavour == 2 ? "slist" : "hlist");
    mc::nontrivial();
    if (flavour == 0)
    {
        std::vector<CItem> it(n + 1);
        struct dlist_head *h = &it[n].lnk, *pos;
        dlist_init(h);
        for (int i = 0; i < n; i++)
        {
            it[i].key = i;
            if (i % 2)
                dlist_add_prev(&it[i].lnk, h);
            else
                dlist_add_next(&it[i].lnk, h);
        }
        mc::crash_context("C01.c_dlist.long_list.crash");
        long cnt = 0, rcnt = 0;
        dlist_for_each(pos, h) cnt++;
        dlist_for_each_reverse(pos, h) rcnt++;
        if (dlist_size(h) != n || dlist_size_reversed(h) != n || cnt != n || rcnt != n || dlist_empty(h))
            mc::violation("C01.c_dlist.long_list.size_queries", "%d nodes: dlist_size=%d dlist_size_reversed=%d for_each=%ld reverse=%ld", n,
                          dlist_size(h), dlist_size_reversed(h), cnt, rcnt);
        // the node linked first with add_prev is at the tail end, the last add_next one at the front
        if (!dlist_in(&it[n - 1].lnk, h) || !dlist_in(&it[0].lnk, h) || dlist_in(h, &it[0].lnk) == 0)
            mc::violation("C01.c_dlist.long_list.membership", "%d nodes: dlist_in wrong for a far node", n);
        // remove every other node, re-count
        for (int i = 0; i < n; i += 2)
            dlist_del_init(&it[i].lnk);
        if (dlist_size(h) != n / 2 || dlist_size_reversed(h) != n / 2)
            mc::violation("C01.c_dlist.long_list.size_queries", "%d nodes after removing every other: size %d want %d", n, dlist_size(h), n / 2);
    }
    else if (flavour == 1)
    {
        XList q;
        std::vector<std::unique_ptr<XItem>> it;
        for (int i = 0; i < n; i++)
        {
            it.emplace_back(new XItem(i));
            if (i % 2)
                q.move_back(*it.back());
            else
                q.move_front(*it.back());
        }
        mc::crash_context("C01.cxx_dlist.long_list.crash");
        long cnt = 0, rcnt = 0;
        for (auto i = q.begin(); i != q.end(); ++i)
            cnt++;
        for (auto i = q.rbegin(); i != q.rend(); ++i)
            rcnt++;
        if ((long)q.size() != n || cnt != n || rcnt != n || !q.is_correct() || q.empty())
            mc::violation("C01.cxx_dlist.long_list.size_queries", "%d nodes: size=%zu forward=%ld backward=%ld is_correct=%d", n, q.size(), cnt, rcnt,
                          (int)q.is_correct());
        for (int i = 0; i < n; i += 2)
            it[i].reset(); // destroying a node unlinks it
        if ((long)q.size() != n / 2)
            mc::violation("C01.cxx_dlist.long_list.size_queries", "%d nodes after destroying every other: size %zu want %d", n, q.size(), n / 2);
        q.clear();
        for (auto &p : it)
            if (p && p->lnk.is_linked())
            {
                mc::violation("C01.cxx_dlist.long_list.is_linked", "a node is still linked after clear()");
                break;
            }
    }
    else if (flavour == 2)
    {
        std::vector<SItem> it(n);
        struct slist_head h;
        slist_init(&h);
        for (int i = 0; i < n; i++)
        {
            it[i].id = i;
            slist_add(&it[i].lnk, &h);
        }
        mc::crash_context("C01.slist.long_list.crash");
        if (slist_size(&h) != n || !slist_in(&h, &it[0].lnk) || !slist_in(&h, &it[n - 1].lnk))
            mc::violation("C01.slist.long_list.size_queries", "%d nodes: slist_size=%d", n, slist_size(&h));
        long popped = 0;
        while (slist_pop_first(&h))
            popped++;
        if (popped != n || !slist_empty(&h))
            mc::violation("C01.slist.long_list.pop_first", "%d nodes: popped %ld", n, popped);
    }
    else
    {
        std::vector<HItem> it(n);
        struct hlist_head h;
        hlist_head_init(&h);
        for (int i = 0; i < n; i++)
        {
            it[i].id = i;
            hlist_node_init(&it[i].lnk);
            hlist_add_next(&it[i].lnk, &h.first);
        }
        mc::crash_context("C01.hlist.long_list.crash");
        long cnt = 0, ecnt = 0;
        struct hlist_node *pos;
        HItem *e;
        hlist_for_each(pos, &h) cnt++;
        hlist_for_each_entry(e, &h, lnk) ecnt++;
        for (int i = 0; i < n; i += 2)
            hlist_del(&it[i].lnk);
        long cnt2 = 0;
        hlist_for_each(pos, &h) cnt2++;
        if (cnt != n || ecnt != n || cnt2 != n / 2)
            mc::violation("C01.hlist.long_list.forward", "%d nodes: for_each=%ld for_each_entry=%ld after deleting every other=%ld", n, cnt, ecnt, cnt2);
    }
}

// ================================================================ F. one element on several lists at once
// An intrusive element may carry several link members of the same type and sit on one list per member
// (schedee on a run queue and a wait queue).  Every list must hand back the element that owns the link it
// holds, whichever member that is: all histories of `depth` operations over 3 elements x 2 members, for the
// C++ dlist, the C++ slist and the C entry macros.
struct TwoX
{
    int id;
    igris::dlist_node la;
    int gap[3];
    igris::dlist_node lb;
    struct slist_head sa;
    long gap2;
    struct slist_head sb;
    TwoX(int i) : id(i) { sa.next = sb.next = nullptr; }
};
struct TwoC
{
    int id;
    struct dlist_head la;
    int gap[3];
    struct dlist_head lb;
};
static void two_links_per_element()
{
    const int N = 3, D = mc::thorough() ? 5 : 4;
    // op = element * 6 + {A.move_back, A.move_front, B.move_back, B.move_front, A.pop, B.pop}
    int first = mc::choose(N * 6 * N * 6);
    vector<int> hist = {first / (N * 6), first % (N * 6)};
    for (int d = 2; d < D; d++)
        hist.push_back(mc::choose(N * 6));
    string desc;
    for (int o : hist)
        desc += mc::fmt("%c.%s(e%d) ", "AABBAB"[o % 6], (o % 6) >= 4 ? "pop" : (o % 6) % 2 ? "move_front" : "move_back", o / 6);
    mc::describe("two link members per element: %s", desc.c_str());
    mc::crash_context("C01.two_links.crash");
    {
        TwoX e0(0), e1(1), e2(2);
        TwoX *e[N] = {&e0, &e1, &e2};
        igris::dlist<TwoX, &TwoX::la> A;
        igris::dlist<TwoX, &TwoX::lb> B;
        TwoC c[N];
        struct dlist_head ca, cb;
        dlist_init(&ca);
        dlist_init(&cb);
        for (int i = 0; i < N; i++)
        {
            c[i].id = i;
            dlist_init(&c[i].la);
            dlist_init(&c[i].lb);
        }
        vector<int> ra, rb; // reference
        auto drop = [](vector<int> &v, int x) { v.erase(std::remove(v.begin(), v.end(), x), v.end()); };
        for (int o : hist)
        {
            int x = o / 6, k = o % 6;
            vector<int> &r = (k == 2 || k == 3 || k == 5) ? rb : ra;
            bool onb = &r == &rb;
            if (std::find(r.begin(), r.end(), x) != r.end() || !ra.empty() || !rb.empty())
                mc::nontrivial();
            drop(r, x);
            struct dlist_head *cl = onb ? &c[x].lb : &c[x].la, *ch = onb ? &cb : &ca;
            if (k >= 4)
            {
                if (onb)
                    B.pop(*e[x]);
                else
                    A.pop(*e[x]);
                dlist_del_init(cl);
                continue;
            }
            bool front = k % 2;
            if (onb)
                front ? B.move_front(*e[x]) : B.move_back(*e[x]);
            else
                front ? A.move_front(*e[x]) : A.move_back(*e[x]);
            front ? dlist_move(cl, ch) : dlist_move_tail(cl, ch);
            if (front)
                r.insert(r.begin(), x);
            else
                r.push_back(x);
        }
        auto report = [&](const char *which, const char *how, const vector<int> &got, const vector<int> &want) {
            if (got != want)
                mc::violation(mc::fmt("C01.two_links.%s.%s", which, how), "%s list %s yields %s, reference %s", which, how, vstr(got).c_str(), vstr(want).c_str());
        };
        auto ident = [&](TwoX *p) {
            for (int i = 0; i < N; i++)
                if (p == e[i])
                    return i;
            return -1; // not an element at all: the container computed from the link is wrong
        };
        auto cident = [&](TwoC *p) {
            for (int i = 0; i < N; i++)
                if (p == &c[i])
                    return i;
            return -1;
        };
        vector<int> ga, gb, gra, grb;
        for (auto it = A.begin(); it != A.end() && ga.size() < 10; ++it)
            ga.push_back(ident(&*it));
        for (auto it = B.begin(); it != B.end() && gb.size() < 10; ++it)
            gb.push_back(ident(&*it));
        for (auto it = A.rbegin(); it != A.rend() && gra.size() < 10; ++it)
            gra.push_back(ident(&*it));
        for (auto it = B.rbegin(); it != B.rend() && grb.size() < 10; ++it)
            grb.push_back(ident(&*it));
        vector<int> wra(ra.rbegin(), ra.rend()), wrb(rb.rbegin(), rb.rend());
        report("cxx_dlist_member_a", "forward", ga, ra);
        report("cxx_dlist_member_b", "forward", gb, rb);
        report("cxx_dlist_member_a", "backward", gra, wra);
        report("cxx_dlist_member_b", "backward", grb, wrb);
        if (!ra.empty() && (ident(&A.front()) != ra.front() || ident(&A.back()) != ra.back()))
            mc::violation("C01.two_links.cxx_dlist_member_a.front_back", "front/back are e%d/e%d, reference e%d/e%d", ident(&A.front()), ident(&A.back()), ra.front(), ra.back());
        if (!rb.empty() && (ident(&B.front()) != rb.front() || ident(&B.back()) != rb.back()))
            mc::violation("C01.two_links.cxx_dlist_member_b.front_back", "front/back are e%d/e%d, reference e%d/e%d", ident(&B.front()), ident(&B.back()), rb.front(), rb.back());
        if (A.size() != ra.size() || B.size() != rb.size())
            mc::violation("C01.two_links.cxx_dlist.size", "sizes %zu/%zu, reference %zu/%zu", A.size(), B.size(), ra.size(), rb.size());
        // C entry macros over the same history
        vector<int> ca_f, cb_f, ca_r, cb_r, ca_s, cb_s;
        TwoC *q, *qn;
        dlist_for_each_entry(q, &ca, la) ca_f.push_back(cident(q));
        dlist_for_each_entry(q, &cb, lb) cb_f.push_back(cident(q));
        dlist_for_each_entry_reverse(q, &ca, la) ca_r.push_back(cident(q));
        dlist_for_each_entry_reverse(q, &cb, lb) cb_r.push_back(cident(q));
        dlist_for_each_entry_safe(q, qn, &ca, la) ca_s.push_back(cident(q));
        dlist_for_each_entry_safe(q, qn, &cb, lb) cb_s.push_back(cident(q));
        report("c_dlist_member_a", "forward", ca_f, ra);
        report("c_dlist_member_b", "forward", cb_f, rb);
        report("c_dlist_member_a", "backward", ca_r, wra);
        report("c_dlist_member_b", "backward", cb_r, wrb);
        report("c_dlist_member_a", "forward_safe", ca_s, ra);
        report("c_dlist_member_b", "forward_safe", cb_s, rb);
        if (!ra.empty() && (cident(dlist_first_entry(&ca, TwoC, la)) != ra.front() || cident(dlist_last_entry(&ca, TwoC, la)) != ra.back()))
            mc::violation("C01.two_links.c_dlist_member_a.first_last", "dlist_first_entry/dlist_last_entry disagree with the reference");
        if (!rb.empty() && (cident(dlist_first_entry(&cb, TwoC, lb)) != rb.front() || cident(dlist_last_entry(&cb, TwoC, lb)) != rb.back()))
            mc::violation("C01.two_links.c_dlist_member_b.first_last", "dlist_first_entry/dlist_last_entry disagree with the reference");
        mc::outcome(vstr(ra) + "|" + vstr(rb));
        // C++ slist: push the reference orders through add_first on two members, read both back
        {
            igris::slist<TwoX, &TwoX::sa> SA;
            igris::slist<TwoX, &TwoX::sb> SB;
            for (auto i = ra.rbegin(); i != ra.rend(); ++i)
                SA.add_first(*e[*i]);
            for (auto i = rb.rbegin(); i != rb.rend(); ++i)
                SB.add_first(*e[*i]);
            vector<int> sa, sb;
            for (auto it = SA.begin(); it != SA.end() && sa.size() < 10; ++it)
                sa.push_back(ident(&*it));
            for (auto it = SB.begin(); it != SB.end() && sb.size() < 10; ++it)
                sb.push_back(ident(&*it));
            report("cxx_slist_member_a", "forward", sa, ra);
            report("cxx_slist_member_b", "forward", sb, rb);
        }
        // unlink everything before the locals die (order of destruction must not matter here)
        for (int i = 0; i < N; i++)
        {
            A.pop(*e[i]);
            B.pop(*e[i]);
        }
    }
}

// ================================================================ G. heads declared with the DLIST_HEAD / SLIST_HEAD macros at block scope
// Every activation of a function owns the list it declares: nested activations (recursion, a callback that runs the
// same function) and repeated calls while nodes of an earlier call are still linked elsewhere must each start from
// an empty list of their own.
static int g_decl_bad;
static void declared_heads_activation(int depth, int maxdepth, int fanout, vector<int> &order)
{
    DLIST_HEAD(dh);
    SLIST_HEAD(sh);
    if (!dlist_empty(&dh) || dlist_size(&dh) != 0 || !slist_empty(&sh))
        g_decl_bad |= 1; // the freshly declared list is not empty
    CItem items[3];
    SItem sitems[3];
    for (int k = 0; k < fanout; k++)
    {
        items[k].key = depth * 10 + k;
        dlist_init(&items[k].lnk);
        dlist_add_prev(&items[k].lnk, &dh);
        sitems[k].id = depth * 10 + k;
        slist_add(&sitems[k].lnk, &sh);
    }
    if (depth < maxdepth)
        declared_heads_activation(depth + 1, maxdepth, fanout, order); // nested activation while ours is populated
    // after the nested call returned our list must hold exactly our own nodes, in order
    int n = 0;
    CItem *e;
    dlist_for_each_entry(e, &dh, lnk)
    {
        if (e != &items[n] || e->key != depth * 10 + n)
            g_decl_bad |= 2;
        n++;
        if (n > 8)
            break;
    }
    if (n != fanout || dlist_size(&dh) != fanout)
        g_decl_bad |= 4;
    int m = 0;
    SItem *se;
    slist_for_each_entry(se, &sh, lnk)
    {
        if (se != &sitems[fanout - 1 - m])
            g_decl_bad |= 8;
        m++;
        if (m > 8)
            break;
    }
    if (m != fanout || slist_size(&sh) != fanout)
        g_decl_bad |= 16;
    order.push_back(depth);
    for (int k = 0; k < fanout; k++)
        dlist_del_init(&items[k].lnk);
}
static void declared_heads()
{
    int c = mc::choose(4 * 3 * 2);
    int maxdepth = c % 4, fanout = 1 + (c / 4) % 3, calls = 1 + c / 12;
    mc::describe("DLIST_HEAD/SLIST_HEAD at block scope: nesting depth %d, %d nodes per activation, %d consecutive calls", maxdepth, fanout, calls);
    mc::crash_context("C01.declared_heads.crash");
    if (maxdepth || calls > 1)
        mc::nontrivial();
    g_decl_bad = 0;
    vector<int> order;
    for (int k = 0; k < calls; k++)
        declared_heads_activation(0, maxdepth, fanout, order);
    if (g_decl_bad)
        mc::violation("C01.declared_heads.not_private_to_the_activation",
                      "a list declared with DLIST_HEAD/SLIST_HEAD inside a function was %s%s%s(flags %#x)", g_decl_bad & 1 ? "not empty when declared; " : "",
                      g_decl_bad & 6 ? "dlist contents differ from the nodes this activation added; " : "",
                      g_decl_bad & 24 ? "slist contents differ from the nodes this activation added; " : "", g_decl_bad);
    mc::outcome(mc::fmt("%zu activations", order.size()));
}

// ================================================================ H. long histories on one universe
// The BFS merges states that look equal, so it never performs more than a handful of operations on one object.
// State that is invisible through the observers and grows with use (a counter, a generation stamp, a cached length)
// needs MANY operations on the SAME objects: one fixed, deterministic history of `steps` operations per universe,
// walking the operation alphabet with a stride coprime to its size (every operation recurs, in every reachable
// neighbourhood), the full oracle after every step.
template <class M> static void long_history(const char *what, int steps, int stride_seed)
{
    M m;
    int n = m.nops(), stride = stride_seed;
    while (std::__gcd(stride, n) != 1)
        stride++;
    long applied = 0;
    for (int i = 0, o = 0; i < steps; i++)
    {
        o = (int)(((long)o + stride + (i % 7 == 0 ? 1 : 0)) % n);
        if (m.apply(o))
            applied++;
        if (mc::case_has_violation())
        {
            mc::violation(mc::fmt("C01.%s.long_history", what), "first failure after %d operations (%ld enabled) of one fixed history on the same objects", i + 1, applied);
            return;
        }
    }
    if (applied < steps / 100)
        mc::harness_error("C01 long_history %s: only %ld of %d operations were enabled", what, applied, steps);
    mc::more_cases(applied, applied);
    mc::outcome(mc::fmt("%s %s", what, m.key().c_str()));
}
static void long_histories()
{
    int c = mc::choose(4 * 3);
    static const int seeds[3] = {1, 5, 11};
    int steps = mc::thorough() ? 400000 : 70000;
    mc::describe("universe %d, stride seed %d, %d operations on the same objects", c / 3, seeds[c % 3], steps);
    mc::nontrivial();
    switch (c / 3)
    {
    case 0:
        long_history<CDlist>("c_dlist", steps, seeds[c % 3]);
        break;
    case 1:
        long_history<XDlist>("cxx_dlist", steps, seeds[c % 3]);
        break;
    case 2:
        long_history<SlistModel>("slist", steps, seeds[c % 3]);
        break;
    default:
        long_history<HlistModel>("hlist", steps, seeds[c % 3]);
        break;
    }
}

MC_INIT
{
    mc::add_check("long_histories", long_histories);
    mc::add_check("declared_heads", declared_heads);
    mc::add_check("two_links_per_element", two_links_per_element);
    mc::add_check("long_lists", long_lists);
    mc::add_bfs("c_dlist", [] { return std::unique_ptr<mc::Model>(new CDlist); });
    mc::add_bfs("cxx_dlist", [] { return std::unique_ptr<mc::Model>(new XDlist); });
    mc::add_bfs("slist", [] { return std::unique_ptr<mc::Model>(new SlistModel); });
    mc::add_bfs("hlist", [] { return std::unique_ptr<mc::Model>(new HlistModel); });
}
MC_MAIN
