#!/bin/bash
# Two builds of the same sources: g++ -O1 with asserts (the reference build) and clang++ -O2 -DNDEBUG (release build of
# the other compiler: the list headers are macros and inline functions, so what the optimiser makes of them - folded
# null tests, merged loads - is part of what a user gets).  Both run every sub-check.
set -e
. $MC/par.sh
CF="-std=c++20 -g -fsanitize=address -fno-omit-frame-pointer -I$REPO -I$MC"
par g++ -c -O1 $CF $VERIF/harness/c01/c01_lists.cpp -o $BUILD/h.o
par g++ -c -O1 $CF $REPO/igris/container/dlist.cpp -o $BUILD/dlist.o
par clang++ -c -O2 -DNDEBUG $CF $VERIF/harness/c01/c01_lists.cpp -o $BUILD/h_clang.o
par clang++ -c -O2 -DNDEBUG $CF $REPO/igris/container/dlist.cpp -o $BUILD/dlist_clang.o
par g++ -std=c++20 -O2 -c -I$MC $MC/mc.cpp -o $BUILD/mc.o
par gcc -c -O1 -I$REPO $REPO/igris/dprint/dprint_func_impl.c -o $BUILD/dprint.o
par gcc -c -O1 -I$REPO $REPO/igris/dprint/dprint_stub.c -o $BUILD/dstub.o
parwait
g++ -fsanitize=address $BUILD/h.o $BUILD/dlist.o $BUILD/mc.o $BUILD/dprint.o $BUILD/dstub.o -o $BUILD/c01
clang++ -fsanitize=address $BUILD/h_clang.o $BUILD/dlist_clang.o $BUILD/mc.o $BUILD/dprint.o $BUILD/dstub.o -o $BUILD/c01_clang
echo "lists $BUILD/c01" > $BUILD/runs.txt
echo "lists_clang_O2 $BUILD/c01_clang" >> $BUILD/runs.txt
