#!/bin/bash
set -e
. $MC/par.sh
CF="-std=c++17 -O1 -g -fsanitize=address -fno-omit-frame-pointer -I$REPO -I$MC"
par g++ -c $CF $VERIF/harness/c01/c01_lists.cpp -o $BUILD/h.o
par g++ -c $CF $REPO/igris/container/dlist.cpp -o $BUILD/dlist.o
par g++ -std=c++17 -O2 -c -I$MC $MC/mc.cpp -o $BUILD/mc.o
par gcc -c -O1 -I$REPO $REPO/igris/dprint/dprint_func_impl.c -o $BUILD/dprint.o
par gcc -c -O1 -I$REPO $REPO/igris/dprint/dprint_stub.c -o $BUILD/dstub.o
parwait
g++ -fsanitize=address $BUILD/h.o $BUILD/dlist.o $BUILD/mc.o $BUILD/dprint.o $BUILD/dstub.o -o $BUILD/c01
echo "lists $BUILD/c01" > $BUILD/runs.txt
