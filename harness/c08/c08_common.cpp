#include "c08_common.hpp"

namespace c08
{
    Arena I[3], R[3], M;
    Call K;
    int PL = AFTER;
    int W = W_SMALL;
    void set_window(size_t maxbytes)
    {
        W = (int)(maxbytes + 640);
        if ((size_t)W * 2 > NPAGES * PG)
            mc::harness_error("window too large for the arena");
    }
    void restore_window()
    {
        W = W_SMALL;
        for (int i = 0; i < 3; i++)
        {
            I[i].wipe();
            R[i].wipe();
        }
        M.wipe();
    }
    void (*lazy_extra)() = nullptr;
    unsigned long nbad = 0;
    unsigned long ncalls = 0;
    const char *ONLY = nullptr;
    bool RO_ON = false;
    int ro_mask_for(const char *fn)
    {
        // slot 0 = first operand, 1 = second operand / destination, 2 = strtok's delimiter set
        static const char *src0[] = {"memcpy", "strcpy", "strncpy", "strlcpy", "strcat", "strncat", "strdup", "strndup"};
        static const char *both[] = {"memcmp", "memchr", "memrchr", "strlen", "strnlen", "strcmp", "strncmp", "strcasecmp", "strncasecmp", "strchr", "strrchr",
                                     "strchrnul", "strstr", "strcasestr", "strspn", "strcspn", "strpbrk"};
        for (const char *f : src0)
            if (!strcmp(f, fn))
                return 1;
        for (const char *f : both)
            if (!strcmp(f, fn))
                return 3;
        if (!strcmp(fn, "strtok") || !strcmp(fn, "strtok_r"))
            return 4;
        return 0; // memmove (overlap runs share one buffer), memset, strlwr, strupr: no const operand in its own arena
    }
    bool guarded_ro(const std::function<void()> &f)
    {
        if (!RO_ON || !K.ro)
            return mc::guarded(f);
        for (int i = 0; i < 3; i++)
            if (K.ro >> i & 1)
                I[i].readonly(true);
        bool ok = mc::guarded(f);
        for (int i = 0; i < 3; i++)
            if (K.ro >> i & 1)
                I[i].readonly(false);
        return ok;
    }
    std::vector<size_t> large_lengths()
    {
        std::vector<size_t> v = {127, 128, 254, 255, 256, 257, 300, 1000};
        if (mc::thorough())
            for (size_t x : {32767, 32768, 65535, 65536, 65537, 70000})
                v.push_back(x);
        return v;
    }
    static void uniq_push(std::vector<size_t> &v, size_t x)
    {
        for (size_t y : v)
            if (y == x)
                return;
        v.push_back(x);
    }
    std::vector<size_t> large_positions(size_t L)
    {
        std::vector<size_t> v;
        for (size_t x : {(size_t)0, (size_t)1, (size_t)254, (size_t)255, (size_t)256, (size_t)257, L - 1})
            if (x < L)
                uniq_push(v, x);
        return v;
    }
    std::vector<size_t> large_ns(size_t L)
    {
        std::vector<size_t> v;
        for (size_t x : {(size_t)0, (size_t)1, (size_t)254, (size_t)255, (size_t)256, (size_t)257, L - 1, L, L + 1})
            uniq_push(v, x);
        return v;
    }

    void init_arenas()
    {
        // every case runs in a process image in which no function under test has been called yet: state hidden in a
        // function-local static (a cache, a generation counter, a scratch buffer) then cannot make a verdict depend
        // on which cases the worker happened to run before - the case replays alone exactly as it ran here
        mc::request_restart();
        static bool done = false;
        if (done)
            return;
        done = true;
        static const uint8_t fills[3] = {0xA5, 0x5A, 0xC3}; // different per slot: bytes past a NUL differ between operands
        for (int i = 0; i < 3; i++)
        {
            I[i].init(fills[i]);
            R[i].init(fills[i]);
        }
        M.init(0x3C);
    }

    std::string hexs(const uint8_t *p, long n)
    {
        if (n < 0 || !p)
            return "-";
        std::string s = "\"";
        for (long i = 0; i < n && i < 80; i++)
        {
            char b[8];
            if (p[i] >= 0x20 && p[i] < 0x7f && p[i] != '"' && p[i] != '\\')
                snprintf(b, sizeof b, "%c", p[i]);
            else
                snprintf(b, sizeof b, "\\x%02x", p[i]);
            s += b;
        }
        if (n > 80)
            s += "...";
        return s + "\"";
    }

    std::string show()
    {
        if (lazy_extra)
            lazy_extra();
        std::string s = std::string(K.fn) + "(";
        bool first = true;
        auto sep = [&] {
            if (!first)
                s += ", ";
            first = false;
        };
        if (K.alen >= 0)
        {
            sep();
            s += "a=" + hexs(K.a, K.alen) + mc::fmt("[%ld bytes]", K.alen);
        }
        if (K.blen >= 0)
        {
            sep();
            s += "b=" + hexs(K.b, K.blen) + mc::fmt("[%ld bytes]", K.blen);
        }
        if (K.has_c)
        {
            sep();
            s += mc::fmt("c=%d", K.c);
        }
        if (K.has_n)
        {
            sep();
            s += K.n == (size_t)-1 ? std::string("n=SIZE_MAX") : K.n > (size_t)-1 / 2 ? mc::fmt("n=0x%zx", K.n) : mc::fmt("n=%zu", K.n);
        }
        s += ")";
        if (K.extra[0])
            s += std::string(" ") + K.extra;
        s += K.pl == AFTER ? " [operands end at a guard page]" : " [operands start after a guard page]";
        return s;
    }

    void bad(const char *kind, const char *fmt, ...)
    {
        char m[700];
        va_list ap;
        va_start(ap, fmt);
        vsnprintf(m, sizeof m, fmt, ap);
        va_end(ap);
        nbad++;
        std::string sig = std::string("C08.") + K.fn + "." + kind;
        if (K.cls && *K.cls)
            sig += std::string(".") + K.cls;
        mc::violation(sig, "%s: %s", show().c_str(), m);
    }

    void fault()
    {
        if (RO_ON && K.ro)
            bad("write_to_const_operand_or_guard_fault", "faulted while the const operands were mapped read-only: wrote to a const input, or touched a guard page");
        else if (K.pl == AFTER)
            bad("access_past_end", "touched the inaccessible page after an operand (over-read or over-write), or a wild address");
        else
            bad("access_before_start", "touched the inaccessible page before an operand (under-read or under-write), or a wild address");
    }

    void winchk(int slot, const uint8_t *p, size_t ext)
    {
        const uint8_t *wi = I[slot].win(K.pl), *wr = R[slot].win(K.pl);
        if (memcmp(wi, wr, W) == 0)
            return;
        for (int k = 0; k < W; k++)
            if (wi[k] != wr[k])
            {
                long o = (long)((wi + k) - p);
                bool inside = o >= 0 && (size_t)o < ext;
                bad(inside ? "dest_bytes" : "write_outside", "operand %d: byte at offset %ld is %02x, the definition leaves %02x there (%s the range it may write, %zu bytes)",
                    slot, o, wi[k], wr[k], inside ? "inside" : "OUTSIDE", ext);
                return;
            }
    }

    static uint64_t g_notes[48];
    void note(int fnid, int cls) { g_notes[fnid] |= 1ull << (cls & 63); }
    void flush_notes()
    {
        for (int f = 0; f < 48; f++)
        {
            for (int c = 0; c < 64 && g_notes[f]; c++)
                if (g_notes[f] >> c & 1)
                    mc::outcome(mc::fmt("f%d:%d", f, c));
            g_notes[f] = 0;
        }
    }

    Table make_table(const uint8_t *alpha, int na, int maxlen)
    {
        Table t;
        for (int L = 0; L <= maxlen; L++)
        {
            size_t cnt = 1;
            for (int i = 0; i < L; i++)
                cnt *= na;
            for (size_t k = 0; k < cnt; k++)
            {
                Str s;
                memset(&s, 0, sizeof s);
                s.len = L;
                size_t x = k;
                for (int i = L - 1; i >= 0; i--)
                {
                    s.b[i] = alpha[x % na];
                    x /= na;
                }
                t.v.push_back(s);
            }
            t.upto.push_back(t.v.size());
        }
        return t;
    }
}

// ---- the allocator the prefixed objects call (strdup, strndup) ----
namespace c08
{
    int malloc_fail = 0;
    size_t malloc_last = 0;
    int malloc_calls = 0;
    uint8_t *malloc_ptr = nullptr;
}
extern "C" void *igc_malloc(size_t n)
{
    using namespace c08;
    malloc_calls++;
    malloc_last = n;
    if (malloc_fail || n > NPAGES * PG / 2)
        return malloc_ptr = nullptr;
    malloc_ptr = PL == AFTER ? M.hi - n : M.lo;
    return malloc_ptr;
}
extern "C" void igc_free(void *) {}

MC_MAIN
