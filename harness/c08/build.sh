#!/bin/bash
# C08: the repository's compat-libc string sources, compiled against the host headers + shim,
# every symbol prefixed igc_ (glibc's unprefixed functions are the reference). No sanitizer:
# guard pages are the memory oracle and ASan's interceptors would replace the functions under test.
set -e
. $MC/par.sh
. $VERIF/harness/c08/igc_objs.sh
H=$VERIF/harness/c08
igc_shim $BUILD/shim
OBJS=""
for f in $REPO/compat/libc/string/*.c; do
    o=$BUILD/igc_$(basename $f .c).o
    par igc_one $BUILD/shim $o $f
    OBJS="$OBJS $o"
done
# re-entrancy run: the same sources under ThreadSanitizer (prefixed the same way, __tsan_* mapped back), two threads on the
# controlled scheduler; sched.cpp and mc.cpp stay uninstrumented so TSan sees only what the code under test does
TOBJS=""
for f in $REPO/compat/libc/string/*.c; do
    o=$BUILD/tsan_$(basename $f .c).o
    IGC_CFLAGS="-fsanitize=thread -fno-omit-frame-pointer" IGC_OPT=-O1 par igc_one $BUILD/shim $o $f
    TOBJS="$TOBJS $o"
done
# BUILD MATRIX: the same sources the way the project's own build compiles them (make.py: plain gcc -O3, no -fno-builtin,
# no -fno-tree-loop-distribute-patterns; also -O2 and -Os), with plain char unsigned (ARM/PowerPC/RISC-V), and by the
# other compiler. Symbols are renamed after compilation, so gcc sees - and pattern-matches - the real names.
variant() { # name cc opt mode cflags
    local v=$1 f o
    for f in $REPO/compat/libc/string/*.c; do
        o=$BUILD/${v}_$(basename $f .c).o
        IGC_CC=$2 IGC_OPT=$3 IGC_MODE="$4" IGC_CFLAGS="$5" par igc_one $BUILD/shim $o $f
        eval "VOBJS_$v=\"\$VOBJS_$v $o\""
    done
}
variant o2n gcc -O2 "" ""
variant osn gcc -Os "" ""
variant o3u gcc -O3 "" "-funsigned-char"
variant clang clang -O2 "-fno-builtin" ""
# a caller of the library compiled against the BUNDLED headers at -O2, with and without -fno-builtin; prefixed and
# resolved with the main object set (its calls bind to the repository's routines), linked into every non-TSan executable
caller() { # out pfx extra-flags
    gcc -c -O2 -g -w $3 -DPFX=$2 -isystem $REPO/compat/libc/include -I$REPO $H/c08_caller.c -o $1 && objcopy --prefix-symbols=igc_ $1
}
par caller $BUILD/caller.o caller_ ""
par caller $BUILD/callernb.o callernb_ "-fno-builtin"
COBJS="$BUILD/caller.o $BUILD/callernb.o"
par g++ -std=c++20 -O1 -g -fsanitize=thread -fno-omit-frame-pointer -I$MC -I$H -c $H/c08_reentrancy.cpp -o $BUILD/h_tsan.o
par g++ -std=c++20 -O2 -g -I$MC -c $MC/sched/sched.cpp -o $BUILD/sched.o
CXX="g++ -std=c++20 -O2 -g -fno-builtin -I$MC -I$H"
for t in c08_common c08_str c08_mem c08_tok; do par $CXX -c $H/$t.cpp -o $BUILD/$t.o; done
par g++ -std=c++20 -O2 -c -I$MC $MC/mc.cpp -o $BUILD/mc.o
parwait
igc_resolve $OBJS $COBJS
igc_resolve $TOBJS
# every statement-listed function must come from the repository, none may be left undefined
for fn in memcpy memmove memset memcmp memchr memrchr strlen strnlen strcpy strncpy strlcpy strcat strncat strcmp strncmp \
          strcasecmp strncasecmp strchr strrchr strchrnul strstr strcasestr strspn strcspn strpbrk strtok strtok_r strdup strndup strlwr strupr; do
    nm $OBJS | grep -q " [TW] igc_$fn\$" || { echo "igc_$fn is not defined by the repository sources"; exit 1; }
done
g++ $BUILD/c08_common.o $BUILD/c08_str.o $BUILD/c08_mem.o $BUILD/c08_tok.o $OBJS $COBJS $BUILD/mc.o -o $BUILD/c08
g++ -fsanitize=thread $BUILD/h_tsan.o $TOBJS $BUILD/sched.o $BUILD/mc.o -ldl -lpthread -o $BUILD/c08_tsan
echo "strings $BUILD/c08" > $BUILD/runs.txt
echo "reentrancy $BUILD/c08_tsan" >> $BUILD/runs.txt
SEL=str_large,mem_large,strtok_large,str_history,mem_history,memcpy_every_alignment,memset_every_value,callers_recompute_after_modification,byte_pairs_every_position,str_aliased_operands
for v in o2n osn o3u clang; do
    eval "vo=\$VOBJS_$v"
    igc_resolve $vo
    g++ $BUILD/c08_common.o $BUILD/c08_str.o $BUILD/c08_mem.o $BUILD/c08_tok.o $vo $COBJS $BUILD/mc.o -o $BUILD/c08_$v
    echo "strings_$v $BUILD/c08_$v --only $SEL" >> $BUILD/runs.txt
done
