// C08 — mem* functions of the bundled libc against glibc's, byte-exact, every length 0..72 at
// every distance 0..7 from a guard page (= every alignment) for both operands, every overlap.
#include "c08_common.hpp"
using namespace c08;

enum
{
    F_memcpy = 30, F_memmove, F_memset, F_memcmp, F_memchr, F_memrchr, F_memmove_ov
};
typedef const uint8_t *BP;

static void t_copy(bool move, BP s, size_t n, int ms, int md)
{
    setK(move ? "memmove" : "memcpy", s, n);
    setN(n);
    K.cls = n == 0 ? "n0" : "";
    snprintf(K.extra, sizeof K.extra, "(src %d, dst %d bytes from the guard)", ms, md);
    uint8_t *si = I[0].put(s, n, PL, ms), *sr = R[0].put(s, n, PL, ms);
    uint8_t *di = I[1].put(nullptr, n, PL, md), *dr = R[1].put(nullptr, n, PL, md);
    void *ri = nullptr, *rr = move ? memmove(dr, sr, n) : memcpy(dr, sr, n);
    CALL(ri = move ? igc_memmove(di, si, n) : igc_memcpy(di, si, n));
    if (off(ri, di) != off(rr, dr))
        bad("return", "returned dst%+ld, want dst%+ld", off(ri, di), off(rr, dr));
    winchk(1, di, n);
    winchk(0, si, 0);
    note(move ? F_memmove : F_memcpy, (n >= 32) + 2 * (((uintptr_t)si | (uintptr_t)di) % 8 == 0));
}

// one buffer, dst = src + d
static void t_move_overlap(BP pat, size_t n, long d, int mis)
{
    size_t ad = d < 0 ? -d : d, T = n + ad;
    setK("memmove", pat, T);
    setN(n);
    K.cls = d == 0 ? "dst_eq_src" : (ad < n ? (d > 0 ? "overlap_dst_above" : "overlap_dst_below") : "disjoint_adjacent");
    snprintf(K.extra, sizeof K.extra, "(a=whole buffer, dst = src%+ld, buffer %d bytes from the guard)", d, mis);
    uint8_t *bi = I[0].put(pat, T, PL, mis), *br = R[0].put(pat, T, PL, mis);
    uint8_t *si = d >= 0 ? bi : bi + ad, *di = d >= 0 ? bi + ad : bi;
    uint8_t *sr = d >= 0 ? br : br + ad, *dr = d >= 0 ? br + ad : br;
    void *ri = nullptr, *rr = memmove(dr, sr, n);
    CALL(ri = igc_memmove(di, si, n));
    if (off(ri, di) != off(rr, dr))
        bad("return", "returned dst%+ld, want dst%+ld", off(ri, di), off(rr, dr));
    winchk(0, di, n);
    note(F_memmove_ov, (d > 0) + 2 * (d < 0) + 4 * (ad < n));
}

static void t_set(size_t n, int c, int mis)
{
    setK("memset", nullptr, -1);
    setN(n);
    setC(c);
    K.cls = n == 0 ? "n0" : ccls(c);
    snprintf(K.extra, sizeof K.extra, "(dst %d bytes from the guard)", mis);
    uint8_t *di = I[1].put(nullptr, n, PL, mis), *dr = R[1].put(nullptr, n, PL, mis);
    void *ri = nullptr, *rr = memset(dr, c, n);
    CALL(ri = igc_memset(di, c, n));
    if (off(ri, di) != off(rr, dr))
        bad("return", "returned dst%+ld, want dst%+ld", off(ri, di), off(rr, dr));
    winchk(1, di, n);
    note(F_memset, n > 0);
}

// alen/blen: bytes present (>= n only in the BEFORE placement, where the tail beyond n must not matter)
static void t_memcmp(BP a, BP b, size_t n, size_t present, int ma, int mb)
{
    size_t ext = PL == AFTER ? n : present;
    setK("memcmp", a, ext, b, ext);
    setN(n);
    K.cls = n == 0 ? "n0" : n < present ? "n_lt_block" : "";
    uint8_t *ai = I[0].put(a, ext, PL, ma), *ar = R[0].put(a, ext, PL, ma);
    uint8_t *bi = I[1].put(b, ext, PL, mb), *br = R[1].put(b, ext, PL, mb);
    int ri = 0, rr = memcmp(ar, br, n);
    CALL(ri = igc_memcmp(ai, bi, n));
    if (sgn(ri) != sgn(rr))
        bad("sign", "returned %d, want the sign of %d", ri, rr);
    winchk(0, ai, 0);
    winchk(1, bi, 0);
    note(F_memcmp, sgn(ri) + 1);
}

static void t_memchr(BP s, size_t n, size_t present, int c, int mis)
{
    size_t ext = PL == AFTER ? n : present;
    uint8_t *pi = I[0].put(s, ext, PL, mis), *pr = R[0].put(s, ext, PL, mis);
    if (want("memchr"))
    {
        setK("memchr", s, ext);
        setN(n);
        setC(c);
        K.cls = n == 0 ? "n0" : ccls(c);
        void *ri = nullptr, *rr = memchr(pr, c, n);
        CALL(ri = igc_memchr(pi, c, n));
        if (off(ri, pi) != off(rr, pr))
            bad("return", "returned %s%+ld, want %s%+ld", ri ? "s" : "NULL", ri ? off(ri, pi) : 0, rr ? "s" : "NULL", rr ? off(rr, pr) : 0);
        note(F_memchr, ri ? 1 : 0);
    }
    if (want("memrchr"))
    {
        setK("memrchr", s, ext);
        setN(n);
        setC(c);
        K.cls = n == 0 ? "n0" : ccls(c);
        void *ri = nullptr, *rr = memrchr(pr, c, n);
        CALL(ri = igc_memrchr(pi, c, n));
        if (off(ri, pi) != off(rr, pr))
            bad("return", "returned %s%+ld, want %s%+ld", ri ? "s" : "NULL", ri ? off(ri, pi) : 0, rr ? "s" : "NULL", rr ? off(rr, pr) : 0);
        note(F_memrchr, ri ? 1 : 0);
    }
    winchk(0, pi, 0);
}

// memchr with an n far beyond the block while the byte IS present in it: defined (C11 7.24.5.1: "behaves as if it reads
// the characters sequentially and stops as soon as a matching character is found" - the rawmemchr idiom memchr(s,c,SIZE_MAX)).
// Not applicable to memrchr (starts at s+n-1) nor memcmp/memcpy (all n bytes are accessed).
static bool has_byte(BP s, size_t len, int c)
{
    for (size_t i = 0; i < len; i++)
        if (s[i] == (uint8_t)c)
            return true;
    return false;
}
static void t_memchr_huge(BP s, size_t len, int c, int mis)
{
    if (!has_byte(s, len, c))
        return;
    uint8_t *pi = I[0].put(s, len, PL, mis), *pr = R[0].put(s, len, PL, mis);
    for (size_t n : HUGE_N)
    {
        setK("memchr", s, len);
        setN(n);
        setC(c);
        K.cls = n == (size_t)-1 ? "n_max_byte_present" : "n_huge_byte_present";
        void *ri = nullptr, *rr = memchr(pr, c, n);
        CALL(ri = igc_memchr(pi, c, n));
        if (off(ri, pi) != off(rr, pr))
            bad("return", "returned %s%+ld, want %s%+ld", ri ? "s" : "NULL", ri ? off(ri, pi) : 0, rr ? "s" : "NULL", rr ? off(rr, pr) : 0);
        note(F_memchr, 2);
    }
    winchk(0, pi, 0);
}

static const uint8_t A6[] = {0, 'a', 'A', 'b', 0x80, 0xFF};
static const int CV[] = {0, 'a', 'A', 'b', 0x80, 0xFF, 'c', -128, -1, 256, 256 + 'a', -256 + 'b'};
static Table TB;

static void pattern(uint8_t *p, size_t n, int which)
{
    for (size_t i = 0; i < n; i++)
        p[i] = which == 0 ? (uint8_t)(i * 37 + 11) : which == 1 ? (uint8_t)(0xFF - i) : (uint8_t)((i % 3 == 0) ? 0 : 0x80 | i);
}

MC_INIT
{
    TB = make_table(A6, 6, 6);

    // (1) every block over the byte alphabet (NUL inside): searches with every n <= length, copies
    mc::add_check("mem_blocks", [] {
        init_arenas();
        int L = mc::thorough() ? 6 : 5;
        // a case is a run of 64 consecutive operands (every case starts in a fresh process image, see init_arenas)
        int NTOT = (int)TB.upto[L], CH = 64;
        int chunk = mc::choose((NTOT + CH - 1) / CH);
        int ifirst = chunk * CH, ilast = ifirst + CH <= NTOT ? ifirst + CH - 1 : NTOT - 1;
        mc::describe("blocks #%d..#%d (%s .. %s): memchr/memrchr for every n=0..len x 12 values of c (+3 huge n when the byte is present), memcpy, memmove, both guard placements", ifirst, ilast, hexs(TB.v[ifirst].b, TB.v[ifirst].len).c_str(), hexs(TB.v[ilast].b, TB.v[ilast].len).c_str());
        if (ilast >= 6)
            mc::nontrivial();
        uint64_t calls = 0;
        for (int i = ifirst; i <= ilast; i++)
        {
        const Str &s = TB.v[i];
        for (PL = AFTER; PL <= BEFORE; PL++)
        {
            t_copy(false, s.b, s.len, 0, 0);
            t_copy(true, s.b, s.len, 0, 0);
            calls += 2;
            for (size_t n = 0; n <= s.len; n++)
                for (int c : CV)
                {
                    t_memchr(s.b, n, s.len, c, 0);
                    calls += 2;
                }
            for (int c : CV)
                if (has_byte(s.b, s.len, c))
                {
                    t_memchr_huge(s.b, s.len, c, 0);
                    calls += 3;
                }
        }
        }
        PL = AFTER;
        mc::more_cases(calls - 1, calls - 1);
        flush_notes();
    });

    // (2) memcmp of every pair of equal-length blocks; n below the block length with the tail present
    mc::add_check("memcmp_pairs", [] {
        init_arenas();
        int L = mc::thorough() ? 5 : 4;
        int i = mc::choose((int)TB.upto[L]);
        const Str &a = TB.v[i];
        mc::describe("memcmp of block %s against every block of the same length; n=length with the blocks ending at the guard, n=0..length with the tail present",
                     hexs(a.b, a.len).c_str());
        if (a.len >= 1)
            mc::nontrivial();
        uint64_t calls = 0;
        for (size_t j = TB.first_of_len(a.len); j < TB.upto[a.len]; j++)
        {
            const Str &b = TB.v[j];
            PL = AFTER;
            t_memcmp(a.b, b.b, a.len, a.len, 0, 0);
            PL = BEFORE;
            for (size_t n = 0; n <= a.len; n++)
                t_memcmp(a.b, b.b, n, a.len, 0, 0);
            calls += a.len + 2;
        }
        PL = AFTER;
        mc::more_cases(calls - 1, calls - 1);
        flush_notes();
    });

    // (3) memcpy / memmove (disjoint): n 0..72 x (src distance, dst distance) 8x8 x 2 placements x 2 patterns
    mc::add_check("memcpy_every_alignment", [] {
        init_arenas();
        int c0 = mc::choose(73 * 8);
        size_t n = c0 / 8;
        int ms = c0 % 8;
        mc::describe("memcpy+memmove n=%zu, src %d bytes from the guard, dst at 0..7, before/after guard, 2 byte patterns", n, ms);
        if (n >= 32)
            mc::nontrivial();
        uint8_t p[80];
        uint64_t calls = 0;
        for (PL = AFTER; PL <= BEFORE; PL++)
            for (int md = 0; md < 8; md++)
                for (int w = 0; w < 2; w++)
                {
                    pattern(p, n, w);
                    t_copy(false, p, n, ms, md);
                    t_copy(true, p, n, ms, md);
                    calls += 2;
                }
        PL = AFTER;
        mc::more_cases(calls - 1, calls - 1);
        flush_notes();
    });

    // (4) memmove inside one buffer: every n 0..72, every offset -n-2..n+2, every alignment
    mc::add_check("memmove_every_overlap", [] {
        init_arenas();
        int c0 = mc::choose(73 * 8);
        size_t n = c0 / 8;
        int mis = c0 % 8;
        mc::describe("memmove n=%zu, dst = src+d for every d in -%zu..%zu, buffer %d bytes from the guard, both placements", n, n + 2, n + 2, mis);
        if (n >= 2)
            mc::nontrivial();
        uint8_t p[160];
        pattern(p, sizeof p, 0);
        uint64_t calls = 0;
        for (PL = AFTER; PL <= BEFORE; PL++)
            for (long d = -(long)n - 2; d <= (long)n + 2; d++)
            {
                t_move_overlap(p, n, d, mis);
                calls++;
            }
        PL = AFTER;
        mc::more_cases(calls - 1, calls - 1);
        flush_notes();
    });

    // (5) memset: every n 0..72 x alignment x every c in -128..255 plus 256, 511, -256
    mc::add_check("memset_every_value", [] {
        init_arenas();
        int c0 = mc::choose(73 * 8);
        size_t n = c0 / 8;
        int mis = c0 % 8;
        mc::describe("memset n=%zu, dst %d bytes from the guard, c=-128..255,256,511,-256, both placements", n, mis);
        if (n >= 1)
            mc::nontrivial();
        uint64_t calls = 0;
        for (PL = AFTER; PL <= BEFORE; PL++)
        {
            for (int c = -128; c <= 255; c++)
                t_set(n, c, mis);
            t_set(n, 256, mis);
            t_set(n, 511, mis);
            t_set(n, -256, mis);
            calls += 387;
        }
        PL = AFTER;
        mc::more_cases(calls - 1, calls - 1);
        flush_notes();
    });

    // (6) memcmp on longer blocks: n 0..72 x 8x8 alignments x position of the first difference x which side is larger
    //     (0x7f vs 0x80 and 0x00 vs 0xff: a signed-char comparison gets these wrong); bytes after the first
    //     difference are ordered the other way round
    auto body_memcmp_every_alignment = [] {
        init_arenas();
        int c0 = mc::choose(73 * 8);
        size_t n = c0 / 8;
        int ma = c0 % 8;
        mc::describe("memcmp n=%zu, a %d bytes from the guard, b at 0..7: equal / first difference at 0, n/2, n-1 with byte pairs 7f:80 80:7f 00:ff ff:00 a:b", n, ma);
        if (n >= 2)
            mc::nontrivial();
        static const uint8_t PAIRS[5][2] = {{0x7f, 0x80}, {0x80, 0x7f}, {0x00, 0xff}, {0xff, 0x00}, {'a', 'b'}};
        uint8_t a[80], b[80];
        uint64_t calls = 0;
        for (PL = AFTER; PL <= BEFORE; PL++)
            for (int mb = 0; mb < 8; mb++)
            {
                pattern(a, n, 0);
                memcpy(b, a, n);
                t_memcmp(a, b, n, n, ma, mb);
                calls++;
                if (!n)
                    continue;
                size_t poss[3] = {0, n / 2, n - 1};
                for (int pi = 0; pi < 3; pi++)
                    for (int pr = 0; pr < 5; pr++)
                    {
                        size_t pos = poss[pi];
                        pattern(a, n, 0);
                        memcpy(b, a, n);
                        a[pos] = PAIRS[pr][0];
                        b[pos] = PAIRS[pr][1];
                        for (size_t k = pos + 1; k < n; k++)
                        {
                            a[k] = PAIRS[pr][1];
                            b[k] = PAIRS[pr][0];
                        }
                        t_memcmp(a, b, n, n, ma, mb);
                        calls++;
                    }
            }
        PL = AFTER;
        mc::more_cases(calls - 1, calls - 1);
        flush_notes();
    };
    mc::add_check("memcmp_every_alignment", body_memcmp_every_alignment);
    // the same with the const operands of every call mapped read-only during the call
    mc::add_check("memcmp_every_alignment.readonly", [body_memcmp_every_alignment] {
        RO_ON = true;
        body_memcmp_every_alignment();
        RO_ON = false;
    });

    // (7) memchr/memrchr on longer blocks: n 0..72 x alignment x where the byte occurs
    mc::add_check("memchr_every_alignment", [] {
        init_arenas();
        int c0 = mc::choose(73 * 8);
        size_t n = c0 / 8;
        int mis = c0 % 8;
        mc::describe("memchr/memrchr n=%zu, block %d bytes from the guard: target absent / at 0 / at n-1 / at both ends / in the middle / just beyond n", n, mis);
        if (n >= 2)
            mc::nontrivial();
        uint8_t s[80];
        uint64_t calls = 0;
        static const int TG[] = {0xE9, 0, 0x80, -1};
        for (PL = AFTER; PL <= BEFORE; PL++)
            for (int tg : TG)
                for (int v = 0; v < 6; v++)
                {
                    uint8_t t = (uint8_t)tg;
                    for (size_t k = 0; k < n + 1; k++)
                        s[k] = (uint8_t)(k * 37 + 11) == t ? t ^ 0x55 : (uint8_t)(k * 37 + 11);
                    if (n)
                    {
                        if (v == 1 || v == 3)
                            s[0] = t;
                        if (v == 2 || v == 3)
                            s[n - 1] = t;
                        if (v == 4)
                            s[n / 2] = t;
                    }
                    if (v == 5)
                        s[n] = t; // present only beyond n (visible in the BEFORE placement)
                    t_memchr(s, n, n + 1, tg, mis);
                    calls += 2;
                    if (has_byte(s, n, tg))
                    {
                        t_memchr_huge(s, n, tg, mis);
                        calls += 3;
                    }
                }
        PL = AFTER;
        mc::more_cases(calls - 1, calls - 1);
        flush_notes();
    });

    // (8) LARGE blocks: lengths around 128, 256, 1000 (thorough: around 32768, 65536, 70000); see str_large
    auto body_mem_large = [] {
        init_arenas();
        std::vector<size_t> LS = large_lengths();
        int c0 = mc::choose((int)LS.size() * 2 * 5);
        size_t L = LS[c0 / 10];
        int pat = (c0 / 5) % 2, grp = c0 % 5;
        static const char *GN[5] = {"memcpy memmove (disjoint, 5 alignment pairs)", "memmove with dst = src +-1, +-255, +-256, +-257", "memset", "memcmp", "memchr memrchr"};
        mc::describe("n = %zu, pattern %s: %s; difference / target at 0,1,254..257,n-1, n arguments around them; both guard placements", L,
                     pat ? "all 'a'" : "i mod 251", GN[grp]);
        mc::nontrivial();
        set_window(L + 300);
        std::vector<uint8_t> s(L + 300), b(L + 300);
        for (size_t i = 0; i < s.size(); i++)
            s[i] = pat ? 'a' : (uint8_t)(i % 251);
        std::vector<size_t> P = large_positions(L);
        unsigned long c_before = ncalls;
        for (PL = AFTER; PL <= BEFORE; PL++)
        {
            if (grp == 0)
            {
                static const int AL[5][2] = {{0, 0}, {1, 0}, {0, 1}, {3, 5}, {8, 16}};
                for (auto &al : AL)
                {
                    t_copy(false, s.data(), L, al[0], al[1]);
                    t_copy(true, s.data(), L, al[0], al[1]);
                }
            }
            else if (grp == 1)
            {
                for (long d : {1L, 255L, 256L, 257L, -1L, -255L, -256L, -257L})
                    for (int mis = 0; mis < 2; mis++)
                        t_move_overlap(s.data(), L, d, mis);
            }
            else if (grp == 2)
            {
                for (int c : {0, 0x5A, -1, 263})
                    for (int mis : {0, 1, 7})
                        t_set(L, c, mis);
            }
            else if (grp == 3)
            {
                t_memcmp(s.data(), s.data(), L, L, 0, 0);
                t_memcmp(s.data(), s.data(), L, L, 1, 3);
                for (size_t p : P)
                {
                    b = s;
                    b[p] = 0xFD;
                    for (size_t k = p + 1; k < L; k++) // after the first difference the order is the other way round
                        b[k] = 0;
                    for (size_t n : {p, p + 1, L})
                    {
                        t_memcmp(s.data(), b.data(), n, L, 0, 0);
                        t_memcmp(b.data(), s.data(), n, L, 3, 1);
                    }
                }
            }
            else
            {
                t_memchr(s.data(), L, L, 0xFE, 0);
                for (size_t p : P)
                {
                    b = s;
                    b[p] = 0xFE;
                    for (size_t n : {p, p + 1, (size_t)255, (size_t)256, (size_t)257, L})
                        if (n <= L)
                            t_memchr(b.data(), n, L, 0xFE, 0);
                    t_memchr(b.data(), L, L, 0xFE - 256, 1);
                    t_memchr_huge(b.data(), L, 0xFE, 0);
                    t_memchr_huge(b.data(), L, 0xFE - 256, 1);
                    b[L - 1] = 0xFE;
                    b[0] = 0xFE;
                    b[p] = s[p];
                    t_memchr(b.data(), L, L, 0xFE, 0); // first at 0, last at n-1
                }
            }
        }
        PL = AFTER;
        restore_window();
        unsigned long calls = ncalls - c_before;
        if (calls)
            mc::more_cases(calls - 1, calls - 1);
        flush_notes();
    };
    mc::add_check("mem_large", body_mem_large);
    // the same with the const operands of every call mapped read-only during the call
    mc::add_check("mem_large.readonly", [body_mem_large] {
        RO_ON = true;
        body_mem_large();
        RO_ON = false;
    });

    // (9) HISTORY: every mem* function called 65600 times in one process, see str_history
    mc::add_check("mem_history", [] {
        init_arenas();
        static const char *FNS[6] = {"memcpy", "memmove", "memset", "memcmp", "memchr", "memrchr"};
        int c0 = mc::choose(6 * 2);
        int fi = c0 / 2;
        PL = c0 % 2;
        ONLY = FNS[fi];
        mc::describe("%s called %d times in one process: arguments rotate with period 7; a byte used in one call only comes back 254,255,256,257,510,511,512,65534..65537 calls later; operands %s a guard page",
                     ONLY, HIST_STEPS, PL == AFTER ? "end at" : "start after");
        mc::nontrivial();
        unsigned long c_before = ncalls;
        for (int k = 0; k < HIST_STEPS && nbad == 0; k++)
        {
            HistEv ev = hist_event(k);
            uint8_t a[48], b[48];
            size_t n;
            int c;
            if (ev.kind == 0)
            {
                n = (size_t)(ev.q * 5 + k % 3); // 0..32
                for (size_t i = 0; i < 40; i++)
                {
                    a[i] = (uint8_t)('a' + (i + ev.q) % 7);
                    b[i] = a[i];
                }
                if (n && (k & 1))
                    b[n - 1] = 'z';
                c = 'a' + k % 9;
            }
            else
            {
                uint8_t r = (uint8_t)(0x81 + ev.q);
                n = 12;
                for (size_t i = 0; i < 40; i++)
                    a[i] = b[i] = (uint8_t)('a' + i % 5);
                a[6] = r;
                if (ev.kind == 1)
                {
                    b[6] = r; // equal blocks
                    c = r;
                }
                else
                {
                    b[6] = 'q';
                    c = 'd';
                }
            }
            switch (fi)
            {
            case 0: t_copy(false, a, n, 0, k % 8); break;
            case 1: t_copy(true, a, n, k % 8, 0); break;
            case 2: t_set(n, c, k % 8); break;
            case 3: t_memcmp(a, b, n, n, 0, 0); break;
            default: t_memchr(a, n, n, c, 0); break;
            }
        }
        ONLY = nullptr;
        PL = AFTER;
        unsigned long calls = ncalls - c_before;
        if (calls)
            mc::more_cases(calls - 1, calls - 1);
        flush_notes();
    });

    // (10) ADJACENT PAIRS for the mem* routines: see str_byte_pairs_every_position (0x00 joins the byte set here)
    mc::add_check("mem_byte_pairs_every_position", [] {
        init_arenas();
        int c0 = mc::choose(20 * 20);
        uint8_t x = c0 / 20 == 19 ? 0 : PAIR_BYTES[c0 / 20], y = c0 % 20 == 19 ? 0 : PAIR_BYTES[c0 % 20];
        mc::describe("bytes %02x %02x adjacent at positions 0..15 of a 24-byte block of '5's: memchr memrchr memcmp memcpy memmove, both guard placements", x, y);
        mc::nontrivial();
        unsigned long c_before = ncalls;
        for (PL = AFTER; PL <= BEFORE; PL++)
            for (int p = 0; p < 16; p++)
            {
                uint8_t s[32], w[32];
                memset(s, '5', 24);
                s[p] = x;
                s[p + 1] = y;
                memcpy(w, s, 24);
                w[p] = y;
                w[p + 1] = x;
                t_memchr(s, 24, 24, y, 0);
                t_memchr(s, 24, 24, x, 0);
                t_memchr(s, p + 1, 24, y, 0);
                t_memchr(s, 24, 24, (int)(signed char)y, 0);
                t_memcmp(s, w, 24, 24, 0, 0);
                t_memcmp(w, s, 24, 24, 0, 0);
                t_memcmp(s, w, p + 1, 24, 0, 0);
                t_copy(false, s, 24, 0, 0);
                t_copy(true, s, 24, 0, 0);
                t_move_overlap(s, 16, 1, 0);
                t_move_overlap(s, 16, -1, 0);
            }
        PL = AFTER;
        unsigned long calls = ncalls - c_before;
        mc::more_cases(calls - 1, calls - 1);
        flush_notes();
    });
}
