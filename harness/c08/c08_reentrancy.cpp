// C08 re-entrancy — every mem*/str* function except strtok is, by its definition, a function of its arguments and the
// objects they point to: two calls running in two threads on private operands share nothing.
//
// Shape T on /verif/mc/sched: two real threads, one running at a time, every interleaving of their scheduling points
// (start, the yield between the two calls each thread makes, end) up to preemption bound 2. The functions contain no
// synchronisation, so the scheduler adds no happens-before edge between the two threads' calls: under ThreadSanitizer
// ANY memory both calls touch with at least one write (a function-local static table, a generation counter, a scratch
// buffer, a cached pointer) is a reported race in every schedule. Every execution runs in a fresh process image, so
// "the process's first call overlapping another call" is what each case executes. Results are compared with glibc too.
//
// The repository's objects are compiled with -fsanitize=thread and symbol-prefixed like in the main build (the
// __tsan_* references are mapped back); sched.cpp and mc.cpp stay uninstrumented.
#include "c08_common.hpp"
#include "sched/sched.hpp"
#include <atomic>
#include <cstdlib>

extern "C" void *igc_malloc(size_t n) { return malloc(n); }
extern "C" void igc_free(void *p) { free(p); }

enum
{
    R_memcpy, R_memmove, R_memset, R_memcmp, R_memchr, R_memrchr, R_strlen, R_strnlen, R_strcpy, R_strncpy, R_strlcpy, R_strcat, R_strncat,
    R_strcmp, R_strncmp, R_strcasecmp, R_strncasecmp, R_strchr, R_strrchr, R_strchrnul, R_strstr, R_strcasestr, R_strspn, R_strcspn, R_strpbrk,
    R_strtok_r, R_strdup, R_strndup, R_strlwr, R_strupr, NR
};
static const char *RN[NR] = {"memcpy", "memmove", "memset", "memcmp", "memchr", "memrchr", "strlen", "strnlen", "strcpy", "strncpy", "strlcpy", "strcat", "strncat",
                             "strcmp", "strncmp", "strcasecmp", "strncasecmp", "strchr", "strrchr", "strchrnul", "strstr", "strcasestr", "strspn", "strcspn", "strpbrk",
                             "strtok_r", "strdup", "strndup", "strlwr", "strupr"};

struct Work // one call's private operands (heap)
{
    char a[32], b[32], d[96];
    size_t n;
    int c;
    long ret;
};
static long off(const void *r, const void *base) { return r ? (long)((const char *)r - (const char *)base) : -1000000; }
static int sgn(int x) { return (x > 0) - (x < 0); }
static size_t ref_strlcpy(char *d, const char *s, size_t size)
{
    size_t l = strlen(s);
    if (size)
    {
        size_t k = l < size - 1 ? l : size - 1;
        memcpy(d, s, k);
        d[k] = 0;
    }
    return l;
}
static char *ref_case(char *s, bool up)
{
    for (char *p = s; *p; p++)
        if (!up && *p >= 'A' && *p <= 'Z')
            *p += 32;
        else if (up && *p >= 'a' && *p <= 'z')
            *p -= 32;
    return s;
}

static long run(int id, bool impl, Work &w)
{
    char *A = w.a, *B = w.b, *D = w.d;
    size_t n = w.n;
    int c = w.c;
    char *sv = nullptr, *r;
    switch (id)
    {
    case R_memcpy: return off(impl ? igc_memcpy(D, A, n) : memcpy(D, A, n), D);
    case R_memmove: return off(impl ? igc_memmove(D + 2, D, n) : memmove(D + 2, D, n), D);
    case R_memset: return off(impl ? igc_memset(D, c, n) : memset(D, c, n), D);
    case R_memcmp: return sgn(impl ? igc_memcmp(A, B, n) : memcmp(A, B, n));
    case R_memchr: return off(impl ? igc_memchr(A, c, n) : memchr(A, c, n), A);
    case R_memrchr: return off(impl ? igc_memrchr(A, c, n) : memrchr(A, c, n), A);
    case R_strlen: return (long)(impl ? igc_strlen(A) : strlen(A));
    case R_strnlen: return (long)(impl ? igc_strnlen(A, n) : strnlen(A, n));
    case R_strcpy: return off(impl ? igc_strcpy(D, A) : strcpy(D, A), D);
    case R_strncpy: return off(impl ? igc_strncpy(D, A, n) : strncpy(D, A, n), D);
    case R_strlcpy: return (long)(impl ? igc_strlcpy(D, A, n) : ref_strlcpy(D, A, n));
    case R_strcat: return off(impl ? igc_strcat(D, A) : strcat(D, A), D);
    case R_strncat: return off(impl ? igc_strncat(D, A, n) : strncat(D, A, n), D);
    case R_strcmp: return sgn(impl ? igc_strcmp(A, B) : strcmp(A, B));
    case R_strncmp: return sgn(impl ? igc_strncmp(A, B, n) : strncmp(A, B, n));
    case R_strcasecmp: return sgn(impl ? igc_strcasecmp(A, B) : strcasecmp(A, B));
    case R_strncasecmp: return sgn(impl ? igc_strncasecmp(A, B, n) : strncasecmp(A, B, n));
    case R_strchr: return off(impl ? igc_strchr(A, c) : strchr(A, c), A);
    case R_strrchr: return off(impl ? igc_strrchr(A, c) : strrchr(A, c), A);
    case R_strchrnul: return off(impl ? igc_strchrnul(A, c) : strchrnul(A, c), A);
    case R_strstr: return off(impl ? igc_strstr(A, B) : strstr(A, B), A);
    case R_strcasestr: return off(impl ? igc_strcasestr(A, B) : strcasestr(A, B), A);
    case R_strspn: return (long)(impl ? igc_strspn(A, B) : strspn(A, B));
    case R_strcspn: return (long)(impl ? igc_strcspn(A, B) : strcspn(A, B));
    case R_strpbrk: return off(impl ? igc_strpbrk(A, B) : strpbrk(A, B), A);
    case R_strtok_r:
    {
        strcpy(D, A);
        long r1 = off(impl ? igc_strtok_r(D, B, &sv) : strtok_r(D, B, &sv), D);
        long r2 = off(impl ? igc_strtok_r(nullptr, B, &sv) : strtok_r(nullptr, B, &sv), D);
        return r1 * 1000 + r2;
    }
    case R_strdup:
    case R_strndup:
        r = id == R_strdup ? (impl ? igc_strdup(A) : strdup(A)) : (impl ? igc_strndup(A, n) : strndup(A, n));
        if (!r)
            return -1;
        strcpy(D, r);
        free(r);
        return (long)strlen(D);
    case R_strlwr: strcpy(D, A); return off(impl ? igc_strlwr(D) : ref_case(D, false), D);
    default: strcpy(D, A); return off(impl ? igc_strupr(D) : ref_case(D, true), D);
    }
}

static void fill(Work &w, int t, int k, int variant)
{
    static const char *AS[4] = {"ab,Cd;eF", "x,,yZ", "Hello, World", ""};
    static const char *BS[4] = {",;", "Z", "o, w", "abC"};
    memset(&w, 0, sizeof w);
    strcpy(w.a, AS[(t * 2 + k + variant) % 4]);
    strcpy(w.b, BS[(t + k * 2 + variant) % 4]);
    memset(w.d, 0xEE, sizeof w.d);
    strcpy(w.d, t ? "pq" : "r"); // a short destination string for strcat/strncat, source bytes for memmove
    w.n = (size_t)(3 + t + 2 * k + variant);
    w.c = (t * 2 + k + variant) % 3 == 0 ? ',' : (t + k) % 2 ? 'Z' : 0;
}

struct Side
{
    int id;
    Work w[2];
    std::atomic<int> done{0};
    void body()
    {
        w[0].ret = run(id, true, w[0]);
        sched::yield(); // the other thread may run a whole call between ours
        w[1].ret = run(id, true, w[1]);
        done.store(1, std::memory_order_release);
    }
};

MC_INIT
{
    mc::add_check("reentrancy.two_threads", [] {
        int first = mc::choose(NR * 2);
        mc::request_restart(); // state hidden in a static survives in the process: every execution gets a fresh one
        int id = first / 2, variant = first % 2;
        Side *S[2] = {new Side, new Side}; // deliberately leaked if the execution does not finish
        Work ref[2][2];
        for (int t = 0; t < 2; t++)
        {
            S[t]->id = id;
            for (int k = 0; k < 2; k++)
            {
                fill(S[t]->w[k], t, k, variant);
                ref[t][k] = S[t]->w[k];
            }
        }
        std::string who = mc::fmt("threads A and B each call %s twice on private operands (operand set %d)", RN[id], variant);
        mc::crash_context("C08.reentrancy.%s.shared_state", RN[id]);
        mc::describe("%s (the execution died before it completed)", who.c_str());
        sched::Options o;
        o.preemption_bound = 2;
        sched::begin(o);
        sched::spawn([S] { S[0]->body(); }, "A");
        sched::spawn([S] { S[1]->body(); }, "B");
        sched::Result r = sched::run();
        mc::describe("%s; preemptions=%d steps=%d: %s", who.c_str(), r.preemptions, r.steps, r.trace.c_str());
        mc::nontrivial();
        if (r.deadlock || r.horizon_hit || !S[0]->done.load(std::memory_order_acquire) || !S[1]->done.load(std::memory_order_acquire))
        {
            mc::violation("C08.reentrancy.did_not_finish", "%s: %s", who.c_str(), r.trace.c_str());
            return;
        }
        mc::crash_context("C08.harness");
        for (int t = 0; t < 2; t++)
            for (int k = 0; k < 2; k++)
            {
                ref[t][k].ret = run(id, false, ref[t][k]);
                Work &g = S[t]->w[k], &x = ref[t][k];
                if (g.ret != x.ret || memcmp(g.d, x.d, sizeof g.d) != 0 || memcmp(g.a, x.a, sizeof g.a) != 0 || memcmp(g.b, x.b, sizeof g.b) != 0)
                    mc::violation(mc::fmt("C08.reentrancy.%s.result", RN[id]), "%s: thread %c call %d: result %ld (reference %ld) or the bytes it left differ from the definition", who.c_str(), 'A' + t,
                                  k, g.ret, x.ret);
            }
        mc::outcome(mc::fmt("preemptions=%d", r.preemptions));
        delete S[0];
        delete S[1];
    });
}
MC_MAIN
