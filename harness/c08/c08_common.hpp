// Shared by the C08 harness TUs: guard-page arenas (one read/write page between two
// PROT_NONE pages), operand placement flush against either guard, the "current call"
// descriptor used to word violations, and the igc_* prototypes (= the repository's
// compat-libc functions after `objcopy --prefix-symbols=igc_`; the unprefixed names
// are glibc's and serve as the ISO reference).
#pragma once
#include "mc.hpp"
#include <cstdarg>
#include <cstdint>
#include <cstdio>
#include <cstring>
#include <string>
#include <strings.h>
#include <sys/mman.h>
#include <vector>

extern "C"
{
    void *igc_memcpy(void *, const void *, size_t);
    void *igc_memmove(void *, const void *, size_t);
    void *igc_memset(void *, int, size_t);
    int igc_memcmp(const void *, const void *, size_t);
    void *igc_memchr(const void *, int, size_t);
    void *igc_memrchr(const void *, int, size_t);
    size_t igc_strlen(const char *);
    size_t igc_strnlen(const char *, size_t);
    char *igc_strcpy(char *, const char *);
    char *igc_strncpy(char *, const char *, size_t);
    size_t igc_strlcpy(char *, const char *, size_t);
    char *igc_strcat(char *, const char *);
    char *igc_strncat(char *, const char *, size_t);
    int igc_strcmp(const char *, const char *);
    int igc_strncmp(const char *, const char *, size_t);
    int igc_strcasecmp(const char *, const char *);
    int igc_strncasecmp(const char *, const char *, size_t);
    char *igc_strchr(const char *, int);
    char *igc_strrchr(const char *, int);
    char *igc_strchrnul(const char *, int);
    char *igc_strstr(const char *, const char *);
    char *igc_strcasestr(const char *, const char *);
    size_t igc_strspn(const char *, const char *);
    size_t igc_strcspn(const char *, const char *);
    char *igc_strpbrk(const char *, const char *);
    char *igc_strtok(char *, const char *);
    char *igc_strtok_r(char *, const char *, char **);
    char *igc_strdup(const char *);
    char *igc_strndup(const char *, size_t);
    char *igc_strlwr(char *);
    char *igc_strupr(char *);
}

namespace c08
{
    enum
    {
        AFTER = 0, // operand ends where the inaccessible page begins: one byte of over-read/-write faults
        BEFORE = 1 // operand starts right after an inaccessible page: one byte of under-read/-write faults
    };
    static const size_t PG = 4096;
    static const size_t NPAGES = 40; // read/write pages per arena (the "large" sub-checks place up to ~71000 bytes)
    extern int W;                    // bytes next to each guard that are reset before and compared after every call
    static const int W_SMALL = 320;

    struct Arena
    {
        uint8_t *lo = nullptr, *hi = nullptr; // [lo,hi) is readable+writable, lo-1 and hi fault
        uint8_t fill = 0;
        void init(uint8_t f)
        {
            uint8_t *m = (uint8_t *)mmap(nullptr, (NPAGES + 2) * PG, PROT_READ | PROT_WRITE, MAP_PRIVATE | MAP_ANONYMOUS, -1, 0);
            if (m == MAP_FAILED)
                mc::harness_error("mmap failed");
            fill = f;
            memset(m, f, (NPAGES + 2) * PG);
            mprotect(m, PG, PROT_NONE);
            mprotect(m + (NPAGES + 1) * PG, PG, PROT_NONE);
            lo = m + PG;
            hi = m + (NPAGES + 1) * PG;
        }
        void wipe() { memset(lo, fill, hi - lo); }
        void readonly(bool on) { mprotect(lo, hi - lo, on ? PROT_READ : PROT_READ | PROT_WRITE); }
        uint8_t *win(int pl) { return pl == AFTER ? hi - W : lo; }
        // both windows are reset, so that a wild scan through the page sees the same bytes in every run
        void reset(int)
        {
            memset(hi - W, fill, W);
            memset(lo, fill, W);
        }
        // place n bytes `mis` bytes away from the guard (mis=0: flush)
        uint8_t *put(const void *d, size_t n, int pl, int mis = 0)
        {
            reset(pl);
            uint8_t *p = pl == AFTER ? hi - mis - n : lo + mis;
            if (n && d)
                memcpy(p, d, n);
            else if (n)
                memset(p, 0xEE, n); // d == nullptr: a destination array, pre-filled with junk
            return p;
        }
    };

    // operand slots 0..2 for the implementation (I) and for the reference (R); same fill per slot
    extern Arena I[3], R[3], M; // M: igc_malloc's arena
    void init_arenas();
    void set_window(size_t maxbytes); // large sub-checks: window = maxbytes + 640
    void restore_window();            // back to W_SMALL, arenas wiped to their fill byte

    // ---- current call (for messages and signatures) ----
    struct Call
    {
        const char *fn = "";
        const uint8_t *a = nullptr;
        long alen = -1;
        const uint8_t *b = nullptr;
        long blen = -1;
        bool has_n = false;
        size_t n = 0;
        bool has_c = false;
        int c = 0;
        int pl = AFTER;
        const char *cls = "";
        int ro = 0;
        char extra[96] = "";
    };
    extern Call K;
    extern int PL;
    extern void (*lazy_extra)(); // fills K.extra when a message is actually needed
    extern unsigned long nbad;   // number of bad()/fault() reports so far
    extern unsigned long ncalls; // calls of the functions under test so far
    // READ-ONLY INPUTS: while RO_ON, the arenas holding the const operands of the current call (K.ro, bit = slot) are
    // PROT_READ during the call: a routine that patches its input temporarily (sentinel, temporary NUL) and restores it
    // is invisible to the before/after comparison but faults here
    extern bool RO_ON;
    int ro_mask_for(const char *fn);
    bool guarded_ro(const std::function<void()> &f);
    extern const char *ONLY;     // history sub-checks: the testers that bundle several functions call only this one
    // History schedule shared by str_history / mem_history: one function is called HIST_STEPS times in one process.
    // Step k uses a "common" argument tuple (rotation of period 7) except: for each gap g of HIST_GAPS a RARE tuple
    // (built around a byte used nowhere else) at step t and a PROBE tuple at step t+g whose correct result differs
    // from what a stale remnant of the rare call would give. Gaps around 2^8-1, 2^8, 2*2^8, 2^16-1, 2^16: state kept
    // between calls under an 8/16-bit generation counter or index comes back to life exactly there.
    static const int HIST_GAPS[11] = {254, 255, 256, 257, 510, 511, 512, 65534, 65535, 65536, 65537};
    static const int HIST_STEPS = 65600;
    struct HistEv
    {
        int kind; // 0 common (q = k mod 7), 1 rare, 2 probe (q = index of the gap)
        int q;
    };
    inline HistEv hist_event(int k)
    {
        for (int q = 0; q < 11; q++)
        {
            int t = 10 + 3 * q;
            if (k == t)
                return HistEv{1, q};
            if (k == t + HIST_GAPS[q])
                return HistEv{2, q};
        }
        return HistEv{0, k % 7};
    }
    // boundary bytes of the "adjacent pair x position" family: control/space, the ends of A-Z and a-z and their neighbours,
    // DEL, and high-bit bytes whose low 7 bits are (or are next to) letters - a word-at-a-time rewrite makes the result
    // for one byte depend on its neighbour (a carry out of a high byte into the next lane)
    static const uint8_t PAIR_BYTES[19] = {0x01, 0x1F, 0x20, '@', 'A', 'Z', '[', '`', 'a', 'z', '{', 0x7F, 0x80, 0xC0, 0xC1, 0xDA, 0xDB, 0xE0, 0xFF};
    inline bool want(const char *fn) { return !ONLY || !strcmp(ONLY, fn); }
    // lengths and positions used by the "large" sub-checks (counters/sizes narrowed to 8 or 16 bits show only there)
    std::vector<size_t> large_lengths();
    std::vector<size_t> large_positions(size_t L); // {0,1,254,255,256,257,L-1} below L
    std::vector<size_t> large_ns(size_t L);        // n arguments: 0,1,254..257,L-1,L,L+1

    inline void setK(const char *fn, const uint8_t *a, long alen, const uint8_t *b = nullptr, long blen = -1)
    {
        if (fn != K.fn) // signature prefix should the process die inside the call (stack overflow, endless recursion)
            mc::crash_context("C08.%s", fn);
        if (fn != K.fn)
            K.ro = ro_mask_for(fn);
        K.fn = fn;
        K.a = a;
        K.alen = alen;
        K.b = b;
        K.blen = blen;
        K.has_n = K.has_c = false;
        K.pl = PL;
        K.cls = "";
        K.extra[0] = 0;
        lazy_extra = nullptr;
    }
    inline void setN(size_t n)
    {
        K.has_n = true;
        K.n = n;
    }
    inline void setC(int c)
    {
        K.has_c = true;
        K.c = c;
    }
    std::string show();
    void bad(const char *kind, const char *fmt, ...) __attribute__((format(printf, 2, 3)));
    void fault();
    // compare the window of slot `slot` between I and R; [p, p+ext) is the destination the definition may write
    void winchk(int slot, const uint8_t *p, size_t ext);

    inline const char *ncls(size_t n, size_t len)
    {
        return n == 0 ? "n0" : n == (size_t)-1 ? "n_max" : n > (size_t)-1 / 2 ? "n_huge" : n < len ? "n_lt_len" : n == len ? "n_eq_len" : "n_gt_len";
    }
    inline const char *ccls(int c)
    {
        return c == 0 ? "c_nul" : (c < -128 || c > 255) ? "c_outside_char_range" : c < 0 ? "c_negative" : c >= 128 ? "c_highbit" : "c_ascii";
    }
    // n arguments far larger than any object, legal wherever the definition guarantees an earlier stop (terminated
    // string / byte present): SIZE_MAX, SIZE_MAX/2+1 (= PTRDIFF_MAX+1: s+n wraps or goes "negative"), SIZE_MAX-7
    static const size_t HUGE_N[3] = {(size_t)-1, (size_t)-1 / 2 + 1, (size_t)-1 - 7};
    static_assert((size_t)PTRDIFF_MAX + 1 == (size_t)-1 / 2 + 1, "PTRDIFF_MAX+1 and SIZE_MAX/2+1 coincide on this host");
    inline long off(const void *r, const void *base) { return r ? (long)((const char *)r - (const char *)base) : -1000000; }
    inline int sgn(int x) { return (x > 0) - (x < 0); }

    // per-case outcome classes (emitted once per case)
    void note(int fnid, int cls);
    void flush_notes();

    // ---- string tables: all strings over an alphabet up to a length, by length then lexicographic ----
    struct Str
    {
        uint8_t b[11]; // b[len] == 0 always
        uint8_t len;
    };
    struct Table
    {
        std::vector<Str> v;
        std::vector<size_t> upto; // upto[L] = number of strings of length <= L
        size_t first_of_len(int L) const { return L == 0 ? 0 : upto[L - 1]; }
    };
    Table make_table(const uint8_t *alpha, int na, int maxlen);
    std::string hexs(const uint8_t *p, long n);
}

#define CALL(expr)                        \
    do                                    \
    {                                     \
        c08::ncalls++;                    \
        if (!c08::guarded_ro([&] { expr; })) \
        {                                 \
            c08::fault();                 \
            return;                       \
        }                                 \
    } while (0)
