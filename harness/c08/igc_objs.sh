# source me.  igc_one <shim> <out.o> <file.c>  compiles one of the repository's compat-libc sources against the
# host headers + a two-file shim, then prefixes every symbol with igc_ (so igc_memcpy ... are the repository's
# functions and the unprefixed names stay glibc's = the reference) and maps the host-owned references back:
# every undefined symbol that starts with two underscores (__errno_location, __stack_chk_fail, __tsan_*, ...)
# and whatever $IGC_KEEP lists.  $IGC_CFLAGS: extra compiler flags (sanitizer build).
igc_shim() { # $1 = dir
    mkdir -p "$1"
    echo "#include \"$REPO/compat/libc/include/ctype.h\"" > "$1/ctype.h"
    printf '#include_next <errno.h>\n#include <igris/util/errno.h>\n' > "$1/errno.h"
}
igc_one() { # $1 = shim dir, $2 = out.o, $3 = src.c
    gcc -c ${IGC_OPT:--O2} -g -w -fno-builtin -fno-tree-loop-distribute-patterns -fstack-protector-strong -fexceptions $IGC_CFLAGS \
        -U_FORTIFY_SOURCE -D_GNU_SOURCE -D'__weak_alias(a,b)=' -isystem "$1" -I"$REPO" "$3" -o "$2" || return 1
    objcopy --prefix-symbols=igc_ "$2" || return 1
    local args=()
    for s in $IGC_KEEP; do args+=(--redefine-sym "igc_$s=$s"); done
    for s in $(nm -u "$2" | awk '{print $2}' | grep '^igc___' | sort -u); do
        case " $IGC_KEEP " in *" ${s#igc_} "*) ;; *) args+=(--redefine-sym "$s=${s#igc_}") ;; esac
    done
    [ ${#args[@]} -eq 0 ] || objcopy "${args[@]}" "$2"
}
