# source me. Recipe that turns the repository's compat-libc sources into objects whose every symbol is prefixed igc_
# (igc_memcpy ... are the repository's functions; the unprefixed names stay glibc's = the reference):
#   igc_one <shim> <out.o> <file.c>   compile against the host headers + a two-file shim, prefix every symbol
#   igc_resolve <objs...>             afterwards, over the whole set: an undefined igc_X stays igc_X when one of the
#                                     objects defines it (a repository routine calling a sibling routine binds to the
#                                     repository's twin) or when the harness supplies it ($IGC_HARNESS: malloc free
#                                     calloc realloc rand srand); every other undefined igc_X (__errno_location,
#                                     __stack_chk_fail, __tsan_*, _Unwind_Resume, a libc function the repository does
#                                     not implement, ...) is mapped back to the host's X.
# $IGC_CFLAGS / $IGC_OPT / $IGC_CC: extra compiler flags / optimisation level / compiler (sanitizer and variant builds).
# $IGC_MODE: defaults to "-fno-builtin -fno-tree-loop-distribute-patterns"; set it to "" for the project-like build
# (the repository's make.py passes neither; symbol renaming happens after compilation, so gcc sees the real names).
IGC_HARNESS="${IGC_HARNESS:-malloc free calloc realloc rand srand}"
igc_shim() { # $1 = dir
    mkdir -p "$1"
    echo "#include \"$REPO/compat/libc/include/ctype.h\"" > "$1/ctype.h"
    printf '#include_next <errno.h>\n#include <igris/util/errno.h>\n' > "$1/errno.h"
}
igc_one() { # $1 = shim dir, $2 = out.o, $3 = src.c
    # -D__NO_INLINE__: the host's <stdlib.h>/<string.h> then only DECLARE (glibc otherwise defines atol() & co. as extern
    # inlines that call strtol - a repository strtol calling the repository's atol would recurse into itself)
    ${IGC_CC:-gcc} -c ${IGC_OPT:--O2} -g -w ${IGC_MODE--fno-builtin -fno-tree-loop-distribute-patterns} -fstack-protector-strong -fexceptions $IGC_CFLAGS \
        -U_FORTIFY_SOURCE -D_GNU_SOURCE -D__NO_INLINE__ -D'__weak_alias(a,b)=' -isystem "$1" -I"$REPO" "$3" -o "$2" || return 1
    objcopy --prefix-symbols=igc_ "$2"
}
igc_resolve() { # objects of one executable
    local defined o s args
    defined=" $(nm --defined-only "$@" | awk 'NF==3{print $3}' | sort -u | tr '\n' ' ') "
    for o in "$@"; do
        args=()
        for s in $(nm -u "$o" | awk '{print $2}' | grep '^igc_' | sort -u); do
            case "$defined" in *" $s "*) continue ;; esac
            case " $IGC_HARNESS " in *" ${s#igc_} "*) continue ;; esac
            args+=(--redefine-sym "$s=${s#igc_}")
        done
        [ ${#args[@]} -eq 0 ] || objcopy "${args[@]}" "$o" || return 1
    done
}
