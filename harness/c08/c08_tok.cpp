// C08 — strtok / strtok_r driven as call sequences (continue with NULL, change the delimiter set
// between calls, restart on a new string) against glibc's, comparing every returned pointer
// (normalised to buffer+offset) and the buffer bytes after every call.
#include "c08_common.hpp"
using namespace c08;

enum
{
    F_strtok = 40, F_strtok_r
};

static const uint8_t AT[] = {'a', 'b', ',', ';'};
static const char *DL[4] = {",", ",;", "", "b"};
static Table TT;

struct Step
{
    int str;  // -1: continue with NULL; else index into TT of the new string
    int slot; // arena slot of the new string
    int d;    // delimiter set
};

// Every sequence starts from the same saved position: a prelude call on a scratch string "q,r"
// (token "q" returned, "r" pending) so that the static/saved pointer is the same in every case.
static char scr_i[8], scr_r[8];

static long where(const char *p, uint8_t *const cur[2], const size_t curlen[2], const char *scr)
{
    if (!p)
        return -1;
    for (int s = 0; s < 2; s++)
        if (cur[s] && (uint8_t *)p >= cur[s] && (uint8_t *)p <= cur[s] + curlen[s])
            return (s + 1) * 1000 + (long)((uint8_t *)p - cur[s]);
    if (p >= scr && p < scr + 8)
        return 9000 + (long)(p - scr);
    return -2;
}
static std::string wname(long w)
{
    if (w == -1)
        return "NULL";
    if (w == -2)
        return "a pointer outside every string";
    if (w >= 9000)
        return mc::fmt("prelude string+%ld", w - 9000);
    return mc::fmt("string%ld+%ld", w / 1000, w % 1000);
}
static const Step *g_st;
static int g_k;
static const char *g_fn;
static void seq_extra()
{
    std::string h = mc::fmt("(call %d of: ", g_k + 1);
    for (int q = 0; q <= g_k; q++)
        h += g_st[q].str >= 0 ? mc::fmt("%s(%s,\"%s\") ", g_fn, hexs(TT.v[g_st[q].str].b, TT.v[g_st[q].str].len).c_str(), DL[g_st[q].d])
                              : mc::fmt("%s(NULL,\"%s\") ", g_fn, DL[g_st[q].d]);
    snprintf(K.extra, sizeof K.extra, "%s)", h.c_str());
}

// ISO 7.24.5.8 does not say where the saved position is after a call that returned NULL (glibc, musl and
// the BSDs move it to the end of the string; read literally the text leaves it where it was), so a
// continuation with a DIFFERENT delimiter set after a NULL return has no prescribed result: not driven.
static uint64_t g_calls;
static void run_seq(bool reent, const Step *st, int ns)
{
    uint8_t *ci[2] = {nullptr, nullptr}, *cr[2] = {nullptr, nullptr};
    size_t cl[2] = {0, 0};
    memcpy(scr_i, "q,r", 4);
    memcpy(scr_r, "q,r", 4);
    char *svi = nullptr, *svr = nullptr;
    const char *fn = reent ? "strtok_r" : "strtok";
    // prelude
    {
        setK(fn, (const uint8_t *)"q,r", 4, (const uint8_t *)",", 2);
        snprintf(K.extra, sizeof K.extra, "(prelude call)");
        uint8_t *di = I[2].put(",", 2, PL), *dr = R[2].put(",", 2, PL);
        char *ri = nullptr, *rr = reent ? strtok_r(scr_r, (char *)dr, &svr) : strtok(scr_r, (char *)dr);
        CALL(ri = reent ? igc_strtok_r(scr_i, (char *)di, &svi) : igc_strtok(scr_i, (char *)di));
        if (where(ri, ci, cl, scr_i) != where(rr, cr, cl, scr_r) || memcmp(scr_i, scr_r, 8))
        {
            bad("return", "prelude returned %s, want %s", wname(where(ri, ci, cl, scr_i)).c_str(), wname(where(rr, cr, cl, scr_r)).c_str());
            return;
        }
    }
    unsigned long nbad0 = nbad;
    bool last_null = false;
    bool tokenless = false; // the current string yielded NULL on its first call
    int curslot = -1;
    const Str *cur = nullptr;
    for (int k = 0; k < ns; k++)
    {
        const char *d = DL[st[k].d];
        size_t dl = strlen(d);
        uint8_t *di = I[2].put(d, dl + 1, PL), *dr = R[2].put(d, dl + 1, PL);
        char *ai = nullptr, *ar = nullptr;
        if (st[k].str >= 0)
        {
            cur = &TT.v[st[k].str];
            curslot = st[k].slot;
            ci[curslot] = I[curslot].put(cur->b, cur->len + 1, PL);
            cr[curslot] = R[curslot].put(cur->b, cur->len + 1, PL);
            cl[curslot] = cur->len;
            ai = (char *)ci[curslot];
            ar = (char *)cr[curslot];
            tokenless = false;
        }
        setK(fn, cur->b, cur->len + 1, (const uint8_t *)d, dl + 1);
        K.cls = st[k].str >= 0 ? "" : tokenless ? "continue_after_tokenless_string" : "continue";
        g_st = st;
        g_k = k;
        g_fn = fn;
        lazy_extra = seq_extra;
        if (st[k].str < 0 && last_null && st[k].d != st[k - 1].d)
        {
            mc::count("sequences_cut_at_unspecified_continuation_after_null");
            return;
        }
        char *ri = nullptr, *rr = reent ? strtok_r(ar, (char *)dr, &svr) : strtok(ar, (char *)dr);
        CALL(ri = reent ? igc_strtok_r(ai, (char *)di, &svi) : igc_strtok(ai, (char *)di));
        g_calls++;
        last_null = rr == nullptr;
        long wi = where(ri, ci, cl, scr_i), wr = where(rr, cr, cl, scr_r);
        if (wi != wr)
        {
            bad("return", "returned %s, want %s", wname(wi).c_str(), wname(wr).c_str());
            return; // the two sides are out of step from here on
        }
        for (int s = 0; s < 2; s++)
            if (ci[s])
                winchk(s, ci[s], cl[s] + 1);
        winchk(2, di, 0);
        if (memcmp(scr_i, scr_r, 8))
        {
            bad("write_outside", "the prelude string was modified");
            return;
        }
        if (nbad != nbad0)
            return;
        if (st[k].str >= 0 && !rr)
            tokenless = true;
        note(reent ? F_strtok_r : F_strtok, (rr ? 1 : 0) + 2 * (st[k].str >= 0));
    }
}

MC_INIT
{
    TT = make_table(AT, 4, 6);

    // (1) one string tokenised to exhaustion and two calls beyond, the delimiter set chosen anew at every call
    mc::add_check("strtok_sequences", [] {
        init_arenas();
        int L = mc::thorough() ? 6 : 4;
        int i = mc::choose((int)TT.upto[L]);
        const Str &s = TT.v[i];
        mc::describe("strtok and strtok_r on %s: 5 calls, each with any of the delimiter sets \",\" \",;\" \"\" \"b\" (1024 sequences), both guard placements", hexs(s.b, s.len).c_str());
        if (s.len >= 2)
            mc::nontrivial();
        g_calls = 0;
        Step st[5];
        for (PL = AFTER; PL <= BEFORE; PL++)
            for (int reent = 0; reent < 2; reent++)
                for (int code = 0; code < 1024; code++)
                {
                    for (int k = 0; k < 5; k++)
                    {
                        st[k].str = k == 0 ? i : -1;
                        st[k].slot = 0;
                        st[k].d = (code >> (2 * k)) & 3;
                    }
                    run_seq(reent, st, 5);
                }
        PL = AFTER;
        mc::more_cases(g_calls - 1, g_calls - 1);
        flush_notes();
    });

    // (2) restart on a second string after 0..2 continuation calls, then continue twice
    mc::add_check("strtok_restart", [] {
        init_arenas();
        int L = mc::thorough() ? 3 : 2;
        int c0 = mc::choose((int)TT.upto[L] * 4);
        int i = c0 / 4, d1 = c0 % 4;
        const Str &s = TT.v[i];
        mc::describe("strtok/strtok_r: %s with \"%s\", 0..2 more calls, then a new string (every string of length <=%d) with every delimiter set, then 2 more calls with every delimiter set",
                     hexs(s.b, s.len).c_str(), DL[d1], L);
        mc::nontrivial();
        g_calls = 0;
        Step st[6];
        for (PL = AFTER; PL <= BEFORE; PL++)
            for (int reent = 0; reent < 2; reent++)
                for (int pre = 0; pre <= 2; pre++)
                    for (size_t j = 0; j < TT.upto[L]; j++)
                        for (int code = 0; code < 64; code++)
                        {
                            int k = 0;
                            st[k++] = Step{i, 0, d1};
                            for (int q = 0; q < pre; q++)
                                st[k++] = Step{-1, 0, d1};
                            st[k++] = Step{(int)j, 1, code & 3};
                            st[k++] = Step{-1, 1, (code >> 2) & 3};
                            st[k++] = Step{-1, 1, (code >> 4) & 3};
                            run_seq(reent, st, k);
                        }
        PL = AFTER;
        mc::more_cases(g_calls - 1, g_calls - 1);
        flush_notes();
    });

    // (3) LARGE: a string of 127..1000 (thorough ..70000) bytes with delimiters at 1,254..257,len-1, tokenised to the end
    auto body_strtok_large = [] {
        init_arenas();
        std::vector<size_t> LS = large_lengths();
        int c0 = mc::choose((int)LS.size() * 2 * 2);
        size_t L = LS[c0 / 4];
        int reent = (c0 / 2) % 2, dense = c0 % 2;
        const char *fn = reent ? "strtok_r" : "strtok";
        mc::describe("%s on a %zu-byte string with delimiters at %s, \",;\" then \",\", called until NULL and once more; both guard placements", fn, L,
                     dense ? "every 7th byte and 254..257" : "1,254,255,256,257,len-1");
        mc::nontrivial();
        set_window(L + 300);
        std::vector<uint8_t> s(L + 1);
        for (size_t i = 0; i < L; i++)
            s[i] = (uint8_t)('a' + i % 23);
        for (size_t p : large_positions(L))
            if (p)
                s[p] = (p & 1) ? ',' : ';';
        if (dense)
            for (size_t i = 3; i < L; i += 7)
                s[i] = ',';
        s[L] = 0;
        unsigned long c_before = ncalls;
        for (PL = AFTER; PL <= BEFORE; PL++)
        {
            uint8_t *bi = I[0].put(s.data(), L + 1, PL), *br = R[0].put(s.data(), L + 1, PL);
            char *svi = nullptr, *svr = nullptr;
            size_t maxcalls = L / 2 + 4;
            for (size_t k = 0, nulls = 0; k < maxcalls && nulls < 2; k++)
            {
                const char *d = ",;";
                uint8_t *di = I[2].put(d, 3, PL), *dr = R[2].put(d, 3, PL);
                setK(fn, s.data(), L + 1, (const uint8_t *)d, 3);
                snprintf(K.extra, sizeof K.extra, "(call %zu of the sequence)", k + 1);
                char *ai = k ? nullptr : (char *)bi, *ar = k ? nullptr : (char *)br;
                char *ri = nullptr, *rr = reent ? strtok_r(ar, (char *)dr, &svr) : strtok(ar, (char *)dr);
                bool ok = guarded_ro([&] { ri = reent ? igc_strtok_r(ai, (char *)di, &svi) : igc_strtok(ai, (char *)di); });
                ncalls++;
                if (!ok)
                {
                    fault();
                    break;
                }
                if (off(ri, bi) != off(rr, br))
                {
                    bad("return", "returned %s%+ld, want %s%+ld", ri ? "s" : "NULL", ri ? off(ri, bi) : 0, rr ? "s" : "NULL", rr ? off(rr, br) : 0);
                    break;
                }
                unsigned long nb = nbad;
                winchk(0, bi, L + 1);
                if (nbad != nb)
                    break;
                if (!rr)
                    nulls++;
                note(reent ? F_strtok_r : F_strtok, rr ? 5 : 4);
            }
        }
        PL = AFTER;
        restore_window();
        unsigned long calls = ncalls - c_before;
        if (calls)
            mc::more_cases(calls - 1, calls - 1);
        flush_notes();
    };
    mc::add_check("strtok_large", body_strtok_large);
    // the same with the const operands of every call mapped read-only during the call
    mc::add_check("strtok_large.readonly", [body_strtok_large] {
        RO_ON = true;
        body_strtok_large();
        RO_ON = false;
    });
}
