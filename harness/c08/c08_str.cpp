// C08 — str* functions of the bundled libc against glibc's (ISO/POSIX reference), byte-exact.
// Every call is made twice on identically prepared guard-page arenas: glibc on R[], the
// repository's function (igc_*) on I[]; then return values (normalised to offset / sign)
// and the whole window next to the guard (destination bytes + canaries) are compared.
#include "c08_common.hpp"
using namespace c08;

namespace c08
{
    extern int malloc_fail;
    extern size_t malloc_last;
    extern int malloc_calls;
    extern uint8_t *malloc_ptr;
}


typedef void (*caller_fn)(char *, char *, size_t, int, char *, int, long *);
#define CALLER_DECL(p)                                                                                                                          \
    extern "C" void p##strlen(char *, char *, size_t, int, char *, int, long *), p##strnlen(char *, char *, size_t, int, char *, int, long *),  \
        p##strcmp(char *, char *, size_t, int, char *, int, long *), p##strncmp(char *, char *, size_t, int, char *, int, long *),              \
        p##strcasecmp(char *, char *, size_t, int, char *, int, long *), p##strncasecmp(char *, char *, size_t, int, char *, int, long *),      \
        p##strchr(char *, char *, size_t, int, char *, int, long *), p##strrchr(char *, char *, size_t, int, char *, int, long *),              \
        p##strchrnul(char *, char *, size_t, int, char *, int, long *), p##strstr(char *, char *, size_t, int, char *, int, long *),            \
        p##strcasestr(char *, char *, size_t, int, char *, int, long *), p##strspn(char *, char *, size_t, int, char *, int, long *),           \
        p##strcspn(char *, char *, size_t, int, char *, int, long *), p##strpbrk(char *, char *, size_t, int, char *, int, long *),             \
        p##memcmp(char *, char *, size_t, int, char *, int, long *), p##memchr(char *, char *, size_t, int, char *, int, long *),               \
        p##memrchr(char *, char *, size_t, int, char *, int, long *);                                                                           \
    extern "C" long p##loop_strlen(char *);
CALLER_DECL(igc_caller_)
CALLER_DECL(igc_callernb_)
#define CALLER_TAB(p) {p##strlen, p##strnlen, p##strcmp, p##strncmp, p##strcasecmp, p##strncasecmp, p##strchr, p##strrchr, p##strchrnul, p##strstr, p##strcasestr, p##strspn, p##strcspn, p##strpbrk, p##memcmp, p##memchr, p##memrchr}
static caller_fn caller_entry(int f, int nb)
{
    static const caller_fn T0[17] = CALLER_TAB(igc_caller_), T1[17] = CALLER_TAB(igc_callernb_);
    return nb ? T1[f] : T0[f];
}
typedef long (*loop_fn)(char *);
static loop_fn caller_loop(int nb) { return nb ? igc_callernb_loop_strlen : igc_caller_loop_strlen; }

static int MA = 0, MB = 0; // distance of operand a / b from the guard (alignment sweeps); 0 = flush

enum
{
    F_strlen = 1, F_strnlen, F_strcpy, F_strncpy, F_strlcpy, F_strcat, F_strncat, F_strcmp, F_strncmp, F_strcasecmp,
    F_strncasecmp, F_strchr, F_strrchr, F_strchrnul, F_strstr, F_strcasestr, F_strspn, F_strcspn, F_strpbrk, F_strdup,
    F_strndup, F_strlwr, F_strupr
};

typedef const uint8_t *BP;
static inline size_t mn(size_t a, size_t b) { return a < b ? a : b; }

// ------------------------------------------------------------------ unary
static void t_strlen(BP s, size_t l)
{
    setK("strlen", s, l + 1);
    K.cls = l == 0 ? "empty" : "";
    uint8_t *pi = I[0].put(s, l + 1, PL, MA), *pr = R[0].put(s, l + 1, PL, MA);
    size_t ri = 0, rr = strlen((char *)pr);
    CALL(ri = igc_strlen((char *)pi));
    if (ri != rr)
        bad("return", "returned %zu, want %zu", ri, rr);
    winchk(0, pi, 0);
    note(F_strlen, ri > 0);
}

static void t_strnlen(BP s, size_t l, size_t n)
{
    size_t ext = PL == AFTER ? mn(n, l + 1) : l + 1; // bytes the definition allows to be examined
    setK("strnlen", s, ext);
    setN(n);
    K.cls = ncls(n, l);
    uint8_t *pi = I[0].put(s, ext, PL, MA), *pr = R[0].put(s, ext, PL, MA);
    size_t ri = 0, rr = strnlen((char *)pr, n);
    CALL(ri = igc_strnlen((char *)pi, n));
    if (ri != rr)
        bad("return", "returned %zu, want %zu", ri, rr);
    winchk(0, pi, 0);
    note(F_strnlen, (ri == n) + 2 * (ri == l));
}

static void t_strcpy(BP s, size_t l)
{
    setK("strcpy", s, l + 1);
    uint8_t *pi = I[0].put(s, l + 1, PL, MA), *pr = R[0].put(s, l + 1, PL, MA);
    uint8_t *di = I[1].put(nullptr, l + 1, PL, MB), *dr = R[1].put(nullptr, l + 1, PL, MB);
    char *ri = nullptr, *rr = strcpy((char *)dr, (char *)pr);
    CALL(ri = igc_strcpy((char *)di, (char *)pi));
    if (off(ri, di) != off(rr, dr))
        bad("return", "returned dst%+ld, want dst%+ld", off(ri, di), off(rr, dr));
    winchk(1, di, l + 1);
    winchk(0, pi, 0);
    note(F_strcpy, l > 0);
}

static void t_strncpy(BP s, size_t l, size_t n)
{
    size_t sext = PL == AFTER ? mn(n, l + 1) : l + 1;
    setK("strncpy", s, sext);
    setN(n);
    K.cls = ncls(n, l);
    uint8_t *pi = I[0].put(s, sext, PL, MA), *pr = R[0].put(s, sext, PL, MA);
    uint8_t *di = I[1].put(nullptr, n, PL, MB), *dr = R[1].put(nullptr, n, PL, MB);
    char *ri = nullptr, *rr = strncpy((char *)dr, (char *)pr, n);
    CALL(ri = igc_strncpy((char *)di, (char *)pi, n));
    if (off(ri, di) != off(rr, dr))
        bad("return", "returned dst%+ld, want dst%+ld", off(ri, di), off(rr, dr));
    winchk(1, di, n);
    winchk(0, pi, 0);
    note(F_strncpy, (n > l) + 2 * (n == 0));
}

// BSD text: copies at most size-1 bytes, always NUL-terminates when size>0, returns strlen(src)
static size_t ref_strlcpy(char *d, const char *s, size_t size)
{
    size_t l = strlen(s);
    if (size)
    {
        size_t k = l < size - 1 ? l : size - 1;
        memcpy(d, s, k);
        d[k] = 0;
    }
    return l;
}
static void t_strlcpy(BP s, size_t l, size_t size)
{
    setK("strlcpy", s, l + 1);
    setN(size);
    K.cls = size == 0 ? "size0" : size <= l ? "truncating" : "fits";
    uint8_t *pi = I[0].put(s, l + 1, PL, MA), *pr = R[0].put(s, l + 1, PL, MA);
    uint8_t *di = I[1].put(nullptr, size, PL, MB), *dr = R[1].put(nullptr, size, PL, MB);
    size_t ri = 0, rr = ref_strlcpy((char *)dr, (char *)pr, size);
    CALL(ri = igc_strlcpy((char *)di, (char *)pi, size));
    if (ri != rr)
        bad("return", "returned %zu, want strlen(src)=%zu", ri, rr);
    winchk(1, di, size);
    winchk(0, pi, 0);
    note(F_strlcpy, (size <= l) + 2 * (size == 0));
}

static void t_strdup(BP s, size_t l)
{
    setK("strdup", s, l + 1);
    uint8_t *pi = I[0].put(s, l + 1, PL, MA);
    R[0].put(s, l + 1, PL, MA);
    for (int fail = 0; fail < (ONLY ? 1 : 2); fail++)
    {
        M.reset(PL);
        malloc_fail = fail;
        malloc_calls = 0;
        K.cls = fail ? "malloc_fails" : "";
        char *ri = nullptr;
        CALL(ri = igc_strdup((char *)pi));
        if (fail)
        {
            if (ri)
                bad("return", "malloc returned NULL but strdup returned non-null");
            continue;
        }
        if (!ri || (uint8_t *)ri != malloc_ptr)
            bad("return", "did not return the block obtained from malloc");
        else if (malloc_last < l + 1)
            bad("alloc_too_small", "asked malloc for %zu bytes, the copy needs %zu", malloc_last, l + 1);
        else if (memcmp(ri, s, l + 1) != 0)
            bad("dest_bytes", "copy is %s, want %s", hexs((uint8_t *)ri, l + 1).c_str(), hexs(s, l + 1).c_str());
        else
        {
            // nothing outside the block
            uint8_t *w = M.win(PL);
            for (int k = 0; k < W; k++)
                if ((w + k < malloc_ptr || w + k >= malloc_ptr + malloc_last) && w[k] != M.fill)
                {
                    bad("write_outside", "byte at block%+ld overwritten", (long)(w + k - malloc_ptr));
                    break;
                }
        }
    }
    malloc_fail = 0;
    winchk(0, pi, 0);
    note(F_strdup, l > 0);
}

static void t_strndup(BP s, size_t l, size_t n)
{
    size_t sext = PL == AFTER ? mn(n, l + 1) : l + 1; // POSIX: at most n bytes are examined; need not be terminated within n
    size_t k = mn(n, l);
    setK("strndup", s, sext);
    setN(n);
    K.cls = PL == AFTER && n <= l ? (n == 0 ? "n0_unterminated" : "unterminated_within_n") : ncls(n, l);
    uint8_t *pi = I[0].put(s, sext, PL, MA);
    R[0].put(s, sext, PL, MA);
    M.reset(PL);
    char *ri = nullptr;
    if (!ONLY)
    {
        malloc_fail = 1;
        ri = (char *)1;
        CALL(ri = igc_strndup((char *)pi, n));
        malloc_fail = 0;
        if (ri)
        {
            K.cls = "malloc_fails";
            bad("return", "malloc returned NULL but strndup returned non-null");
            return;
        }
    }
    malloc_fail = 0;
    CALL(ri = igc_strndup((char *)pi, n));
    if (!ri || (uint8_t *)ri != malloc_ptr)
        bad("return", "did not return the block obtained from malloc");
    else if (malloc_last < k + 1)
        bad("alloc_too_small", "asked malloc for %zu bytes, the copy needs %zu", malloc_last, k + 1);
    else if (memcmp(ri, s, k) != 0 || ri[k] != 0)
        bad("dest_bytes", "copy is %s, want the first %zu bytes + NUL", hexs((uint8_t *)ri, k + 1).c_str(), k);
    else
    {
        uint8_t *w = M.win(PL);
        for (int q = 0; q < W; q++)
            if ((w + q < malloc_ptr || w + q >= malloc_ptr + malloc_last) && w[q] != M.fill)
            {
                bad("write_outside", "byte at block%+ld overwritten", (long)(w + q - malloc_ptr));
                break;
            }
    }
    winchk(0, pi, 0);
    note(F_strndup, (n < l) + 2 * (n == 0));
}

static void t_chr(BP s, size_t l, int c)
{
    uint8_t *pi = I[0].put(s, l + 1, PL, MA), *pr = R[0].put(s, l + 1, PL, MA);
    if (want("strchr"))
    {
        setK("strchr", s, l + 1);
        setC(c);
        K.cls = ccls(c);
        char *ri = nullptr, *rr = strchr((char *)pr, c);
        CALL(ri = igc_strchr((char *)pi, c));
        if (off(ri, pi) != off(rr, pr))
            bad("return", "returned %s%+ld, want %s%+ld", ri ? "s" : "NULL", ri ? off(ri, pi) : 0, rr ? "s" : "NULL", rr ? off(rr, pr) : 0);
        note(F_strchr, ri ? 1 : 0);
    }
    if (want("strrchr"))
    {
        setK("strrchr", s, l + 1);
        setC(c);
        K.cls = ccls(c);
        char *ri = nullptr, *rr = strrchr((char *)pr, c);
        CALL(ri = igc_strrchr((char *)pi, c));
        if (off(ri, pi) != off(rr, pr))
            bad("return", "returned %s%+ld, want %s%+ld", ri ? "s" : "NULL", ri ? off(ri, pi) : 0, rr ? "s" : "NULL", rr ? off(rr, pr) : 0);
        note(F_strrchr, ri ? 1 : 0);
    }
    if (want("strchrnul"))
    {
        setK("strchrnul", s, l + 1);
        setC(c);
        K.cls = ccls(c);
        char *ri = nullptr, *rr = strchrnul((char *)pr, c);
        CALL(ri = igc_strchrnul((char *)pi, c));
        if (off(ri, pi) != off(rr, pr))
            bad("return", "returned s%+ld, want s%+ld", off(ri, pi), off(rr, pr));
        note(F_strchrnul, ri && *ri ? 1 : 0);
    }
    winchk(0, pi, 0);
}

// ------------------------------------------------------------------ binary
static void t_cmp(BP a, size_t al, BP b, size_t bl)
{
    setK("strcmp", a, al + 1, b, bl + 1);
    uint8_t *ai = I[0].put(a, al + 1, PL, MA), *ar = R[0].put(a, al + 1, PL, MA);
    uint8_t *bi = I[1].put(b, bl + 1, PL, MB), *br = R[1].put(b, bl + 1, PL, MB);
    int ri = 0, rr = strcmp((char *)ar, (char *)br);
    CALL(ri = igc_strcmp((char *)ai, (char *)bi));
    if (sgn(ri) != sgn(rr))
        bad("sign", "returned %d, want the sign of %d", ri, rr);
    winchk(0, ai, 0);
    winchk(1, bi, 0);
    note(F_strcmp, sgn(ri) + 1);
}
static void t_ncmp(BP a, size_t al, BP b, size_t bl, size_t n)
{
    size_t ae = PL == AFTER ? mn(n, al + 1) : al + 1, be = PL == AFTER ? mn(n, bl + 1) : bl + 1;
    setK("strncmp", a, ae, b, be);
    setN(n);
    K.cls = ncls(n, mn(al, bl));
    uint8_t *ai = I[0].put(a, ae, PL, MA), *ar = R[0].put(a, ae, PL, MA);
    uint8_t *bi = I[1].put(b, be, PL, MB), *br = R[1].put(b, be, PL, MB);
    int ri = 0, rr = strncmp((char *)ar, (char *)br, n);
    CALL(ri = igc_strncmp((char *)ai, (char *)bi, n));
    if (sgn(ri) != sgn(rr))
        bad("sign", "returned %d, want the sign of %d", ri, rr);
    winchk(0, ai, 0);
    winchk(1, bi, 0);
    note(F_strncmp, sgn(ri) + 1);
}
static void t_casecmp(BP a, size_t al, BP b, size_t bl)
{
    setK("strcasecmp", a, al + 1, b, bl + 1);
    uint8_t *ai = I[0].put(a, al + 1, PL, MA), *ar = R[0].put(a, al + 1, PL, MA);
    uint8_t *bi = I[1].put(b, bl + 1, PL, MB), *br = R[1].put(b, bl + 1, PL, MB);
    int ri = 0, rr = strcasecmp((char *)ar, (char *)br);
    CALL(ri = igc_strcasecmp((char *)ai, (char *)bi));
    if (sgn(ri) != sgn(rr))
        bad("sign", "returned %d, want the sign of %d", ri, rr);
    winchk(0, ai, 0);
    winchk(1, bi, 0);
    note(F_strcasecmp, sgn(ri) + 1);
}
static void t_ncasecmp(BP a, size_t al, BP b, size_t bl, size_t n)
{
    size_t ae = PL == AFTER ? mn(n, al + 1) : al + 1, be = PL == AFTER ? mn(n, bl + 1) : bl + 1;
    setK("strncasecmp", a, ae, b, be);
    setN(n);
    K.cls = ncls(n, mn(al, bl));
    uint8_t *ai = I[0].put(a, ae, PL, MA), *ar = R[0].put(a, ae, PL, MA);
    uint8_t *bi = I[1].put(b, be, PL, MB), *br = R[1].put(b, be, PL, MB);
    int ri = 0, rr = strncasecmp((char *)ar, (char *)br, n);
    CALL(ri = igc_strncasecmp((char *)ai, (char *)bi, n));
    if (sgn(ri) != sgn(rr))
        bad("sign", "returned %d, want the sign of %d", ri, rr);
    winchk(0, ai, 0);
    winchk(1, bi, 0);
    note(F_strncasecmp, sgn(ri) + 1);
}

// haystack/needle and string/set functions
static void t_search(BP a, size_t al, BP b, size_t bl, bool cased, bool sets)
{
    uint8_t *ai = I[0].put(a, al + 1, PL, MA), *ar = R[0].put(a, al + 1, PL, MA);
    uint8_t *bi = I[1].put(b, bl + 1, PL, MB), *br = R[1].put(b, bl + 1, PL, MB);
    const char *ncl = bl == 0 ? "empty_needle" : bl > al ? "needle_longer" : "";
    if (!cased && want("strstr"))
    {
        setK("strstr", a, al + 1, b, bl + 1);
        K.cls = ncl;
        char *ri = nullptr, *rr = strstr((char *)ar, (char *)br);
        CALL(ri = igc_strstr((char *)ai, (char *)bi));
        if (off(ri, ai) != off(rr, ar))
            bad("return", "returned %s%+ld, want %s%+ld", ri ? "hay" : "NULL", ri ? off(ri, ai) : 0, rr ? "hay" : "NULL", rr ? off(rr, ar) : 0);
        note(F_strstr, ri ? 1 : 0);
    }
    else if (cased && want("strcasestr"))
    {
        setK("strcasestr", a, al + 1, b, bl + 1);
        K.cls = ncl;
        char *ri = nullptr, *rr = strcasestr((char *)ar, (char *)br);
        CALL(ri = igc_strcasestr((char *)ai, (char *)bi));
        if (off(ri, ai) != off(rr, ar))
            bad("return", "returned %s%+ld, want %s%+ld", ri ? "hay" : "NULL", ri ? off(ri, ai) : 0, rr ? "hay" : "NULL", rr ? off(rr, ar) : 0);
        note(F_strcasestr, ri ? 1 : 0);
    }
    if (sets)
    {
        const char *scl = bl == 0 ? "empty_set" : "";
        if (want("strspn"))
        {
            setK("strspn", a, al + 1, b, bl + 1);
            K.cls = scl;
            size_t ri = 0, rr = strspn((char *)ar, (char *)br);
            CALL(ri = igc_strspn((char *)ai, (char *)bi));
            if (ri != rr)
                bad("return", "returned %zu, want %zu", ri, rr);
            note(F_strspn, (ri == al) + 2 * (ri == 0));
        }
        if (want("strcspn"))
        {
            setK("strcspn", a, al + 1, b, bl + 1);
            K.cls = scl;
            size_t ri = 0, rr = strcspn((char *)ar, (char *)br);
            CALL(ri = igc_strcspn((char *)ai, (char *)bi));
            if (ri != rr)
                bad("return", "returned %zu, want %zu", ri, rr);
            note(F_strcspn, (ri == al) + 2 * (ri == 0));
        }
        if (want("strpbrk"))
        {
            setK("strpbrk", a, al + 1, b, bl + 1);
            K.cls = scl;
            char *ri = nullptr, *rr = strpbrk((char *)ar, (char *)br);
            CALL(ri = igc_strpbrk((char *)ai, (char *)bi));
            if (off(ri, ai) != off(rr, ar))
                bad("return", "returned %s%+ld, want %s%+ld", ri ? "s" : "NULL", ri ? off(ri, ai) : 0, rr ? "s" : "NULL", rr ? off(rr, ar) : 0);
            note(F_strpbrk, ri ? 1 : 0);
        }
    }
    winchk(0, ai, 0);
    winchk(1, bi, 0);
}

// strcat(dst = d, src = s): the destination array holds exactly strlen(d)+strlen(s)+1 bytes
static void t_cat(BP s, size_t sl, BP d, size_t dl)
{
    setK("strcat", s, sl + 1, d, dl + 1);
    snprintf(K.extra, sizeof K.extra, "(a=src, b=dst string; dst array has %zu bytes)", dl + sl + 1);
    uint8_t *si = I[0].put(s, sl + 1, PL, MA), *sr = R[0].put(s, sl + 1, PL, MA);
    uint8_t *di = I[1].put(nullptr, dl + sl + 1, PL, MB), *dr = R[1].put(nullptr, dl + sl + 1, PL, MB);
    memcpy(di, d, dl + 1);
    memcpy(dr, d, dl + 1);
    char *ri = nullptr, *rr = strcat((char *)dr, (char *)sr);
    CALL(ri = igc_strcat((char *)di, (char *)si));
    if (off(ri, di) != off(rr, dr))
        bad("return", "returned dst%+ld, want dst%+ld", off(ri, di), off(rr, dr));
    winchk(1, di, dl + sl + 1);
    winchk(0, si, 0);
    note(F_strcat, (sl > 0) + 2 * (dl > 0));
}
static void t_ncat(BP s, size_t sl, BP d, size_t dl, size_t n)
{
    size_t k = mn(n, sl);
    size_t sext = PL == AFTER ? mn(n, sl + 1) : sl + 1;
    setK("strncat", s, sext, d, dl + 1);
    setN(n);
    K.cls = ncls(n, sl);
    snprintf(K.extra, sizeof K.extra, "(a=src, b=dst string; dst array has %zu bytes)", dl + k + 1);
    uint8_t *si = I[0].put(s, sext, PL, MA), *sr = R[0].put(s, sext, PL, MA);
    uint8_t *di = I[1].put(nullptr, dl + k + 1, PL, MB), *dr = R[1].put(nullptr, dl + k + 1, PL, MB);
    memcpy(di, d, dl + 1);
    memcpy(dr, d, dl + 1);
    char *ri = nullptr, *rr = strncat((char *)dr, (char *)sr, n);
    CALL(ri = igc_strncat((char *)di, (char *)si, n));
    if (off(ri, di) != off(rr, dr))
        bad("return", "returned dst%+ld, want dst%+ld", off(ri, di), off(rr, dr));
    winchk(1, di, dl + k + 1);
    winchk(0, si, 0);
    note(F_strncat, (n < sl) + 2 * (n == 0) + 4 * (n >= 4));
}

// strlwr / strupr: not ISO; the conventional definition (and the file's own doc) maps 'A'..'Z' <-> 'a'..'z'
// in place, leaves every other byte alone and returns its argument
static void t_lwrupr(BP s, size_t l)
{
    for (int up = 0; up < 2; up++)
    {
        if (!want(up ? "strupr" : "strlwr"))
            continue;
        setK(up ? "strupr" : "strlwr", s, l + 1);
        uint8_t *pi = I[0].put(s, l + 1, PL, MA), *pr = R[0].put(s, l + 1, PL, MA);
        for (size_t i = 0; i < l; i++)
        {
            if (!up && pr[i] >= 'A' && pr[i] <= 'Z')
                pr[i] += 'a' - 'A';
            else if (up && pr[i] >= 'a' && pr[i] <= 'z')
                pr[i] -= 'a' - 'A';
        }
        char *ri = nullptr;
        CALL(ri = up ? igc_strupr((char *)pi) : igc_strlwr((char *)pi));
        if ((uint8_t *)ri != pi)
            bad("return", "returned s%+ld, want s", off(ri, pi));
        winchk(0, pi, l + 1);
        note(up ? F_strupr : F_strlwr, memcmp(pi, s, l) != 0);
    }
}

// ------------------------------------------------------------------ tables and checks
static const uint8_t A5[] = {'a', 'A', 'b', 0x80, 0xFF};
static const uint8_t AC[] = {'a', 'A', 'z', 'Z', '@', '[', '`', '{', 0xC1, 0xE1, 0xFF};
static const int CV[] = {0, 'a', 'A', 'b', 0x80, 0xFF, 'c', -128, -1, 256, 256 + 'a', -256 + 'b'};
static Table TS, TC;
static const size_t NMAX = (size_t)-1;

static bool highbit(BP s, size_t l)
{
    for (size_t i = 0; i < l; i++)
        if (s[i] & 0x80)
            return true;
    return false;
}

MC_INIT
{
    TS = make_table(A5, 5, 7);
    TC = make_table(AC, 11, 5);

    // (1) one string: lengths, copies, duplicates, character searches; n below/at/above the length
    mc::add_check("str_unary", [] {
        init_arenas();
        int L = mc::thorough() ? 7 : 5;
        // a case is a run of 64 consecutive operands (every case starts in a fresh process image, see init_arenas)
        int NTOT = (int)TS.upto[L], CH = 64;
        int chunk = mc::choose((NTOT + CH - 1) / CH);
        int ifirst = chunk * CH, ilast = ifirst + CH <= NTOT ? ifirst + CH - 1 : NTOT - 1;
        mc::describe("strings #%d..#%d (%s .. %s): strlen strnlen strcpy strncpy strlcpy strdup strndup strchr strrchr strchrnul, every n in 0..len+3 and 3 huge n, 12 values of c, both guard placements", ifirst, ilast, hexs(TS.v[ifirst].b, TS.v[ifirst].len).c_str(), hexs(TS.v[ilast].b, TS.v[ilast].len).c_str());
        if (ilast >= 6)
            mc::nontrivial();
        uint64_t calls = 0;
        for (int i = ifirst; i <= ilast; i++)
        {
        const Str &s = TS.v[i];
        for (PL = AFTER; PL <= BEFORE; PL++)
        {
            t_strlen(s.b, s.len);
            t_strcpy(s.b, s.len);
            t_strdup(s.b, s.len);
            calls += 4;
            for (size_t n = 0; n <= (size_t)s.len + 3; n++)
            {
                t_strnlen(s.b, s.len, n);
                t_strncpy(s.b, s.len, n);
                t_strlcpy(s.b, s.len, n);
                t_strndup(s.b, s.len, n);
                calls += 4;
            }
            for (size_t hn : HUGE_N)
            {
                t_strnlen(s.b, s.len, hn);
                t_strndup(s.b, s.len, hn);
                calls += 2;
            }
            for (int c : CV)
            {
                t_chr(s.b, s.len, c);
                calls += 3;
            }
        }
        }
        PL = AFTER;
        mc::more_cases(calls - 1, calls - 1);
        flush_notes();
    });

    // (2) string x short string: search, span, concatenation
    mc::add_check("str_pair", [] {
        init_arenas();
        int L = mc::thorough() ? 7 : 5;
        // a case is a run of 8 consecutive operands (every case starts in a fresh process image, see init_arenas)
        int NTOT = (int)TS.upto[L], CH = 8;
        int chunk = mc::choose((NTOT + CH - 1) / CH);
        int ifirst = chunk * CH, ilast = ifirst + CH <= NTOT ? ifirst + CH - 1 : NTOT - 1;
        mc::describe("strings #%d..#%d (%s .. %s) x every string of length <=3 over the alphabet: strstr (both orders) strspn strcspn strpbrk strcat strncat(n=0..len+2 and 3 huge n), both guard placements", ifirst, ilast, hexs(TS.v[ifirst].b, TS.v[ifirst].len).c_str(), hexs(TS.v[ilast].b, TS.v[ilast].len).c_str());
        if (ilast >= 6)
            mc::nontrivial();
        uint64_t calls = 0;
        for (int i = ifirst; i <= ilast; i++)
        {
        const Str &a = TS.v[i];
        for (PL = AFTER; PL <= BEFORE; PL++)
            for (size_t j = 0; j < TS.upto[3]; j++)
            {
                const Str &b = TS.v[j];
                t_search(a.b, a.len, b.b, b.len, false, true);
                t_cat(a.b, a.len, b.b, b.len);
                calls += 5;
                if (a.len > 3)
                { // needle longer than the haystack (the other order is the main loop)
                    t_search(b.b, b.len, a.b, a.len, false, false);
                    calls++;
                }
                for (size_t n = 0; n <= (size_t)a.len + 2; n++)
                {
                    t_ncat(a.b, a.len, b.b, b.len, n);
                    calls++;
                }
                for (size_t hn : HUGE_N)
                {
                    t_ncat(a.b, a.len, b.b, b.len, hn);
                    calls++;
                }
            }
        }
        PL = AFTER;
        mc::more_cases(calls - 1, calls - 1);
        flush_notes();
    });

    // (3) ordered comparison, both operands over the whole table
    mc::add_check("str_compare", [] {
        init_arenas();
        int L = mc::thorough() ? 5 : 4;
        int i = mc::choose((int)TS.upto[L]);
        const Str &a = TS.v[i];
        mc::describe("strcmp/strncmp of %s against every string of length <=%d, n=0..max+1 and 3 huge n, both guard placements", hexs(a.b, a.len).c_str(), L);
        if (a.len >= 1)
            mc::nontrivial();
        uint64_t calls = 0;
        for (PL = AFTER; PL <= BEFORE; PL++)
            for (size_t j = 0; j < TS.upto[L]; j++)
            {
                const Str &b = TS.v[j];
                t_cmp(a.b, a.len, b.b, b.len);
                calls++;
                size_t mx = a.len > b.len ? a.len : b.len;
                for (size_t n = 0; n <= mx + 1; n++)
                {
                    t_ncmp(a.b, a.len, b.b, b.len, n);
                    calls++;
                }
                for (size_t hn : HUGE_N)
                {
                    t_ncmp(a.b, a.len, b.b, b.len, hn);
                    calls++;
                }
            }
        PL = AFTER;
        mc::more_cases(calls - 1, calls - 1);
        flush_notes();
    });

    // (4) case-insensitive functions over an alphabet made of the range boundaries of A-Z / a-z and high-bit look-alikes
    mc::add_check("str_case", [] {
        init_arenas();
        int Lp = mc::thorough() ? 3 : 2;  // pairs
        int Lh = mc::thorough() ? 4 : 3;  // haystack
        int Ln = mc::thorough() ? 3 : 2;  // needle
        int Lu = mc::thorough() ? 5 : 4;  // strlwr/strupr
        // a case is a run of 64 consecutive operands (every case starts in a fresh process image, see init_arenas)
        int NTOT = (int)TC.upto[Lu], CH = 64;
        int chunk = mc::choose((NTOT + CH - 1) / CH);
        int ifirst = chunk * CH, ilast = ifirst + CH <= NTOT ? ifirst + CH - 1 : NTOT - 1;
        mc::describe("strings #%d..#%d (%s .. %s): strlwr strupr; strcasecmp/strncasecmp against every string of the pair bound; strcasestr with every needle of the needle bound; alphabet a A z Z @ [ ` { c1 e1 ff", ifirst, ilast, hexs(TC.v[ifirst].b, TC.v[ifirst].len).c_str(), hexs(TC.v[ilast].b, TC.v[ilast].len).c_str());
        if (ilast >= 6)
            mc::nontrivial();
        uint64_t calls = 0;
        for (int i = ifirst; i <= ilast; i++)
        {
        const Str &a = TC.v[i];
        for (PL = AFTER; PL <= BEFORE; PL++)
        {
            t_lwrupr(a.b, a.len);
            calls += 2;
            if (a.len <= Lp)
                for (size_t j = 0; j < TC.upto[Lp]; j++)
                {
                    const Str &b = TC.v[j];
                    t_casecmp(a.b, a.len, b.b, b.len);
                    calls++;
                    size_t mx = a.len > b.len ? a.len : b.len;
                    for (size_t n = 0; n <= mx + 1; n++)
                    {
                        t_ncasecmp(a.b, a.len, b.b, b.len, n);
                        calls++;
                    }
                    for (size_t hn : HUGE_N)
                    {
                        t_ncasecmp(a.b, a.len, b.b, b.len, hn);
                        calls++;
                    }
                }
            if (a.len <= Lh)
                for (size_t j = 0; j < TC.upto[Ln]; j++)
                {
                    const Str &b = TC.v[j];
                    t_search(a.b, a.len, b.b, b.len, true, false);
                    calls++;
                }
        }
        }
        PL = AFTER;
        mc::more_cases(calls - 1, calls - 1);
        flush_notes();
    });

    // (5) longer strings at every distance 0..7 from the guard (= every alignment) for both operands
    auto body_str_long_aligned = [] {
        init_arenas();
        int c0 = mc::choose(41 * 8);
        int len = c0 / 8;
        MA = c0 % 8;
        uint8_t s[64], t[64];
        for (int k = 0; k < len; k++)
            s[k] = (k % 5 == 3) ? 0x80 + (k * 11) % 0x7f : 'a' + (k * 7) % 26;
        s[len] = 0;
        mc::describe("pattern string of length %d, operand a %d bytes from the guard, operand b at every distance 0..7: all one- and two-string functions, n around the length",
                     len, MA);
        if (len >= 8)
            mc::nontrivial();
        uint64_t calls = 0;
        for (PL = AFTER; PL <= BEFORE; PL++)
        {
            t_strlen(s, len);
            t_strdup(s, len);
            calls += 2;
            for (int d = -2; d <= 3; d++)
            {
                if (len + d < 0)
                    continue;
                t_strnlen(s, len, len + d);
                t_strndup(s, len, len + d);
                calls += 2;
            }
            if (len)
            {
                t_chr(s, len, s[len - 1]);
                t_chr(s, len, s[0]);
            }
            t_chr(s, len, 0);
            t_chr(s, len, '#');
            calls += 12;
            for (MB = 0; MB < 8; MB++)
            {
                t_strcpy(s, len);
                calls++;
                for (int d = -2; d <= 5; d++)
                {
                    if (len + d < 0)
                        continue;
                    t_strncpy(s, len, len + d);
                    t_strlcpy(s, len, len + d);
                    calls += 2;
                }
                // comparisons: equal, last byte differs (both directions, high bit), one shorter
                memcpy(t, s, len + 1);
                t_cmp(s, len, t, len);
                t_ncmp(s, len, t, len, len);
                t_ncmp(s, len, t, len, len + 1);
                calls += 3;
                if (len)
                {
                    t[len - 1] = s[len - 1] ^ 0x80;
                    t_cmp(s, len, t, len);
                    t_cmp(t, len, s, len);
                    t_ncmp(s, len, t, len, len - 1);
                    t_ncmp(s, len, t, len, len);
                    t_casecmp(s, len, t, len);
                    t_ncasecmp(t, len, s, len, len);
                    t[len - 1] = 0;
                    t_cmp(s, len, t, len - 1);
                    t_cmp(t, len - 1, s, len);
                    calls += 8;
                    // needle = the last two bytes / a needle that matches everything but its last byte
                    int nl = len >= 2 ? 2 : 1;
                    t_search(s, len, s + len - nl, nl, false, true);
                    t_search(s, len, s + len - nl, nl, true, false);
                    memcpy(t, s, len + 1);
                    t[len - 1] ^= 1;
                    t_search(s, len, t, len, false, false);
                    calls += 6;
                }
                // concatenation: every n (the unrolled n>=4 path runs n/4 rounds)
                static const uint8_t pre[] = {'x', 'y', 0x9f, 0};
                t_cat(s, len, pre, 3);
                calls++;
                if (len <= 24)
                    for (int n = 0; n <= len + 2; n++)
                    {
                        t_ncat(s, len, pre, 3, n);
                        calls++;
                    }
                else
                    for (int d = -5; d <= 2; d++)
                    {
                        t_ncat(s, len, pre, 3, len + d);
                        calls++;
                    }
            }
            MB = 0;
        }
        PL = AFTER;
        MA = MB = 0;
        mc::more_cases(calls - 1, calls - 1);
        flush_notes();
    };
    mc::add_check("str_long_aligned", body_str_long_aligned);
    // the same with the const operands of every call mapped read-only during the call
    mc::add_check("str_long_aligned.readonly", [body_str_long_aligned] {
        RO_ON = true;
        body_str_long_aligned();
        RO_ON = false;
    });
    // (6) LARGE operands: lengths around 128, 256, 1000 (thorough: around 32768, 65536, 70000) - a length, index or
    //     counter narrowed to 8 or 16 bits is invisible below 256 / 65536. Two NUL-free patterns (period-251 counting
    //     bytes, so bytes 256 apart differ; all 'a'), a target byte / difference at positions 0,1,254..257,len-1,
    //     n arguments 0,1,254..257,len-1,len,len+1,SIZE_MAX.
    auto body_str_large = [] {
        init_arenas();
        std::vector<size_t> LS = large_lengths();
        int c0 = mc::choose((int)LS.size() * 2 * 6);
        size_t L = LS[c0 / 12];
        int pat = (c0 / 6) % 2, grp = c0 % 6;
        static const char *GN[6] = {"strlen strnlen strcpy strncpy strlcpy strdup strndup", "strchr strrchr strchrnul", "strcmp strncmp strcasecmp strncasecmp",
                                    "strstr strcasestr strspn strcspn strpbrk", "strcat strncat", "strlwr strupr"};
        mc::describe("length %zu, pattern %s: %s; target byte / difference at 0,1,254..257,len-1; n in 0,1,254..257,len-1,len,len+1,SIZE_MAX; both guard placements",
                     L, pat ? "all 'a'" : "bytes 1..251 repeating", GN[grp]);
        mc::nontrivial();
        set_window(L + 300);
        std::vector<uint8_t> s(L + 2), b(L + 2);
        for (size_t i = 0; i < L; i++)
            s[i] = pat ? 'a' : (uint8_t)(i % 251 + 1);
        s[L] = 0;
        std::vector<size_t> P = large_positions(L), NS = large_ns(L);
        unsigned long c_before = ncalls;
        for (PL = AFTER; PL <= BEFORE; PL++)
        {
            if (grp == 0)
            {
                t_strlen(s.data(), L);
                t_strcpy(s.data(), L);
                t_strdup(s.data(), L);
                for (size_t n : NS)
                {
                    t_strnlen(s.data(), L, n);
                    t_strncpy(s.data(), L, n);
                    t_strlcpy(s.data(), L, n);
                    t_strndup(s.data(), L, n);
                }
                for (size_t hn : HUGE_N)
                {
                    t_strnlen(s.data(), L, hn);
                    t_strndup(s.data(), L, hn);
                }
            }
            else if (grp == 1)
            {
                t_chr(s.data(), L, 0);
                t_chr(s.data(), L, 0xFE);
                t_chr(s.data(), L, s[L - 1]);
                for (size_t p : P)
                {
                    b = s;
                    b[p] = 0xFE;
                    t_chr(b.data(), L, 0xFE);
                    t_chr(b.data(), L, 0xFE - 256);
                    b[L - 1] = 0xFE; // first and last occurrence differ
                    t_chr(b.data(), L, 0xFE);
                    b[0] = 0xFE;
                    t_chr(b.data(), L, 0xFE);
                }
            }
            else if (grp == 2)
            {
                t_cmp(s.data(), L, s.data(), L);
                t_casecmp(s.data(), L, s.data(), L);
                for (size_t n : NS)
                    t_ncmp(s.data(), L, s.data(), L, n);
                for (size_t p : P)
                {
                    b = s;
                    b[p] = 0xFD; // larger than every pattern byte
                    t_cmp(s.data(), L, b.data(), L);
                    t_cmp(b.data(), L, s.data(), L);
                    {
                        std::vector<uint8_t> pre(s.begin(), s.begin() + p); // a proper prefix
                        pre.push_back(0);
                        t_cmp(pre.data(), p, s.data(), L);
                        t_cmp(s.data(), L, pre.data(), p);
                    }
                    for (size_t n : {p, p + 1, (size_t)255, (size_t)256, (size_t)257, L, HUGE_N[0], HUGE_N[1], HUGE_N[2]})
                    {
                        t_ncmp(s.data(), L, b.data(), L, n);
                        t_ncmp(b.data(), L, s.data(), L, n);
                    }
                    // case-insensitive: other letter case everywhere, one real difference at p
                    for (size_t i = 0; i < L; i++)
                        b[i] = (s[i] >= 'a' && s[i] <= 'z') ? s[i] - 32 : (s[i] >= 'A' && s[i] <= 'Z') ? s[i] + 32 : s[i];
                    t_casecmp(s.data(), L, b.data(), L);
                    t_ncasecmp(s.data(), L, b.data(), L, L);
                    b[p] = 0xFD;
                    t_casecmp(s.data(), L, b.data(), L);
                    t_casecmp(b.data(), L, s.data(), L);
                    for (size_t n : {p, p + 1, (size_t)256, HUGE_N[0], HUGE_N[1], HUGE_N[2]})
                        t_ncasecmp(s.data(), L, b.data(), L, n);
                }
            }
            else if (grp == 3)
            {
                for (size_t p : P)
                {
                    size_t nl = p + 3 <= L ? 3 : L - p;
                    {
                        std::vector<uint8_t> n3(s.begin() + p, s.begin() + p + nl);
                        n3.push_back(0);
                        t_search(s.data(), L, n3.data(), nl, false, false);
                        t_search(s.data(), L, n3.data(), nl, true, false);
                    }
                    // a needle that occurs only at p
                    b = s;
                    b[p] = 0xFE;
                    size_t st = p >= 2 ? p - 2 : 0, nl2 = st + 5 <= L ? 5 : L - st;
                    std::vector<uint8_t> nd(b.begin() + st, b.begin() + st + nl2);
                    nd.push_back(0);
                    t_search(b.data(), L, nd.data(), nl2, false, false);
                    t_search(b.data(), L, nd.data(), nl2, true, false);
                    // spans: every byte but the one at p is in the set 1..251; the set {fe}
                    uint8_t set[256];
                    for (int k = 0; k < 251; k++)
                        set[k] = k + 1;
                    set[251] = 0;
                    t_search(b.data(), L, set, 251, false, true);
                    static const uint8_t fe[2] = {0xFE, 0};
                    t_search(b.data(), L, fe, 1, false, true);
                }
                // long needles: a 257-byte prefix, the same with its last byte wrong, the whole string (<= 1000)
                size_t nl = L >= 257 ? 257 : L;
                std::vector<uint8_t> nd(s.begin(), s.begin() + nl);
                nd.push_back(0);
                t_search(s.data(), L, nd.data(), nl, false, false);
                t_search(s.data(), L, nd.data(), nl, true, false);
                nd[nl - 1] = 0xFD;
                t_search(s.data(), L, nd.data(), nl, false, false);
                t_search(s.data(), L, nd.data(), nl, true, false);
                if (L <= 1000)
                {
                    t_search(s.data(), L, s.data(), L, false, false);
                    b = s;
                    b[L - 1] = 0xFD;
                    t_search(s.data(), L, b.data(), L, false, false);
                    t_search(b.data(), L, s.data(), L, true, false);
                }
            }
            else if (grp == 4)
            {
                for (size_t dl : {(size_t)3, (size_t)255, (size_t)256})
                {
                    std::vector<uint8_t> d(dl + 1, 'x');
                    d[dl] = 0;
                    t_cat(s.data(), L, d.data(), dl);
                    t_cat(d.data(), dl, s.data(), L);
                    for (size_t n : NS)
                        t_ncat(s.data(), L, d.data(), dl, n);
                    for (size_t hn : HUGE_N)
                        t_ncat(s.data(), L, d.data(), dl, hn);
                    t_ncat(d.data(), dl, s.data(), L, 255);
                    t_ncat(d.data(), dl, s.data(), L, 257);
                }
            }
            else
            {
                for (size_t i = 0; i < L; i++)
                    b[i] = pat ? ((i % 3) ? 'a' + i % 26 : 'A' + i % 26) : (s[i] == 0 ? 1 : s[i]);
                b[L] = 0;
                t_lwrupr(b.data(), L);
            }
        }
        PL = AFTER;
        restore_window();
        unsigned long calls = ncalls - c_before;
        if (calls)
            mc::more_cases(calls - 1, calls - 1);
        flush_notes();
    };
    mc::add_check("str_large", body_str_large);
    // the same with the const operands of every call mapped read-only during the call
    mc::add_check("str_large.readonly", [body_str_large] {
        RO_ON = true;
        body_str_large();
        RO_ON = false;
    });

    // (7) HISTORY: every stateless str* function called 65600 times in ONE process (fresh at the start of the case), each
    //     result compared with glibc's. See c08_common.hpp (hist_event) for the schedule.
    mc::add_check("str_history", [] {
        init_arenas();
        static const char *FNS[23] = {"strlen", "strnlen", "strcpy", "strncpy", "strlcpy", "strdup", "strndup", "strchr", "strrchr", "strchrnul", "strcmp", "strncmp",
                                      "strcasecmp", "strncasecmp", "strstr", "strcasestr", "strspn", "strcspn", "strpbrk", "strcat", "strncat", "strlwr", "strupr"};
        int c0 = mc::choose(23 * 2);
        int fi = c0 / 2;
        PL = c0 % 2;
        ONLY = FNS[fi];
        mc::describe("%s called %d times in one process: arguments rotate with period 7; a byte used in one call only comes back 254,255,256,257,510,511,512,65534..65537 calls later; operands %s a guard page",
                     ONLY, HIST_STEPS, PL == AFTER ? "end at" : "start after");
        mc::nontrivial();
        static const char *CA[7] = {"abcd", "", "bcda", "a", "dcba", "abab", "cdcdab"};
        static const char *CB[7] = {"c", "da", "", "ab", "b", "dc", "abcd"};
        unsigned long c_before = ncalls;
        for (int k = 0; k < HIST_STEPS && nbad == 0; k++)
        {
            HistEv ev = hist_event(k);
            uint8_t a[16], b[16];
            size_t al, bl, n;
            int c;
            if (ev.kind == 0)
            {
                al = strlen(CA[ev.q]);
                bl = strlen(CB[ev.q]);
                memcpy(a, CA[ev.q], al + 1);
                memcpy(b, CB[ev.q], bl + 1);
                n = k % 5;
                c = "abcde\0x"[k % 7];
            }
            else
            {
                uint8_t r = (uint8_t)(0x81 + ev.q); // the rare byte of this gap
                al = 5;
                a[0] = 'a', a[1] = 'b', a[2] = r, a[3] = 'c', a[4] = 'd', a[5] = 0;
                if (ev.kind == 1)
                {
                    bl = 1;
                    b[0] = r, b[1] = 0;
                    c = r;
                    n = 3;
                }
                else
                {
                    bl = 1;
                    b[0] = 'd', b[1] = 0;
                    c = 'd';
                    n = 5;
                }
            }
            switch (fi)
            {
            case 0: t_strlen(a, al); break;
            case 1: t_strnlen(a, al, n); break;
            case 2: t_strcpy(a, al); break;
            case 3: t_strncpy(a, al, n); break;
            case 4: t_strlcpy(a, al, n); break;
            case 5: t_strdup(a, al); break;
            case 6: t_strndup(a, al, n); break;
            case 7:
            case 8:
            case 9: t_chr(a, al, c); break;
            case 10: t_cmp(a, al, b, bl); break;
            case 11: t_ncmp(a, al, b, bl, n); break;
            case 12: t_casecmp(a, al, b, bl); break;
            case 13: t_ncasecmp(a, al, b, bl, n); break;
            case 14: t_search(a, al, b, bl, false, false); break;
            case 15: t_search(a, al, b, bl, true, false); break;
            case 16:
            case 17:
            case 18: t_search(a, al, b, bl, false, true); break;
            case 19: t_cat(a, al, b, bl); break;
            case 20: t_ncat(a, al, b, bl, n); break;
            default: t_lwrupr(a, al); break;
            }
        }
        ONLY = nullptr;
        PL = AFTER;
        unsigned long calls = ncalls - c_before;
        if (calls)
            mc::more_cases(calls - 1, calls - 1);
        flush_notes();
    });

    // (8) CALLERS: a caller TU compiled at -O2 against the BUNDLED headers (with and without -fno-builtin) calls each
    //     read-only routine, changes one operand byte in place and calls it again: both results must be the routine's
    //     results for the operand as it was at each call (a declaration attribute in the bundled header that lets the
    //     optimiser merge the two calls is a defect of the library although every routine is right on its own)
    mc::add_check("callers_recompute_after_modification", [] {
        init_arenas();
        struct Row
        {
            const char *fn;
            const char *a, *b;
            size_t n;
            int c;
            int patch_at, patch_val; // in a
        };
        static const Row ROWS[17] = {
            {"strlen", "ab,cd,ab", "", 0, 0, 3, 0},          {"strnlen", "ab,cd,ab", "", 6, 0, 3, 0},        {"strcmp", "ab,cd,ab", "ab,cd,ab", 0, 0, 3, 'x'},
            {"strncmp", "ab,cd,ab", "ab,cd,ab", 5, 0, 3, 'x'}, {"strcasecmp", "ab,cd,ab", "AB,CD,AB", 0, 0, 3, 'x'}, {"strncasecmp", "ab,cd,ab", "AB,CD,AB", 5, 0, 3, 'x'},
            {"strchr", "ab,cd,ab", "", 0, 'd', 3, 0},         {"strrchr", "ab,cd,ab", "", 0, 'b', 3, 0},      {"strchrnul", "ab,cd,ab", "", 0, 'd', 3, 0},
            {"strstr", "ab,cd,ab", "cd", 0, 0, 3, 0},         {"strcasestr", "ab,cd,ab", "CD", 0, 0, 3, 0},   {"strspn", "ab,cd,ab", "ab,c", 0, 0, 3, 0},
            {"strcspn", "ab,cd,ab", "d", 0, 0, 3, 0},         {"strpbrk", "ab,cd,ab", "xd", 0, 0, 3, 0},      {"memcmp", "ab,cd,ab", "ab,cd,ab", 8, 0, 4, 'x'},
            {"memchr", "ab,cd,ab", "", 8, 'd', 4, 'x'},       {"memrchr", "ab,cd,ab", "", 8, 'b', 7, 'x'}};
        int c0 = mc::choose(17 * 2 * 2);
        const Row &r = ROWS[c0 / 4];
        int nb = (c0 / 2) % 2;
        PL = c0 % 2;
        mc::describe("caller (-O2%s, bundled headers): %s(\"%s\"...) ; a[%d] = 0x%02x ; the same call again", nb ? " -fno-builtin" : "", r.fn, r.a, r.patch_at, r.patch_val);
        mc::nontrivial();
        size_t al = strlen(r.a), bl = strlen(r.b);
        setK(r.fn, (const uint8_t *)r.a, al + 1, (const uint8_t *)r.b, bl + 1);
        K.cls = "caller_calls_twice_around_a_store";
        K.ro = 0;
        char *ai = (char *)I[0].put(r.a, al + 1, PL), *ar = (char *)R[0].put(r.a, al + 1, PL);
        char *bi = (char *)I[1].put(r.b, bl + 1, PL), *br = (char *)R[1].put(r.b, bl + 1, PL);
        long want[2], got[2] = {-99, -99};
        for (int k = 0; k < 2; k++)
        {
            char *a = ar, *b = br;
            size_t n = r.n;
            int c = r.c;
            int f = c0 / 4;
            auto offp = [&](const void *p) { return p ? (long)((const char *)p - a) : -1L; };
            switch (f)
            {
            case 0: want[k] = (long)strlen(a); break;
            case 1: want[k] = (long)strnlen(a, n); break;
            case 2: want[k] = sgn(strcmp(a, b)); break;
            case 3: want[k] = sgn(strncmp(a, b, n)); break;
            case 4: want[k] = sgn(strcasecmp(a, b)); break;
            case 5: want[k] = sgn(strncasecmp(a, b, n)); break;
            case 6: want[k] = offp(strchr(a, c)); break;
            case 7: want[k] = offp(strrchr(a, c)); break;
            case 8: want[k] = offp(strchrnul(a, c)); break;
            case 9: want[k] = offp(strstr(a, b)); break;
            case 10: want[k] = offp(strcasestr(a, b)); break;
            case 11: want[k] = (long)strspn(a, b); break;
            case 12: want[k] = (long)strcspn(a, b); break;
            case 13: want[k] = offp(strpbrk(a, b)); break;
            case 14: want[k] = sgn(memcmp(a, b, n)); break;
            case 15: want[k] = offp(memchr(a, c, n)); break;
            default: want[k] = offp(memrchr(a, c, n)); break;
            }
            ar[r.patch_at] = (char)r.patch_val;
        }
        if (want[0] == want[1])
            mc::harness_error("caller row %s: the modification does not change the result", r.fn);
        CALL(caller_entry(c0 / 4, nb)(ai, bi, r.n, r.c, ai + r.patch_at, r.patch_val, got));
        bool cmpfn = (c0 / 4 >= 2 && c0 / 4 <= 5) || c0 / 4 == 14;
        for (int k = 0; k < 2; k++)
            if ((cmpfn ? sgn((int)got[k]) : got[k]) != want[k])
                bad("result", "call %d returned %ld, the routine's result for the operand at that moment is %ld (first call %ld, second call %ld)", k + 1, got[k], want[k], want[0], want[1]);
        if (c0 / 4 == 0)
        {
            // strlen in a loop condition while the loop shortens the string
            I[0].put(r.a, al + 1, PL);
            long steps = -1;
            setK("strlen", (const uint8_t *)r.a, al + 1);
            K.cls = "caller_loop_condition";
            K.ro = 0;
            CALL(steps = caller_loop(nb)(ai));
            if (steps != (long)al)
                bad("result", "while (strlen(a) > 0) a[strlen(a)-1] = 0 ran %ld times, want %zu", steps, al);
        }
        mc::outcome(mc::fmt("%s %ld->%ld", r.fn, want[0], want[1]));
        PL = AFTER;
        mc::more_cases(1, 1);
        flush_notes();
    });

    // (9) ADJACENT PAIRS: every ordered pair (x,y) of boundary bytes next to each other at EVERY position 0..15 of a 24-byte
    //     string (= every position modulo 8, inside a group and across the group boundary), for every byte-wise str* routine
    mc::add_check("str_byte_pairs_every_position", [] {
        init_arenas();
        int c0 = mc::choose(19 * 19);
        uint8_t x = PAIR_BYTES[c0 / 19], y = PAIR_BYTES[c0 % 19];
        mc::describe("bytes %02x %02x adjacent at positions 0..15 of a 24-byte string of '5's: strlwr strupr strcasecmp strncasecmp strcasestr strcmp strncmp strchr strrchr strchrnul strstr strspn strcspn strpbrk strlen strcpy strncpy strcat, both guard placements",
                     x, y);
        mc::nontrivial();
        auto flip = [](uint8_t c) -> uint8_t { return (c >= 'A' && c <= 'Z') || (c >= 'a' && c <= 'z') ? c ^ 0x20 : c; };
        unsigned long c_before = ncalls;
        for (PL = AFTER; PL <= BEFORE; PL++)
            for (int p = 0; p < 16; p++)
            {
                uint8_t s[32], f[32], w[32], nd[4], set[4];
                memset(s, '5', 24);
                s[24] = 0;
                s[p] = x;
                s[p + 1] = y;
                for (int i = 0; i <= 24; i++)
                    f[i] = flip(s[i]); // equal ignoring case
                memcpy(w, s, 25);
                w[p] = y;
                w[p + 1] = x; // the pair the other way round
                t_lwrupr(s, 24);
                t_casecmp(s, 24, f, 24);
                t_casecmp(f, 24, s, 24);
                t_casecmp(s, 24, w, 24);
                t_ncasecmp(s, 24, f, 24, p + 2);
                t_ncasecmp(s, 24, w, 24, p + 2);
                t_ncasecmp(s, 24, w, 24, p + 1);
                t_cmp(s, 24, w, 24);
                t_cmp(w, 24, s, 24);
                t_ncmp(s, 24, w, 24, p + 1);
                t_ncmp(s, 24, w, 24, p + 2);
                nd[0] = flip(x), nd[1] = flip(y), nd[2] = 0;
                t_search(s, 24, nd, 2, true, false);
                nd[0] = x, nd[1] = y;
                t_search(s, 24, nd, 2, false, false);
                nd[0] = y, nd[1] = x;
                t_search(s, 24, nd, 2, false, false);
                t_search(s, 24, nd, 2, true, false);
                set[0] = '5', set[1] = x, set[2] = 0;
                t_search(s, 24, set, 2, false, true); // strspn stops at y, strcspn/strpbrk at 0
                set[0] = y, set[1] = 0;
                t_search(s, 24, set, 1, false, true);
                t_chr(s, 24, y);
                t_chr(s, 24, x);
                t_chr(s, 24, (int)(signed char)y);
                t_strlen(s, 24);
                t_strcpy(s, 24);
                t_strncpy(s, 24, p + 2);
                t_strnlen(s, 24, p + 1);
                {
                    uint8_t pre[4] = {y, x, '5', 0}; // destination string the source is appended to
                    t_cat(s, 24, pre, 3);
                }
            }
        PL = AFTER;
        unsigned long calls = ncalls - c_before;
        mc::more_cases(calls - 1, calls - 1);
        flush_notes();
    });

    // (10) ALIASED read-only operands: the second operand lies INSIDE the first one's buffer (s and s+k), which the
    //      definitions of the comparing / searching routines allow
    mc::add_check("str_aliased_operands", [] {
        init_arenas();
        int L = mc::thorough() ? 6 : 5;
        int NTOT = (int)TS.upto[L], CH = 16;
        int chunk = mc::choose((NTOT + CH - 1) / CH);
        int ifirst = chunk * CH, ilast = ifirst + CH <= NTOT ? ifirst + CH - 1 : NTOT - 1;
        mc::describe("strings #%d..#%d: f(s, s+k) for every k in 0..len: strcmp strncmp strcasecmp strncasecmp strstr strcasestr strspn strcspn strpbrk memcmp, both guard placements", ifirst, ilast);
        mc::nontrivial();
        unsigned long c_before = ncalls;
        RO_ON = true; // the shared buffer is read-only during every call
        for (int i = ifirst; i <= ilast; i++)
            for (PL = AFTER; PL <= BEFORE; PL++)
                for (size_t k = 0; k <= TS.v[i].len; k++)
                {
                    const Str &s = TS.v[i];
                    size_t l = s.len;
                    char *ai = (char *)I[0].put(s.b, l + 1, PL), *ar = (char *)R[0].put(s.b, l + 1, PL);
                    char *bi = ai + k, *br = ar + k;
                    long gi = 0, gr = 0;
#define ALIAS(fn, IMPL, REF, NORM)                                                                                  \
    {                                                                                                               \
        setK(fn, s.b, l + 1, s.b + k, l - k + 1);                                                                   \
        K.cls = "second_operand_inside_first";                                                                      \
        K.ro = 1;                                                                                                   \
        gr = NORM(REF);                                                                                             \
        bool ok = guarded_ro([&] { gi = NORM(IMPL); });                                                             \
        ncalls++;                                                                                                   \
        if (!ok)                                                                                                    \
            fault();                                                                                                \
        else if (gi != gr)                                                                                          \
            bad("return", "returned %ld, want %ld (b = a+%zu)", gi, gr, k);                                         \
    }
#define SG(e) (long)sgn(e)
#define OFA(e) off((e), ai)
#define OFR(e) off((e), ar)
#define ID(e) (long)(e)
                    ALIAS("strcmp", igc_strcmp(ai, bi), strcmp(ar, br), SG)
                    ALIAS("strncmp", igc_strncmp(ai, bi, l), strncmp(ar, br, l), SG)
                    ALIAS("strcasecmp", igc_strcasecmp(ai, bi), strcasecmp(ar, br), SG)
                    ALIAS("strncasecmp", igc_strncasecmp(ai, bi, l), strncasecmp(ar, br, l), SG)
                    ALIAS("strspn", igc_strspn(ai, bi), strspn(ar, br), ID)
                    ALIAS("strcspn", igc_strcspn(ai, bi), strcspn(ar, br), ID)
                    ALIAS("memcmp", igc_memcmp(ai, bi, l - k), memcmp(ar, br, l - k), SG)
                    {
                        setK("strstr", s.b, l + 1, s.b + k, l - k + 1);
                        K.cls = "second_operand_inside_first";
                        K.ro = 1;
                        char *ri = nullptr, *rr = strstr(ar, br);
                        CALL(ri = igc_strstr(ai, bi));
                        if (off(ri, ai) != off(rr, ar))
                            bad("return", "returned a%+ld, want a%+ld (needle = a+%zu)", off(ri, ai), off(rr, ar), k);
                        setK("strcasestr", s.b, l + 1, s.b + k, l - k + 1);
                        K.cls = "second_operand_inside_first";
                        K.ro = 1;
                        rr = strcasestr(ar, br);
                        CALL(ri = igc_strcasestr(ai, bi));
                        if (off(ri, ai) != off(rr, ar))
                            bad("return", "returned a%+ld, want a%+ld (needle = a+%zu)", off(ri, ai), off(rr, ar), k);
                        setK("strpbrk", s.b, l + 1, s.b + k, l - k + 1);
                        K.cls = "second_operand_inside_first";
                        K.ro = 1;
                        rr = strpbrk(ar, br);
                        CALL(ri = igc_strpbrk(ai, bi));
                        if (off(ri, ai) != off(rr, ar))
                            bad("return", "returned a%+ld, want a%+ld (set = a+%zu)", off(ri, ai), off(rr, ar), k);
                    }
                    winchk(0, (uint8_t *)ai, 0);
                }
        RO_ON = false;
        PL = AFTER;
        unsigned long calls = ncalls - c_before;
        mc::outcome(mc::fmt("aliased %lu", calls % 7));
        mc::more_cases(calls - 1, calls - 1);
        flush_notes();
    });
}
