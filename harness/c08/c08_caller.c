/* C08 — a CALLER of the bundled libc, compiled with optimisation against the BUNDLED headers
 * (compat/libc/include/string.h, strings.h): every read-only routine is called, one byte of an operand is
 * changed in place, and the routine is called again with the same arguments. The declarations in the
 * bundled headers are part of the library: an attribute there (const instead of pure, a wrong nonnull /
 * alloc_size / returns_nonnull ...) changes what an optimised caller computes although every routine is
 * right when called on its own. PFX names the entry points (two builds: with and without -fno-builtin). */
#include <string.h>
#include <strings.h>

#define CAT2(a, b) a##b
#define CAT(a, b) CAT2(a, b)
#define OFF(p) ((p) ? (long)((const char *)(p) - (const char *)a) : -1L)
#define DEF(name, expr)                                                                          \
    void CAT(PFX, name)(char *a, char *b, size_t n, int c, char *patch, int val, long *out)      \
    {                                                                                            \
        out[0] = (long)(expr);                                                                   \
        *patch = (char)val;                                                                      \
        out[1] = (long)(expr);                                                                   \
    }

DEF(strlen, strlen(a))
DEF(strnlen, strnlen(a, n))
DEF(strcmp, strcmp(a, b))
DEF(strncmp, strncmp(a, b, n))
DEF(strcasecmp, strcasecmp(a, b))
DEF(strncasecmp, strncasecmp(a, b, n))
DEF(strchr, OFF(strchr(a, c)))
DEF(strrchr, OFF(strrchr(a, c)))
DEF(strchrnul, OFF(strchrnul(a, c)))
DEF(strstr, OFF(strstr(a, b)))
DEF(strcasestr, OFF(strcasestr(a, b)))
DEF(strspn, strspn(a, b))
DEF(strcspn, strcspn(a, b))
DEF(strpbrk, OFF(strpbrk(a, b)))
DEF(memcmp, memcmp(a, b, n))
DEF(memchr, OFF(memchr(a, c, n)))
DEF(memrchr, OFF(memrchr(a, c, n)))

/* the classic shape: a length in a loop condition while the loop shortens the string */
long CAT(PFX, loop_strlen)(char *a)
{
    long steps = 0;
    while (strlen(a) > 0) {
        a[strlen(a) - 1] = '\0';
        ++steps;
    }
    return steps;
}
