// gs_ref.hpp — boring reference model of the gstuff framing, written from the comments in gstuff.h / gstuff.cpp
// ("START, escaped data, escaped CRC-8 (poly x^8+x^5+x^4+1, MSB first, init 0xFF), STOP") and from nothing else.
// It shares no code with igris: bit-serial CRC, a table-free escape map driven by gs::Markers.
#pragma once
#include "gs_iface.hpp"
#include <string>
#include <vector>

namespace gsref
{
    typedef std::vector<uint8_t> Bytes;

    // The two wire alphabets, pinned.  Values copied from the documented constants of the unchanged tree
    // (gstuff.h: GSTUFF_*_V1 = A8 B2 C5 / 8A 2B 5C, GSTUFF_*_V0 = AC AD / AE AF; gstuff_v1/gstuff.h: AC AD / AE AF).
    // All reference traffic, reference decoding and monitoring use THESE, never what the library's context objects
    // happen to contain; the alphabet_constants sub-checks compare the library's objects against them.
    inline gs::Markers golden(int codec)
    {
        if (codec == gs::CFG_V1)
            return gs::Markers{0xA8, 0xB2, 0xC5, 0x8A, 0x2B, 0x5C};
        return gs::Markers{0xAC, 0xAC, 0xAD, 0xAE, 0xAE, 0xAF}; // CFG_V0 and LEGACY: START == STOP
    }
    // compare what the library exposes (gstuff_context{}, gstuff_context_v0(), the legacy macros) with the pinned values;
    // returns "" or a description of the first difference
    inline std::string alphabet_difference(int codec)
    {
        gs::Markers L = gs::markers(codec), G = golden(codec);
        const char *nm[6] = {"START", "STOP", "STUB", "STUB_START", "STUB_STOP", "STUB_STUB"};
        uint8_t l[6] = {L.start, L.stop, L.stub, L.c_start, L.c_stop, L.c_stub}, g[6] = {G.start, G.stop, G.stub, G.c_start, G.c_stop, G.c_stub};
        static const char *x = "0123456789ABCDEF";
        for (int i = 0; i < 6; i++)
            if (l[i] != g[i])
                return std::string(nm[i]) + " is " + x[l[i] >> 4] + x[l[i] & 15] + ", the protocol constant is " + x[g[i] >> 4] + x[g[i] & 15];
        return "";
    }

    inline uint8_t crc8_bit(uint8_t reg, int bit)
    {
        int top = (reg >> 7) & 1;
        reg = (uint8_t)(reg << 1);
        if (top ^ bit)
            reg ^= 0x31;
        return reg;
    }
    inline uint8_t crc8_byte(uint8_t reg, uint8_t c)
    {
        for (int i = 7; i >= 0; i--)
            reg = crc8_bit(reg, (c >> i) & 1);
        return reg;
    }
    inline uint8_t crc8(const uint8_t *p, size_t n)
    {
        uint8_t r = 0xFF;
        for (size_t i = 0; i < n; i++)
            r = crc8_byte(r, p[i]);
        return r;
    }
    inline uint8_t crc8(const Bytes &b) { return crc8(b.data(), b.size()); }

    inline bool is_marker(const gs::Markers &m, uint8_t c) { return c == m.start || c == m.stop || c == m.stub; }

    // escape one decoded byte
    inline void put_escaped(const gs::Markers &m, uint8_t c, Bytes &out)
    {
        if (c == m.start)
        {
            out.push_back(m.stub);
            out.push_back(m.c_start);
        }
        else if (c == m.stop)
        {
            out.push_back(m.stub);
            out.push_back(m.c_stop);
        }
        else if (c == m.stub)
        {
            out.push_back(m.stub);
            out.push_back(m.c_stub);
        }
        else
            out.push_back(c);
    }
    // reference encoder (used to build valid traffic for C05 and, in C04, reported as information only)
    inline Bytes encode(const gs::Markers &m, const Bytes &payload)
    {
        Bytes f;
        f.push_back(m.start);
        for (uint8_t c : payload)
            put_escaped(m, c, f);
        put_escaped(m, crc8(payload), f);
        f.push_back(m.stop);
        return f;
    }

    // un-escape code -> byte, -1 if `code` is not a valid escape code
    inline int unescape(const gs::Markers &m, uint8_t code)
    {
        if (code == m.c_start)
            return m.start;
        if (code == m.c_stop)
            return m.stop;
        if (code == m.c_stub)
            return m.stub;
        return -1;
    }

    struct Decoded
    {
        bool ok = false;
        std::string why; // first structural defect found (a short token usable in a signature)
        Bytes payload;
    };
    // reference decoder of ONE complete frame, checking the structure clauses of the statement on the way:
    //   first byte START, last byte STOP, no START/STOP byte in between, every STUB followed by a valid code,
    //   interior un-escapes to d||c with crc8(d) == c.
    inline Decoded decode_frame(const gs::Markers &m, const Bytes &f)
    {
        Decoded r;
        if (f.size() < 2)
        {
            r.why = "too_short";
            return r;
        }
        if (f.front() != m.start)
        {
            r.why = "no_start_marker_first";
            return r;
        }
        if (f.back() != m.stop)
        {
            r.why = "no_stop_marker_last";
            return r;
        }
        Bytes d;
        for (size_t i = 1; i + 1 < f.size(); i++)
        {
            uint8_t c = f[i];
            if (c == m.start || c == m.stop)
            {
                r.why = "unescaped_marker_inside";
                return r;
            }
            if (c == m.stub)
            {
                if (i + 2 >= f.size())
                {
                    r.why = "dangling_escape";
                    return r;
                }
                int u = unescape(m, f[++i]);
                if (u < 0)
                {
                    r.why = "unescaped_marker_inside"; // a STUB that does not introduce a valid pair is a bare marker
                    return r;
                }
                d.push_back((uint8_t)u);
            }
            else
                d.push_back(c);
        }
        if (d.empty())
        {
            r.why = "no_crc_trailer";
            return r;
        }
        uint8_t c = d.back();
        d.pop_back();
        if (crc8(d) != c)
        {
            r.why = "crc_trailer_wrong";
            return r;
        }
        r.ok = true;
        r.payload = d;
        return r;
    }

    inline std::string hex(const Bytes &b)
    {
        static const char *x = "0123456789abcdef";
        std::string s;
        for (uint8_t c : b)
        {
            s += x[c >> 4];
            s += x[c & 15];
        }
        return s.empty() ? "(empty)" : s;
    }
}
