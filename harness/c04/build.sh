#!/bin/bash
set -e
. $MC/par.sh
H=$VERIF/harness/c04
CF="-O1 -g -fsanitize=address -fno-omit-frame-pointer -I$REPO -I$MC -I$H"
par clang++ -std=c++17 -c $CF $H/c04_roundtrip.cpp -o $BUILD/h.o
# C04 observes the receiver through its public API only (init, newchar, size(), cstr()): no private member is named
par clang++ -std=c++17 -c $CF -DGS_PUBLIC_ONLY $H/gs_bind_cfg.cpp -o $BUILD/bind_cfg.o
par clang++ -std=c++17 -c $CF $H/gs_bind_legacy.cpp -o $BUILD/bind_legacy.o
par clang++ -std=c++17 -c $CF $REPO/igris/protocols/gstuff.cpp -o $BUILD/gstuff.o
par clang -c $CF $REPO/igris/protocols/gstuff_v1/gstuff.c -o $BUILD/gstuff_v1.o
par clang -c $CF $REPO/igris/protocols/gstuff_v1/autorecv.c -o $BUILD/autorecv_v1.o
par clang++ -std=c++17 -O2 -c -I$MC $MC/mc.cpp -o $BUILD/mc.o
parwait
clang++ -fsanitize=address $BUILD/h.o $BUILD/bind_cfg.o $BUILD/bind_legacy.o $BUILD/gstuff.o $BUILD/gstuff_v1.o \
    $BUILD/autorecv_v1.o $BUILD/mc.o -o $BUILD/c04
echo "roundtrip $BUILD/c04" > $BUILD/runs.txt
