#!/bin/bash
set -e
. $MC/par.sh
H=$VERIF/harness/c04
CF="-O1 -g -fsanitize=address -fno-omit-frame-pointer -I$REPO -I$MC -I$H"
par clang++ -std=c++20 -c $CF $H/c04_roundtrip.cpp -o $BUILD/h.o
# C04 observes the receiver through its public API only (init, newchar, size(), cstr()): no private member is named
par clang++ -std=c++20 -c $CF -DGS_PUBLIC_ONLY $H/gs_bind_cfg.cpp -o $BUILD/bind_cfg.o
par clang++ -std=c++20 -c $CF $H/gs_bind_legacy.cpp -o $BUILD/bind_legacy.o
par clang++ -std=c++20 -c $CF $REPO/igris/protocols/gstuff.cpp -o $BUILD/gstuff.o
par clang -c $CF $REPO/igris/protocols/gstuff_v1/gstuff.c -o $BUILD/gstuff_v1.o
par clang -c $CF $REPO/igris/protocols/gstuff_v1/autorecv.c -o $BUILD/autorecv_v1.o
par clang++ -std=c++20 -O2 -c -I$MC $MC/mc.cpp -o $BUILD/mc.o
# release-mode variant: the other compiler at -O2 with -DNDEBUG (an assert that carries a side effect vanishes), ASan;
# re-runs a cheap selection of the round-trip sub-checks
N=$BUILD/ndebug; mkdir -p $N
NF="-O2 -g -DNDEBUG -fsanitize=address -fno-omit-frame-pointer -I$REPO -I$MC -I$H"
par g++ -std=c++20 -c $NF $H/c04_roundtrip.cpp -o $N/h.o
par g++ -std=c++20 -c $NF -DGS_PUBLIC_ONLY $H/gs_bind_cfg.cpp -o $N/bind_cfg.o
par g++ -std=c++20 -c $NF $H/gs_bind_legacy.cpp -o $N/bind_legacy.o
par g++ -std=c++20 -c $NF $REPO/igris/protocols/gstuff.cpp -o $N/gstuff.o
par gcc -c $NF $REPO/igris/protocols/gstuff_v1/gstuff.c -o $N/gstuff_v1.o
par gcc -c $NF $REPO/igris/protocols/gstuff_v1/autorecv.c -o $N/autorecv_v1.o
# re-entrancy run: the same bindings and library sources under ThreadSanitizer, two threads on the controlled scheduler
# (sched.cpp and mc.cpp stay uninstrumented: TSan then sees only what the code under test does)
T=$BUILD/tsan; mkdir -p $T
TF="-O1 -g -fsanitize=thread -fno-omit-frame-pointer -I$REPO -I$MC -I$H"
par g++ -std=c++20 -c $TF $H/c04_reentrancy.cpp -o $T/h.o
par g++ -std=c++20 -c $TF -DGS_PUBLIC_ONLY $H/gs_bind_cfg.cpp -o $T/bind_cfg.o
par g++ -std=c++20 -c $TF $H/gs_bind_legacy.cpp -o $T/bind_legacy.o
par g++ -std=c++20 -c $TF $REPO/igris/protocols/gstuff.cpp -o $T/gstuff.o
par gcc -c $TF $REPO/igris/protocols/gstuff_v1/gstuff.c -o $T/gstuff_v1.o
par gcc -c $TF $REPO/igris/protocols/gstuff_v1/autorecv.c -o $T/autorecv_v1.o
par g++ -std=c++20 -O2 -g -I$MC -c $MC/sched/sched.cpp -o $BUILD/sched.o
par g++ -std=c++20 -O2 -I$MC -c $MC/mc.cpp -o $BUILD/mc_gcc.o
parwait
g++ -fsanitize=thread $T/h.o $T/bind_cfg.o $T/bind_legacy.o $T/gstuff.o $T/gstuff_v1.o $T/autorecv_v1.o $BUILD/sched.o $BUILD/mc_gcc.o \
    -ldl -lpthread -o $BUILD/c04_tsan
g++ -fsanitize=address $N/h.o $N/bind_cfg.o $N/bind_legacy.o $N/gstuff.o $N/gstuff_v1.o $N/autorecv_v1.o $BUILD/mc_gcc.o -o $BUILD/c04_ndebug
clang++ -fsanitize=address $BUILD/h.o $BUILD/bind_cfg.o $BUILD/bind_legacy.o $BUILD/gstuff.o $BUILD/gstuff_v1.o \
    $BUILD/autorecv_v1.o $BUILD/mc.o -o $BUILD/c04
# cheap runs first: the driver gives each run an equal share of the remaining deadline
echo "reentrancy $BUILD/c04_tsan" > $BUILD/runs.txt
echo "roundtrip_ndebug_gcc_O2 $BUILD/c04_ndebug --only all_bytes_len1_len2,alignment_x_length,large_payloads,cut_then_frames,two_receivers,readonly_inputs,alphabet_constants,long_history" >> $BUILD/runs.txt
echo "roundtrip $BUILD/c04" >> $BUILD/runs.txt
