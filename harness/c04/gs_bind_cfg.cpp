// Binding of the configurable codec (igris/protocols/gstuff.{h,cpp}).
//
// Everything except implkey() uses the public API only (init, newchar and its status codes, size(), cstr()).
// implkey() - the receiver's contribution to C05's BFS state key - comes in three grades, chosen by build.sh:
//   default            reads the private automaton fields line/crc/state (needs -fno-access-control and those NAMES);
//   -DGS_PUBLIC_ONLY   no private name is mentioned.  The key is every public observer (size(), the cstr() bytes) plus
//                      a behavioural fingerprint of the hidden part: the answers of COPIES of the receiver to a fixed
//                      set of short probe sequences (see probe_key()).  Used when the default does not compile
//                      (members renamed/restructured) and by C04, which never needs the key at all;
//   -DGS_PUBLIC_ONLY and the receiver is not copy-constructible, or -DGS_NO_PROBE:
//                      no sound fingerprint -> key_mode() == 2 and the BFS keys on the symbol history (no merging on
//                      hidden state, depth-bounded).
#include "gs_iface.hpp"
#include <cstdlib>
#include <cstring>
#include <igris/protocols/gstuff.h>
#include <new>
#include <type_traits>

namespace gs
{
    static gstuff_context ctx_of(int codec) { return codec == CFG_V0 ? gstuff_context_v0() : gstuff_context(); }

    Markers cfg_markers(int codec)
    {
        gstuff_context c = ctx_of(codec);
        return Markers{(uint8_t)c.GSTUFF_START, (uint8_t)c.GSTUFF_STOP, (uint8_t)c.GSTUFF_STUB,
                       (uint8_t)c.GSTUFF_STUB_START, (uint8_t)c.GSTUFF_STUB_STOP, (uint8_t)c.GSTUFF_STUB_STUB};
    }

    static gstuff_context ctx_from(const Markers &m)
    {
        gstuff_context c;
        c.GSTUFF_START = (char)m.start;
        c.GSTUFF_STOP = (char)m.stop;
        c.GSTUFF_STUB = (char)m.stub;
        c.GSTUFF_STUB_START = (char)m.c_start;
        c.GSTUFF_STUB_STOP = (char)m.c_stop;
        c.GSTUFF_STUB_STUB = (char)m.c_stub;
        return c;
    }

    // The receiver object is constructed in storage pre-filled with 0x5A: a member that neither the constructor nor the
    // set-up call initialises does not happen to be zero.
    static gstuff_autorecv &construct_in_dirty_storage(void *store, const gstuff_context &ctx)
    {
        memset(store, 0x5A, sizeof(gstuff_autorecv));
        return *new (store) gstuff_autorecv(ctx);
    }
    struct CfgReceiver : Receiver
    {
        alignas(gstuff_autorecv) unsigned char store_[sizeof(gstuff_autorecv)];
        gstuff_autorecv &r;
        uint8_t *buf_;
        int cap_;
        Markers M_;
        CfgReceiver(int codec, uint8_t *buf, int cap)
            : r(construct_in_dirty_storage(store_, ctx_of(codec))), buf_(buf), cap_(cap), M_(cfg_markers(codec))
        {
            r.init(buf, cap);
        }
        CfgReceiver(const Markers &m, uint8_t *buf, int cap) : r(construct_in_dirty_storage(store_, ctx_from(m))), buf_(buf), cap_(cap), M_(m)
        {
            r.init(buf, cap);
        }
        ~CfgReceiver() { r.~gstuff_autorecv(); }
        static Status norm(int st)
        {
            switch (st)
            {
            case GSTUFF_CONTINUE:
                return CONTINUE;
            case GSTUFF_NEWPACKAGE:
                return NEWPACKAGE;
            case GSTUFF_FORCE_RESTART:
                return RESTART;
            case GSTUFF_GARBAGE:
                return GARBAGE;
            case GSTUFF_CRC_ERROR:
                return CRC_ERROR;
            case GSTUFF_OVERFLOW:
                return OVERFLOW_;
            case GSTUFF_STUFFING_ERROR:
                return STUFF_ERROR;
            default:
                return OTHER;
            }
        }
        Status feed(uint8_t c) override { return norm(r.newchar((char)c)); }
        void reinit(int variant) override
        {
            if (variant == 1)
                r.setbuf(buf_, cap_);
            else
                r.init(buf_, cap_);
        }
        std::vector<uint8_t> packet() override
        {
            size_t n = r.size();
            const char *p = r.cstr();
            return std::vector<uint8_t>((const uint8_t *)p, (const uint8_t *)p + n);
        }
        size_t stored() override { return r.size(); }
        std::vector<uint8_t> stored_bytes() override { return packet(); }
#ifndef GS_PUBLIC_ONLY
        std::string implkey() override
        {
            char h[64];
            snprintf(h, sizeof h, "s%u c%02x l%u k%u:", (unsigned)r.state, (unsigned)r.crc, r.line.len, r.line.cursor);
            std::string s = h;
            for (unsigned i = 0; i < r.line.len && i < r.line.cap; i++)
            {
                snprintf(h, sizeof h, "%02x", (unsigned)(uint8_t)r.line.buf[i]);
                s += h;
            }
            return s;
        }
#else
        std::string public_part()
        {
            std::vector<uint8_t> b = packet();
            char h[32];
            snprintf(h, sizeof h, "P l%zu:", b.size());
            std::string s = h;
            for (uint8_t c : b)
            {
                snprintf(h, sizeof h, "%02x", c);
                s += h;
            }
            return s;
        }
        // Behavioural fingerprint of the hidden state.  What the receiver hides behind size()/cstr() is: which phase it is
        // in (idle / in frame / escape pending) and the running CRC.  Probes, each fed to a fresh COPY (the shared
        // receive buffer is saved and restored around them):
        //   [a] [START] [STOP] [STUB]                      -> phase (GARBAGE / CONTINUE / OVERFLOW / STUFF_ERROR / RESTART ...)
        //   [code, STOP] for the three escape codes          -> the CRC bit that matters when one slot is left and an
        //                                                       escape is pending
        //   [esc(x), STOP] and [code(START), esc(x), STOP]   -> the byte x in 0..255 that closes the CRC now / after a
        //                                                       pending escape has been completed: the CRC value itself
        // Two states with equal public observers and equal answers to all of these react alike to every continuation
        // of the receiver as specified (phase and CRC are all it keeps besides the stored bytes).
        template <class R> std::string probe_key(const R &orig)
        {
            std::vector<uint8_t> save(buf_, buf_ + cap_);
            std::string s = "|probe";
            auto run = [&](const uint8_t *seq, int n) {
                R c(orig);
                Status st = CONTINUE;
                for (int i = 0; i < n; i++)
                    st = norm(c.newchar((char)seq[i]));
                memcpy(buf_, save.data(), (size_t)cap_);
                return st;
            };
            auto esc = [&](uint8_t x, uint8_t *o) {
                if (x == M_.start)
                    return o[0] = M_.stub, o[1] = M_.c_start, 2;
                if (x == M_.stop)
                    return o[0] = M_.stub, o[1] = M_.c_stop, 2;
                if (x == M_.stub)
                    return o[0] = M_.stub, o[1] = M_.c_stub, 2;
                return o[0] = x, 1;
            };
            uint8_t one[4][1] = {{'a'}, {M_.start}, {M_.stop}, {M_.stub}};
            for (auto &q : one)
                s += (char)('0' + run(q, 1));
            uint8_t codes[3] = {M_.c_start, M_.c_stop, M_.c_stub};
            for (uint8_t c : codes)
            {
                uint8_t q[2] = {c, M_.stop};
                s += (char)('0' + run(q, 2));
            }
            for (int variant = 0; variant < 2; variant++)
            {
                int found = -1;
                for (int x = 0; x < 256 && found < 0; x++)
                {
                    uint8_t q[4];
                    int n = 0;
                    if (variant)
                        q[n++] = M_.c_start;
                    n += esc((uint8_t)x, q + n);
                    q[n++] = M_.stop;
                    if (run(q, n) == NEWPACKAGE)
                        found = x;
                }
                char h[16];
                snprintf(h, sizeof h, ",%d", found);
                s += h;
            }
            return s;
        }
        std::string implkey() override
        {
#ifndef GS_NO_PROBE
            if constexpr (std::is_copy_constructible<gstuff_autorecv>::value)
                return public_part() + probe_key(r);
            else
#endif
                return public_part();
        }
#endif
    };
    int cfg_key_mode()
    {
#ifndef GS_PUBLIC_ONLY
        return 0;
#elif defined(GS_NO_PROBE)
        return 2;
#else
        return std::is_copy_constructible<gstuff_autorecv>::value ? 1 : 2;
#endif
    }
    Receiver *make_cfg_receiver(int codec, uint8_t *buf, int cap) { return new CfgReceiver(codec, buf, cap); }
    Receiver *make_receiver_markers(const Markers &m, uint8_t *buf, int cap) { return new CfgReceiver(m, buf, cap); }

    // ---- one context object, many alphabets ----
    static std::vector<uint8_t> encode_through(const gstuff_context &ctx, int entry, const uint8_t *data, size_t n, size_t split)
    {
        // exactly sized heap blocks for input pieces and raw output (ASan)
        uint8_t *a = (uint8_t *)malloc(split), *b = (uint8_t *)malloc(n - split), *w = (uint8_t *)malloc(n);
        if (split)
            memcpy(a, data, split);
        if (n - split)
            memcpy(b, data + split, n - split);
        if (n)
            memcpy(w, data, n);
        struct iovec v[2] = {{a, split}, {b, n - split}};
        std::vector<uint8_t> f;
        if (entry == RAW || entry == RAW_V)
        {
            uint8_t *out = (uint8_t *)malloc(2 * n + 4);
            int ret = entry == RAW ? gstuffing((const char *)w, n, (char *)out, ctx) : gstuffing_v(v, 2, (char *)out, ctx);
            if (ret > 0 && (size_t)ret <= 2 * n + 4)
                f.assign(out, out + ret);
            free(out);
        }
        else if (entry == VEC)
            f = gstuffing(igris::buffer((const void *)w, n), ctx);
        else
            f = gstuffing_v(v, 2, ctx);
        free(a), free(b), free(w);
        return f;
    }
    static gstuff_context g_shared_ctx;          // THE object that is reassigned
    static gstuff_context g_flush_ctx = ctx_from(Markers{0xF1, 0xF2, 0xF3, 0xE1, 0xE2, 0xE3});
    void ctx_flush()
    {
        char in = 0x55, out[8];
        gstuffing(&in, 1, out, g_flush_ctx);
    }
    __attribute__((noinline)) static std::vector<uint8_t> by_value_helper(gstuff_context ctx, int entry, const uint8_t *data, size_t n,
                                                                           size_t split)
    {
        return encode_through(ctx, entry, data, n, split);
    }
    std::vector<uint8_t> encode_ctx(const Markers &m, int how, int entry, const uint8_t *data, size_t n, size_t split)
    {
        if (how == SAME_OBJECT_REASSIGNED)
        {
            g_shared_ctx = ctx_from(m);
            return encode_through(g_shared_ctx, entry, data, n, split);
        }
        return by_value_helper(ctx_from(m), entry, data, n, split);
    }

    int cfg_encode_raw(int codec, const uint8_t *data, size_t n, uint8_t *out)
    {
        return gstuffing((const char *)data, n, (char *)out, ctx_of(codec));
    }
    int cfg_encode_raw_v(int codec, struct iovec *vec, size_t cnt, uint8_t *out)
    {
        return gstuffing_v(vec, cnt, (char *)out, ctx_of(codec));
    }
    std::vector<uint8_t> cfg_encode_vec(int codec, const uint8_t *data, size_t n)
    {
        return gstuffing(igris::buffer((const void *)data, n), ctx_of(codec));
    }
    std::vector<uint8_t> cfg_encode_vec_v(int codec, struct iovec *vec, size_t cnt)
    {
        return gstuffing_v(vec, cnt, ctx_of(codec));
    }
}
