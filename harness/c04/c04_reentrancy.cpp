// C04 re-entrancy — the encoders are functions of their arguments: two encoder calls running in two threads, each on
// its own payload and its own output, share nothing.
//
// Shape T on /verif/mc/sched: two real threads, exactly one running at a time, every interleaving of their
// scheduling points (start, between the two calls each thread makes, end) up to preemption bound 2.  The encoders
// contain no synchronisation, so the scheduler never adds a happens-before edge between the two threads' calls: in
// the ThreadSanitizer build ANY memory the two calls both touch with at least one write (a static work area, a cache,
// a lazily built table) is reported as a data race deterministically, in every schedule - no luck with timing needed.
// Besides, each thread's frames are put through the reference decoder: a frame garbled by the other thread is a
// violation of its own.
// A case = (entry point + alphabet of thread A) x (entry point + alphabet of thread B) x payload-size pair x schedule.
#include "gs_iface.hpp"
#include "gs_ref.hpp"
#include "mc.hpp"
#include "sched/sched.hpp"
#include <atomic>
#include <cstdlib>
#include <cstring>

using gsref::Bytes;

struct Call
{
    int codec, entry;
};
// the nine (codec, entry) combinations the library ships
static const Call CALLS[] = {{gs::CFG_V1, gs::RAW}, {gs::CFG_V1, gs::RAW_V}, {gs::CFG_V1, gs::VEC}, {gs::CFG_V1, gs::VEC_V}, {gs::CFG_V0, gs::RAW},
                             {gs::CFG_V0, gs::RAW_V}, {gs::CFG_V0, gs::VEC}, {gs::CFG_V0, gs::VEC_V}, {gs::LEGACY, gs::RAW}};
static const int NCALLS = sizeof CALLS / sizeof CALLS[0];

static Bytes make_payload(int codec, size_t n, int salt)
{
    gs::Markers M = gsref::golden(codec);
    Bytes p;
    for (size_t i = 0; i < n; i++)
        p.push_back(i % 4 == 0 ? M.start : i % 4 == 1 ? (uint8_t)(i * 11 + salt) : i % 4 == 2 ? M.stub : (uint8_t)('a' + salt));
    return p;
}

static Bytes encode(const Call &c, const Bytes &p)
{
    size_t n = p.size();
    uint8_t *in = (uint8_t *)malloc(n);
    if (n)
        memcpy(in, p.data(), n);
    struct iovec v[2] = {{in, n / 2}, {in + n / 2, n - n / 2}};
    Bytes f;
    if (c.entry == gs::RAW || c.entry == gs::RAW_V)
    {
        uint8_t *out = (uint8_t *)malloc(2 * n + 4);
        int ret = c.entry == gs::RAW ? gs::encode_raw(c.codec, in, n, out) : gs::encode_raw_v(c.codec, v, 2, out);
        if (ret > 0 && (size_t)ret <= 2 * n + 4)
            f.assign(out, out + ret);
        free(out);
    }
    else if (c.entry == gs::VEC)
        f = gs::encode_vec(c.codec, in, n);
    else
        f = gs::encode_vec_v(c.codec, v, 2);
    free(in);
    return f;
}

struct Side
{
    Call call;
    Bytes p[2], f[2];
    std::atomic<int> done{0};
    void body()
    {
        f[0] = encode(call, p[0]);
        sched::yield(); // the other thread may run a whole call between ours
        f[1] = encode(call, p[1]);
        done.store(1, std::memory_order_release);
    }
};

MC_INIT
{
    mc::add_check("reentrancy.two_threads", [] {
        int first = mc::choose(NCALLS * NCALLS);
        int sizes = mc::choose(4);
        static const size_t SZ[4][2] = {{2, 40}, {40, 2}, {9, 9}, {0, 300}}; // a short call next to one that needs a larger buffer
        Side *A = new Side, *B = new Side; // deliberately leaked if the execution does not finish (parked threads reference them)
        A->call = CALLS[first / NCALLS];
        B->call = CALLS[first % NCALLS];
        for (int k = 0; k < 2; k++)
        {
            A->p[k] = make_payload(A->call.codec, SZ[sizes][k], 1 + k);
            B->p[k] = make_payload(B->call.codec, SZ[sizes][1 - k], 5 + k);
        }
        std::string who = mc::fmt("thread A: %s/%s, thread B: %s/%s, payload sizes %zu,%zu | %zu,%zu", gs::codec_name(A->call.codec),
                                  gs::entry_name(A->call.entry), gs::codec_name(B->call.codec), gs::entry_name(B->call.entry), SZ[sizes][0],
                                  SZ[sizes][1], SZ[sizes][1], SZ[sizes][0]);
        // the signature of a sanitizer report names the pair of entry points, not the payloads or the schedule
        mc::crash_context("C04.reentrancy.%s+%s.shared_state", gs::entry_name(A->call.entry), gs::entry_name(B->call.entry));
        mc::describe("%s (the execution died before it completed)", who.c_str());
        sched::Options o;
        o.preemption_bound = 2;
        sched::begin(o);
        sched::spawn([A] { A->body(); }, "A");
        sched::spawn([B] { B->body(); }, "B");
        sched::Result r = sched::run();
        mc::describe("%s; preemptions=%d steps=%d: %s", who.c_str(), r.preemptions, r.steps, r.trace.c_str());
        mc::nontrivial();
        if (r.deadlock || r.horizon_hit || !A->done.load(std::memory_order_acquire) || !B->done.load(std::memory_order_acquire))
        {
            mc::violation("C04.reentrancy.did_not_finish", "%s: %s", who.c_str(), r.trace.c_str());
            return;
        }
        mc::crash_context("C04.harness");
        Side *S[2] = {A, B};
        for (int t = 0; t < 2; t++)
            for (int k = 0; k < 2; k++)
            {
                gsref::Decoded d = gsref::decode_frame(gsref::golden(S[t]->call.codec), S[t]->f[k]);
                if (!d.ok || d.payload != S[t]->p[k])
                    mc::violation(mc::fmt("C04.reentrancy.%s+%s.frame_garbled", gs::entry_name(A->call.entry), gs::entry_name(B->call.entry)),
                                  "%s: thread %c call %d payload=%s frame=%s (%s)", who.c_str(), 'A' + t, k, gsref::hex(S[t]->p[k]).c_str(),
                                  gsref::hex(S[t]->f[k]).c_str(), d.ok ? "decodes to another payload" : d.why.c_str());
            }
        mc::outcome(mc::fmt("preemptions=%d", r.preemptions));
        delete A;
        delete B;
    });
}
MC_MAIN
