// C04 — gstuff framing is lossless: decode(encode(p)) == p for every payload, every iovec partition,
// every framing variant (configurable codec with both marker alphabets, legacy C codec), every encoder entry point.
//
// Shape I (choice tree): one case = one (codec, payload, entry-point group); inside a case every iovec composition
// (with and without empty pieces) is encoded.  Oracles, each a transcription of one clause of the statement:
//   frame      first byte START, last byte STOP, no unescaped marker in between, length <= 2n+4
//   refdecode  an independent reference decoder (gs_ref.hpp) recovers exactly the payload
//   receiver   fed byte by byte to the REAL matching receiver (capacity n+2 and n+9, twice in a row into the same
//              receiver): no NEWPACKAGE before the last byte, NEWPACKAGE on the last, delivered bytes == payload
//   memory     raw-buffer encoders write into an exactly 2n+4-byte heap block, inputs and iovec pieces are exactly
//              sized heap copies, self-sizing encoders own their vector: AddressSanitizer reports any byte outside
// This TU includes no igris header (see gs_iface.hpp).
#include "gs_iface.hpp"
#include "gs_ref.hpp"
#include "mc.hpp"
#include <cstdlib>
#include <cstring>
#include <memory>

using gsref::Bytes;

// exactly-sized heap copy (size 0 -> a 0-byte block: touching it at all is an ASan report)
struct Exact
{
    uint8_t *p, *blk;
    size_t n;
    // `align` 0..7: the copy starts `align` bytes behind a 16-byte boundary (ASan's malloc alignment) and still ENDS at the
    // end of the block, so reading past either the word boundary in front of it or its last byte is visible
    Exact(const uint8_t *src, size_t n_, int align = 0) : n(n_)
    {
        blk = (uint8_t *)malloc(n + (size_t)align);
        p = blk + align;
        if (align)
            memset(blk, 0xD7, (size_t)align);
        if (n)
            memcpy(p, src, n);
    }
    explicit Exact(size_t n_) : n(n_)
    {
        p = blk = (uint8_t *)malloc(n);
        if (n)
            memset(p, 0xEE, n);
    }
    ~Exact() { free(blk); }
    Exact(const Exact &) = delete;
    Exact &operator=(const Exact &) = delete;
};

// a copy in READ-ONLY memory, flush against an inaccessible page: one page PROT_READ holding the bytes at its end, the next
// page PROT_NONE.  An encoder that patches its input even temporarily (sentinel, restored afterwards) faults here.
#include <sys/mman.h>
struct ReadOnly
{
    uint8_t *map, *p;
    size_t n, maplen;
    ReadOnly(const uint8_t *src, size_t n_) : n(n_)
    {
        size_t pg = 4096, body = ((n + pg - 1) / pg + (n == 0)) * pg;
        maplen = body + pg;
        map = (uint8_t *)mmap(nullptr, maplen, PROT_READ | PROT_WRITE, MAP_PRIVATE | MAP_ANONYMOUS, -1, 0);
        if (map == MAP_FAILED)
            mc::harness_error("mmap failed");
        memset(map, 0xD7, body);
        p = map + body - n;
        if (n)
            memcpy(p, src, n);
        mprotect(map, body, PROT_READ);
        mprotect(map + body, pg, PROT_NONE);
    }
    ~ReadOnly() { munmap(map, maplen); }
    ReadOnly(const ReadOnly &) = delete;
    ReadOnly &operator=(const ReadOnly &) = delete;
};
// an input block of either kind
struct Input
{
    Exact *e = nullptr;
    ReadOnly *r = nullptr;
    uint8_t *p;
    Input(const uint8_t *src, size_t n, int align, bool readonly)
    {
        if (readonly)
            r = new ReadOnly(src, n), p = r->p;
        else
            e = new Exact(src, n, align), p = e->p;
    }
    ~Input()
    {
        delete e;
        delete r;
    }
    Input(const Input &) = delete;
    Input &operator=(const Input &) = delete;
};

static const char *input_class(const gs::Markers &M, const Bytes &p)
{
    size_t mk = 0;
    for (uint8_t c : p)
        mk += gsref::is_marker(M, c);
    bool crcm = gsref::is_marker(M, gsref::crc8(p));
    if (crcm)
        return "crc_is_marker";
    if (p.empty())
        return "empty";
    if (mk == p.size())
        return "all_markers";
    if (mk)
        return "some_markers";
    return "plain";
}

struct Ctx
{
    int codec;
    gs::Markers M;
    const Bytes *payload;
    const char *cls;
    std::vector<Bytes> frames_ok; // frames that already went through every oracle for this payload
    uint64_t encodes = 0, oracle_runs = 0;
    Bytes scratch;
    int align = 0; // misalignment (0..7) of every input block handed to the encoders
    bool readonly = false; // inputs (payload, pieces, iovec array) live in read-only memory
};

static std::string sig(const Ctx &c, int entry, const char *kind)
{
    return mc::fmt("C04.%s.%s.%s.%s", gs::codec_name(c.codec), gs::entry_name(entry), kind, c.cls);
}

// oracle (3): the real receiver
// one call of an entry point works on one partition of the payload
struct Piece
{
    size_t off, len;
};
struct Part // lazily rendered description of the partition (only needed when something fails)
{
    bool whole;
    const std::vector<Piece> *ps;
    bool null_empty;
};
static std::string text(const Part &pt)
{
    if (pt.whole)
        return "whole";
    std::string s = "pieces=[";
    for (size_t i = 0; i < pt.ps->size(); i++)
        s += mc::fmt("%s%zu", i ? "," : "", (*pt.ps)[i].len);
    s += pt.null_empty ? "] (empty pieces have a null base)" : "]";
    return s;
}
static void check_receiver(Ctx &c, int entry, const Bytes &f, const Part &part)
{
    const Bytes &p = *c.payload;
    size_t n = p.size();
    for (int extra = 0; extra < 2; extra++)
    {
        int cap = (int)n + 2 + (extra ? 7 : 0); // payload + crc byte + terminator written by cstr()
        Exact buf((size_t)cap);
        mc::crash_context("C04.%s.receiver.memory", gs::codec_name(c.codec));
        std::unique_ptr<gs::Receiver> r(gs::make_receiver(c.codec, buf.p, cap));
        if (extra)
            r->reinit(1); // the second receiver is set up through setbuf() (configurable) / setbuf_v1 again (legacy)
        for (int rep = 0; rep < 2; rep++)
        {
            for (size_t i = 0; i < f.size(); i++)
            {
                gs::Status st = r->feed(f[i]);
                bool last = i + 1 == f.size();
                if (!last && st == gs::NEWPACKAGE)
                {
                    mc::violation(sig(c, entry, "receiver.packet_before_last_byte"),
                                  "payload=%s %s frame=%s cap=%d pass=%d: NEWPACKAGE at byte %zu of %zu",
                                  gsref::hex(p).c_str(), text(part).c_str(), gsref::hex(f).c_str(), cap, rep, i, f.size());
                    return;
                }
                if (last)
                {
                    if (st != gs::NEWPACKAGE)
                    {
                        mc::violation(sig(c, entry, "receiver.no_packet_on_last_byte"),
                                      "payload=%s %s frame=%s cap=%d pass=%d: last byte answered %s", gsref::hex(p).c_str(),
                                      text(part).c_str(), gsref::hex(f).c_str(), cap, rep, gs::status_name(st));
                        return;
                    }
                    Bytes got = r->packet();
                    if (got != p)
                    {
                        mc::violation(sig(c, entry, "receiver.content"), "payload=%s %s frame=%s cap=%d pass=%d: delivered %s",
                                      gsref::hex(p).c_str(), text(part).c_str(), gsref::hex(f).c_str(), cap, rep,
                                      gsref::hex(got).c_str());
                        return;
                    }
                }
            }
        }
    }
    mc::crash_context("C04.harness");
}

// all oracles on one produced frame
static void check_frame(Ctx &c, int entry, const Bytes &f, const Part &part)
{
    for (const Bytes &k : c.frames_ok)
        if (k == f)
            return; // same bytes already judged for this payload: every oracle is a function of (frame, payload)
    c.oracle_runs++;
    const Bytes &p = *c.payload;
    size_t n = p.size();
    bool bad = false;
    // (2) structure
    if (f.size() > 2 * n + 4)
    {
        mc::violation(sig(c, entry, "frame.longer_than_2n+4"), "payload=%s %s frame=%s (%zu bytes, bound %zu)",
                      gsref::hex(p).c_str(), text(part).c_str(), gsref::hex(f).c_str(), f.size(), 2 * n + 4);
        bad = true;
    }
    gsref::Decoded d = gsref::decode_frame(c.M, f);
    if (!d.ok)
    {
        mc::violation(sig(c, entry, ("frame." + d.why).c_str()), "payload=%s %s frame=%s", gsref::hex(p).c_str(), text(part).c_str(),
                      gsref::hex(f).c_str());
        bad = true;
    }
    // (1) independent decoder
    else if (d.payload != p)
    {
        mc::violation(sig(c, entry, "refdecode.payload_differs"), "payload=%s %s frame=%s reference decoder got %s",
                      gsref::hex(p).c_str(), text(part).c_str(), gsref::hex(f).c_str(), gsref::hex(d.payload).c_str());
        bad = true;
    }
    // (3) the real receiver (also when the structure is wrong: the clause stands on its own)
    check_receiver(c, entry, f, part);
    if (f != gsref::encode(c.M, p))
        mc::count("frames_differing_from_reference_encoder(info)");
    mc::outcome(mc::fmt("%s expansion=%d", gs::codec_name(c.codec), (int)f.size() - (int)n));
    if (!bad && !mc::case_has_violation())
        c.frames_ok.push_back(f);
}

static void run_entry(Ctx &c, int entry, const std::vector<Piece> &ps, bool null_empty)
{
    const Bytes &p = *c.payload;
    size_t n = p.size();
    Part part{entry == gs::RAW || entry == gs::VEC, &ps, null_empty};
    c.encodes++;
    Bytes &f = c.scratch;
    f.clear();
    if (entry == gs::RAW || entry == gs::VEC)
    {
        Input in(p.data(), n, c.align, c.readonly);
        if (entry == gs::RAW)
        {
            Exact out(2 * n + 4);
            mc::crash_context("C04.%s.%s.memory.%s", gs::codec_name(c.codec), gs::entry_name(entry), c.cls);
            int ret = gs::encode_raw(c.codec, in.p, n, out.p);
            mc::crash_context("C04.harness");
            if (ret < 0 || (size_t)ret > 2 * n + 4)
            {
                mc::violation(sig(c, entry, "return_value"), "payload=%s returned %d", gsref::hex(p).c_str(), ret);
                return;
            }
            f.assign(out.p, out.p + ret);
        }
        else
        {
            mc::crash_context("C04.%s.%s.memory.%s", gs::codec_name(c.codec), gs::entry_name(entry), c.cls);
            f = gs::encode_vec(c.codec, in.p, n);
            mc::crash_context("C04.harness");
        }
        if (memcmp(in.p, p.data(), n) != 0)
            mc::violation(sig(c, entry, "input_modified.payload_bytes"), "payload=%s", gsref::hex(p).c_str());
    }
    else
    {
        // every piece is its own exactly sized heap block (plain arrays: this is the hot loop)
        struct Hold
        {
            Input *b[16];
            size_t k = 0;
            ~Hold()
            {
                for (size_t i = 0; i < k; i++)
                    delete b[i];
            }
        } hold;
        struct
        {
            struct iovec v[16];
            size_t k = 0;
            size_t size() const { return k; }
            const struct iovec *data() const { return v; }
        } iov;
        if (ps.size() > 16)
            mc::harness_error("more than 16 pieces");
        for (const Piece &q : ps)
        {
            struct iovec v;
            if (q.len == 0 && null_empty)
                v.iov_base = nullptr;
            else
            {
                Input *b = new Input(p.data() + q.off, q.len, c.align, c.readonly);
                hold.b[hold.k++] = b;
                v.iov_base = b->p;
            }
            v.iov_len = q.len;
            iov.v[iov.k++] = v;
        }
        // the iovec array itself is exactly sized too
        Input arr((const uint8_t *)iov.data(), iov.size() * sizeof(struct iovec), 0, c.readonly);
        // the caller's inputs are read-only for an encoder: the iovec array and every piece must be unchanged afterwards
        auto inputs_intact = [&]() {
            if (iov.size() && memcmp(arr.p, iov.data(), iov.size() * sizeof(struct iovec)) != 0)
            {
                const struct iovec *now = (const struct iovec *)arr.p;
                size_t k = 0;
                while (k + 1 < iov.size() && now[k].iov_base == iov.v[k].iov_base && now[k].iov_len == iov.v[k].iov_len)
                    k++;
                mc::violation(sig(c, entry, "input_modified.iovec_array"),
                              "payload=%s %s: after the call piece %zu has iov_len %zu (was %zu), iov_base moved by %ld", gsref::hex(p).c_str(),
                              text(part).c_str(), k, now[k].iov_len, iov.v[k].iov_len,
                              (long)((const char *)now[k].iov_base - (const char *)iov.v[k].iov_base));
                return;
            }
            for (size_t k = 0; k < iov.size(); k++)
                if (iov.v[k].iov_len && memcmp(iov.v[k].iov_base, p.data() + ps[k].off, iov.v[k].iov_len) != 0)
                {
                    mc::violation(sig(c, entry, "input_modified.payload_bytes"), "payload=%s %s: piece %zu changed", gsref::hex(p).c_str(),
                                  text(part).c_str(), k);
                    return;
                }
        };
        if (entry == gs::RAW_V)
        {
            Exact out(2 * n + 4);
            mc::crash_context("C04.%s.%s.memory.%s", gs::codec_name(c.codec), gs::entry_name(entry), c.cls);
            int ret = gs::encode_raw_v(c.codec, (struct iovec *)arr.p, iov.size(), out.p);
            mc::crash_context("C04.harness");
            inputs_intact();
            if (ret < 0 || (size_t)ret > 2 * n + 4)
            {
                mc::violation(sig(c, entry, "return_value"), "payload=%s %s returned %d", gsref::hex(p).c_str(), text(part).c_str(), ret);
                return;
            }
            f.assign(out.p, out.p + ret);
        }
        else
        {
            mc::crash_context("C04.%s.%s.memory.%s", gs::codec_name(c.codec), gs::entry_name(entry), c.cls);
            f = gs::encode_vec_v(c.codec, (struct iovec *)arr.p, iov.size());
            mc::crash_context("C04.harness");
            inputs_intact();
        }
    }
    check_frame(c, entry, f, part);
}

// every composition of n into consecutive non-empty pieces (2^(n-1)); for each, also with one empty piece
// inserted at every position (null and non-null base alternate), plus the degenerate vectors for n == 0.
static void all_partitions(Ctx &c, int entry, bool with_empty)
{
    size_t n = c.payload->size();
    if (n == 0)
    {
        run_entry(c, entry, {}, false);               // zero iovecs
        run_entry(c, entry, {{0, 0}}, false);         // one empty piece
        run_entry(c, entry, {{0, 0}}, true);          // one empty piece, null base
        run_entry(c, entry, {{0, 0}, {0, 0}}, true);  // two
        return;
    }
    for (unsigned mask = 0; mask < (1u << (n - 1)); mask++)
    {
        std::vector<Piece> ps;
        size_t st = 0;
        for (size_t i = 0; i < n; i++)
            if (i + 1 == n || (mask >> i & 1))
            {
                ps.push_back({st, i + 1 - st});
                st = i + 1;
            }
        run_entry(c, entry, ps, false);
        if (!with_empty)
            continue;
        for (size_t pos = 0; pos <= ps.size(); pos++)
        {
            std::vector<Piece> q = ps;
            size_t off = pos < ps.size() ? ps[pos].off : n;
            q.insert(q.begin() + pos, Piece{off, 0});
            run_entry(c, entry, q, (pos + mask) & 1);
        }
    }
}

enum Mode
{
    M_RAW = 0,  // gstuffing(raw) [legacy: gstuffing_v1] + gstuffing_v(raw) over all partitions
    M_VEC = 1,  // std::vector gstuffing(igris::buffer)
    M_VECV = 2, // std::vector gstuffing_v over all partitions
    NMODE = 3
};

// a handful of partitions for long payloads (2^(n-1) compositions are out of reach there): whole, first byte split off,
// halves, last byte split off, cuts at 255 and 256, halves with an empty piece in between
static void few_partitions(Ctx &c, int entry)
{
    size_t n = c.payload->size();
    run_entry(c, entry, {{0, n}}, false);
    if (n < 2)
        return;
    size_t cuts[] = {1, n / 2, n - 1, 255, 256};
    for (size_t k : cuts)
        if (k > 0 && k < n)
            run_entry(c, entry, {{0, k}, {k, n - k}}, false);
    run_entry(c, entry, {{0, n / 2}, {n / 2, 0}, {n / 2, n - n / 2}}, true);
}

enum Parts
{
    P_ALL = 0,       // every composition into non-empty pieces
    P_ALL_EMPTY = 1, // ... and each again with an empty piece at every position
    P_FEW = 2        // few_partitions (long payloads)
};

static void check_payload(int codec, const Bytes &p, int mode, int parts, int align = 0, bool readonly = false)
{
    Ctx c;
    c.align = align;
    c.readonly = readonly;
    c.codec = codec;
    c.M = gsref::golden(codec);
    c.payload = &p;
    c.cls = input_class(c.M, p);
    mc::describe("codec=%s payload=%s (%zu bytes, %s) entry group=%s input misalignment=%d%s", gs::codec_name(codec),
                 p.size() <= 32 ? gsref::hex(p).c_str() : (gsref::hex(Bytes(p.begin(), p.begin() + 16)) + "...").c_str(), p.size(), c.cls,
                 mode == M_RAW ? "raw buffers" : mode == M_VEC ? "vector gstuffing(buffer)" : "vector gstuffing_v", align,
                 readonly ? ", inputs in read-only memory" : "");
    if (align || readonly || (strcmp(c.cls, "plain") != 0 && strcmp(c.cls, "empty") != 0))
        mc::nontrivial();
    if (mode == M_RAW)
    {
        run_entry(c, gs::RAW, {}, false);
        if (gs::has_entry(codec, gs::RAW_V))
        {
            if (parts == P_FEW)
                few_partitions(c, gs::RAW_V);
            else
                all_partitions(c, gs::RAW_V, parts == P_ALL_EMPTY);
        }
    }
    else if (mode == M_VEC)
        run_entry(c, gs::VEC, {}, false);
    else if (parts == P_FEW)
        few_partitions(c, gs::VEC_V);
    else
        all_partitions(c, gs::VEC_V, parts == P_ALL_EMPTY);
    if (c.encodes > 1)
        mc::more_cases(c.encodes - 1, mc::case_has_violation() ? 0 : (strcmp(c.cls, "plain") && strcmp(c.cls, "empty") ? c.encodes - 1 : 0));
    mc::count("encoder_calls", (long)c.encodes);
    mc::count("frames_put_through_all_oracles", (long)c.oracle_runs);
}

// payload alphabet: the six marker / escape-code bytes of the codec under test, 00, FF, 'a'; duplicates
// (START == STOP alphabets) are replaced by the other family's marker bytes, which are plain data here.
static std::vector<uint8_t> alphabet(int codec)
{
    gs::Markers M = gsref::golden(codec);
    std::vector<uint8_t> a;
    auto add = [&](uint8_t c) {
        for (uint8_t x : a)
            if (x == c)
                return;
        if (a.size() < 9)
            a.push_back(c);
    };
    add(M.start), add(M.stop), add(M.stub), add(M.c_start), add(M.c_stop), add(M.c_stub);
    uint8_t fill[] = {0x00, 0xFF, 'a'};
    std::vector<uint8_t> tail(fill, fill + 3);
    gs::Markers O = gsref::golden(codec == gs::CFG_V1 ? gs::CFG_V0 : gs::CFG_V1);
    uint8_t other[] = {O.start, O.stop, O.stub, O.c_start, O.c_stop, O.c_stub};
    size_t oi = 0;
    while (a.size() + tail.size() < 9 && oi < 6)
        add(other[oi++]);
    for (uint8_t c : tail)
        add(c);
    if (a.size() != 9)
        mc::harness_error("alphabet for %s has %zu symbols", gs::codec_name(codec), a.size());
    return a;
}

static int nmodes(int codec) { return codec == gs::LEGACY ? 1 : NMODE; }

// ---- one gstuff_context object, reassigned between calls ------------------------------------------------------
// The context is a plain value type: a program may keep ONE object and put another alphabet into it (reassignment, a
// by-value parameter of a helper, a loop copy).  Every call must use the alphabet the object holds NOW.
// A case = a sequence of four alphabets out of {V1, V0, custom X, custom Y} (all 256) x the way the context travels
// (same static object reassigned / by-value parameter of one helper) x the encoder entry point.  At each step every
// payload of length 0..2 over the union of all four alphabets' marker bytes + 'a' is encoded and judged against the
// alphabet of THAT step: reference decoder, frame structure, real receiver constructed with that alphabet.
static const gs::Markers &seq_alphabet(int i)
{
    static const gs::Markers A[4] = {gsref::golden(gs::CFG_V1), gsref::golden(gs::CFG_V0),
                                     gs::Markers{0x01, 0x02, 0x03, 0x11, 0x12, 0x13},  // custom X: low values
                                     gs::Markers{0xB2, 0xA8, 0xAD, 0x5C, 0x8A, 0xAC}}; // custom Y: other alphabets' bytes in other roles
    return A[i];
}
static const char *seq_name[4] = {"V1", "V0", "X(01/02/03)", "Y(B2/A8/AD)"};

static void reassigned_context_case()
{
    int first = mc::choose(256);
    int how = mc::choose(gs::NCTXHOW);
    int entry = mc::choose(gs::NENTRY);
    int seq[4] = {first & 3, (first >> 2) & 3, (first >> 4) & 3, (first >> 6) & 3};
    mc::describe("one context object, alphabets %s -> %s -> %s -> %s, %s, entry %s", seq_name[seq[0]], seq_name[seq[1]], seq_name[seq[2]],
                 seq_name[seq[3]], how == gs::SAME_OBJECT_REASSIGNED ? "same static object reassigned" : "by-value parameter of one helper",
                 gs::entry_name(entry));
    if (seq[0] != seq[1] || seq[1] != seq[2] || seq[2] != seq[3])
        mc::nontrivial();
    static std::vector<uint8_t> U;
    if (U.empty())
    {
        for (int a = 0; a < 4; a++)
        {
            const gs::Markers &m = seq_alphabet(a);
            for (uint8_t c : {m.start, m.stop, m.stub})
            {
                bool dup = false;
                for (uint8_t x : U)
                    dup |= x == c;
                if (!dup)
                    U.push_back(c);
            }
        }
        U.push_back('a');
    }
    gs::ctx_flush(); // the case does not depend on what earlier cases of this process left inside the library
    uint64_t n = 0;
    std::string base = mc::fmt("C04.reassigned_context.%s.%s.", how == gs::SAME_OBJECT_REASSIGNED ? "same_object" : "by_value", gs::entry_name(entry));
    for (int step = 0; step < 4; step++)
    {
        const gs::Markers &M = seq_alphabet(seq[step]);
        for (int len = 0; len <= 2; len++)
            for (size_t i0 = 0; i0 < (len >= 1 ? U.size() : 1); i0++)
                for (size_t i1 = 0; i1 < (len >= 2 ? U.size() : 1); i1++)
                {
                    Bytes p;
                    if (len >= 1)
                        p.push_back(U[i0]);
                    if (len >= 2)
                        p.push_back(U[i1]);
                    n++;
                    mc::crash_context("C04.reassigned_context.%s.memory", gs::entry_name(entry));
                    Bytes f = gs::encode_ctx(M, how, entry, p.data(), p.size(), p.size() / 2);
                    mc::crash_context("C04.harness");
                    std::string where = mc::fmt("step %d (alphabet %s) payload=%s frame=%s", step, seq_name[seq[step]], gsref::hex(p).c_str(),
                                                gsref::hex(f).c_str());
                    if (f.size() > 2 * p.size() + 4 || f.empty())
                    {
                        mc::violation(base + "frame.length", "%s", where.c_str());
                        continue;
                    }
                    gsref::Decoded d = gsref::decode_frame(M, f);
                    if (!d.ok)
                    {
                        mc::violation(base + "frame." + d.why, "%s", where.c_str());
                        continue;
                    }
                    if (d.payload != p)
                    {
                        mc::violation(base + "refdecode.payload_differs", "%s reference decoder got %s", where.c_str(), gsref::hex(d.payload).c_str());
                        continue;
                    }
                    int cap = (int)p.size() + 2;
                    Exact buf((size_t)cap);
                    mc::crash_context("C04.reassigned_context.receiver.memory");
                    std::unique_ptr<gs::Receiver> r(gs::make_receiver_markers(M, buf.p, cap));
                    bool okr = true;
                    for (size_t i = 0; i < f.size() && okr; i++)
                    {
                        gs::Status st = r->feed(f[i]);
                        bool last = i + 1 == f.size();
                        if (last != (st == gs::NEWPACKAGE))
                        {
                            mc::violation(base + "receiver.packet_not_exactly_on_last_byte", "%s: byte %zu answered %s", where.c_str(), i, gs::status_name(st));
                            okr = false;
                        }
                        else if (last && r->packet() != p)
                        {
                            mc::violation(base + "receiver.content", "%s: delivered %s", where.c_str(), gsref::hex(r->packet()).c_str());
                            okr = false;
                        }
                    }
                    mc::crash_context("C04.harness");
                    mc::outcome(mc::fmt("reassigned %s expansion=%d", seq_name[seq[step]], (int)f.size() - (int)p.size()));
                }
    }
    mc::more_cases(n - 1, (seq[0] != seq[1] || seq[1] != seq[2] || seq[2] != seq[3]) ? n - 1 : 0);
}

// the library's own context objects / macros must hold the protocol's constants (everything else here is judged
// against the pinned constants, so a drifted library alphabet shows up as undecodable frames AND here, by name)
static void alphabet_constants_case()
{
    int codec = mc::choose(gs::NCODEC);
    mc::describe("alphabet exposed by the library for %s vs. the protocol constants", gs::codec_name(codec));
    mc::nontrivial();
    std::string d = gsref::alphabet_difference(codec);
    mc::outcome(gs::codec_name(codec));
    if (!d.empty())
        mc::violation(mc::fmt("C04.%s.alphabet_constants", gs::codec_name(codec)), "%s: %s", gs::codec_name(codec), d.c_str());
}

// ---- a receiver with history: the previous transmission was cut, then the encoder's output arrives -----------
// frame(p0) (the library's own encoding) cut after every number of bytes - in particular right behind the start marker
// and right behind an escape byte - then encode(p1) encode(p2).  START != STOP: both must come out, exactly on their
// last bytes; START == STOP: the second must (the statement of C05 allows the first to be lost there).
// p0: all payloads of length 1..3 over the codec's 9-symbol alphabet; (p1,p2): 16 pairs; capacity 8.
static std::vector<uint8_t> alphabet(int codec);
static Bytes lib_encode(int codec, const Bytes &p)
{
    Exact in(p.data(), p.size());
    Exact out(2 * p.size() + 4);
    int ret = gs::encode_raw(codec, in.p, p.size(), out.p);
    return (ret > 0 && (size_t)ret <= 2 * p.size() + 4) ? Bytes(out.p, out.p + ret) : Bytes();
}
static void cut_then_frames_case(int codec)
{
    static std::vector<uint8_t> A[gs::NCODEC];
    if (A[codec].empty())
        A[codec] = alphabet(codec);
    const std::vector<uint8_t> &a = A[codec];
    gs::Markers M = gsref::golden(codec);
    int first = mc::choose(9 + 81 + 729);
    Bytes p0;
    if (first < 9)
        p0 = {a[first]};
    else if (first < 90)
        p0 = {a[(first - 9) / 9], a[(first - 9) % 9]};
    else
        p0 = {a[(first - 90) / 81], a[(first - 90) / 9 % 9], a[(first - 90) % 9]};
    mc::crash_context("C04.%s.cut_transmission.memory", gs::codec_name(codec));
    Bytes f0 = lib_encode(codec, p0);
    mc::describe("codec=%s encode(%s)=%s cut after every 0..%zu bytes, then encode(p1) encode(p2) for 16 pairs", gs::codec_name(codec),
                 gsref::hex(p0).c_str(), gsref::hex(f0).c_str(), f0.empty() ? 0 : f0.size() - 1);
    mc::nontrivial();
    std::vector<Bytes> P = {Bytes{}, Bytes{'a'}, Bytes{M.start}, Bytes{M.stub, M.stop}}, F;
    for (const Bytes &p : P)
        F.push_back(lib_encode(codec, p));
    uint64_t n = 0;
    for (size_t cut = 0; cut < f0.size(); cut++)
        for (int i1 = 0; i1 < 4; i1++)
            for (int i2 = 0; i2 < 4; i2++)
            {
                n++;
                const int cap = 8;
                Exact buf((size_t)cap);
                std::unique_ptr<gs::Receiver> r(gs::make_receiver(codec, buf.p, cap));
                Bytes s(f0.begin(), f0.begin() + cut);
                size_t e1 = s.size() + F[i1].size() - 1;
                s.insert(s.end(), F[i1].begin(), F[i1].end());
                size_t e2 = s.size() + F[i2].size() - 1;
                s.insert(s.end(), F[i2].begin(), F[i2].end());
                bool got1 = false, got2 = false, ok1 = false, ok2 = false;
                for (size_t i = 0; i < s.size(); i++)
                    if (r->feed(s[i]) == gs::NEWPACKAGE)
                    {
                        if (i == e1)
                            got1 = true, ok1 = r->packet() == P[i1];
                        if (i == e2)
                            got2 = true, ok2 = r->packet() == P[i2];
                    }
                bool need1 = !M.same() || cut == 0;
                if ((need1 && !(got1 && ok1)) || !(got2 && ok2))
                    mc::violation(mc::fmt("C04.%s.cut_transmission.%s_frame_%s", gs::codec_name(codec), (need1 && !(got1 && ok1)) ? "first" : "second",
                                          ((need1 && !got1) || (!(need1 && !(got1 && ok1)) && !got2)) ? "not_delivered" : "delivered_wrong"),
                                  "stream=%s: transmission of %s cut after %zu bytes, then frames of %s (ends at byte %zu) and %s (ends at byte %zu)",
                                  gsref::hex(s).c_str(), gsref::hex(p0).c_str(), cut, gsref::hex(P[i1]).c_str(), e1, gsref::hex(P[i2]).c_str(), e2);
                mc::outcome(mc::fmt("%s cut got=%d%d", gs::codec_name(codec), got1, got2));
            }
    mc::crash_context("C04.harness");
    if (n > 1)
        mc::more_cases(n - 1, n - 1);
}

// ---- both alphabets of the configurable codec (and the legacy one) at work in one process ----------------------
// Fresh worker process per case (mc::request_restart): two receivers of different codecs are created and the encoder
// outputs for the same payload are fed to them alternately, byte by byte; which receiver gets the first byte of the
// process is a case dimension.  Each must report exactly one packet, on its last byte, equal to the payload - twice.
static void two_receivers_case()
{
    static const int PAIR[6][2] = {{gs::CFG_V1, gs::CFG_V0}, {gs::CFG_V1, gs::LEGACY}, {gs::CFG_V0, gs::LEGACY},
                                   {gs::CFG_V1, gs::CFG_V1}, {gs::CFG_V0, gs::CFG_V0}, {gs::LEGACY, gs::LEGACY}};
    int first = mc::choose(6 * 2 * 12);
    mc::request_restart();
    int pi = first % 12, order = first / 12 % 2, pr = first / 24;
    int codec[2] = {PAIR[pr][order], PAIR[pr][1 - order]};
    Bytes p[2], f[2];
    for (int t = 0; t < 2; t++)
    {
        gs::Markers M = gsref::golden(codec[t]);
        Bytes PP[12] = {{}, {'a'}, {M.start}, {M.stop}, {M.stub}, {M.start, M.start}, {'a', M.start, 'b'}, {M.stub, M.stop}, {M.start, 'a', M.stub},
                        {0xFF}, {M.c_start, M.c_stub}, {'a', 'b', 'c', M.start}};
        p[t] = PP[(pi + 5 * t) % 12]; // the second receiver gets another payload: the two streams are out of step
        mc::crash_context("C04.two_receivers.memory");
        f[t] = lib_encode(codec[t], p[t]);
    }
    mc::describe("fresh process; receiver %s gets the first byte, alternating with %s; payloads %s / %s, each frame twice", gs::codec_name(codec[0]),
                 gs::codec_name(codec[1]), gsref::hex(p[0]).c_str(), gsref::hex(p[1]).c_str());
    mc::nontrivial();
    Exact b0(8), b1(8);
    std::unique_ptr<gs::Receiver> r[2] = {std::unique_ptr<gs::Receiver>(gs::make_receiver(codec[0], b0.p, 8)),
                                          std::unique_ptr<gs::Receiver>(gs::make_receiver(codec[1], b1.p, 8))};
    Bytes s[2];
    for (int t = 0; t < 2; t++)
    {
        s[t] = f[t];
        s[t].insert(s[t].end(), f[t].begin(), f[t].end());
    }
    bool bad[2] = {false, false};
    for (size_t i = 0; i < s[0].size() || i < s[1].size(); i++)
        for (int t = 0; t < 2; t++)
            if (i < s[t].size() && !bad[t])
            {
                gs::Status st = r[t]->feed(s[t][i]);
                bool last = (i + 1) % f[t].size() == 0;
                if (last != (st == gs::NEWPACKAGE) || (last && r[t]->packet() != p[t]))
                {
                    bad[t] = true;
                    mc::violation(mc::fmt("C04.two_receivers.%s.%s", gs::codec_name(codec[t]), t == 0 ? "fed_first" : "fed_second"),
                                  "other receiver: %s; payload=%s stream=%s byte %zu answered %s%s", gs::codec_name(codec[1 - t]),
                                  gsref::hex(p[t]).c_str(), gsref::hex(s[t]).c_str(), i, gs::status_name(st),
                                  last && st == gs::NEWPACKAGE ? " with wrong content" : "");
                }
            }
    mc::crash_context("C04.harness");
    mc::outcome(mc::fmt("%s+%s ok=%d%d", gs::codec_name(codec[0]), gs::codec_name(codec[1]), !bad[0], !bad[1]));
}

// ---- long history: ONE receiver per codec consumes >= 200000 bytes of encoder output ---------------------------
// (thorough 400000).  Payload length and content vary from frame to frame (lengths 0..12, stride coprime to 13), so
// that every offset of a frame relative to any 2^k byte/frame count inside the receiver object occurs.  Exactly one
// packet per frame, on its last byte, equal to the payload - for every frame of the run.
static void long_history_case()
{
    int codec = mc::choose(gs::NCODEC);
    gs::Markers M = gsref::golden(codec);
    size_t want = mc::thorough() ? 400000 : 200000;
    mc::describe("codec=%s one receiver (capacity 16) fed the encoder's output for payloads of varying length until %zu bytes are consumed",
                 gs::codec_name(codec), want);
    mc::nontrivial();
    Exact buf(16);
    mc::crash_context("C04.%s.long_history.memory", gs::codec_name(codec));
    std::unique_ptr<gs::Receiver> r(gs::make_receiver(codec, buf.p, 16));
    size_t fed = 0;
    unsigned k = 0, bad = 0;
    for (; fed < want && bad < 3; k++)
    {
        unsigned len = (k * 5) % 13;
        Bytes p;
        for (unsigned i = 0; i < len; i++)
        {
            unsigned sel = (k * 3 + i * 5) % 8;
            p.push_back(sel == 0 ? M.start : sel == 1 ? M.stub : sel == 2 ? M.stop : sel == 3 ? 0x00 : sel == 4 ? 0xFF : (uint8_t)(k + i * 11));
        }
        Bytes f = lib_encode(codec, p);
        for (size_t i = 0; i < f.size(); i++, fed++)
        {
            gs::Status st = r->feed(f[i]);
            bool last = i + 1 == f.size();
            if (last != (st == gs::NEWPACKAGE) || (last && r->packet() != p))
            {
                bad++;
                mc::violation(mc::fmt("C04.%s.long_history.%s", gs::codec_name(codec),
                                      last && st == gs::NEWPACKAGE ? "packet_content" : "packet_not_exactly_on_last_byte"),
                              "frame #%u, %zu bytes consumed by this receiver so far: payload=%s frame=%s byte %zu answered %s", k, fed,
                              gsref::hex(p).c_str(), gsref::hex(f).c_str(), i, gs::status_name(st));
                fed += f.size() - i;
                break;
            }
        }
    }
    mc::crash_context("C04.harness");
    mc::outcome(mc::fmt("%s frames=%u bad=%u", gs::codec_name(codec), k, bad));
    mc::more_cases(k ? k - 1 : 0, k ? k - 1 : 0);
}

MC_INIT
{
    mc::add_check("long_history", long_history_case);
    mc::add_check("two_receivers_one_process", two_receivers_case);
    for (int codec = 0; codec < gs::NCODEC; codec++)
        mc::add_check(mc::fmt("cut_then_frames.%s", gs::codec_name(codec)), [codec] { cut_then_frames_case(codec); });
}

MC_INIT
{
    mc::add_check("alphabet_constants", alphabet_constants_case);
    mc::add_check("reassigned_context", reassigned_context_case);
    for (int codec = 0; codec < gs::NCODEC; codec++)
    {
        // (a) all payloads of length 0..5 (quick) / 0..6 (thorough) over the 9-symbol marker-rich alphabet
        mc::add_check(mc::fmt("alphabet_payloads.%s", gs::codec_name(codec)), [codec] {
            static std::vector<uint8_t> A[gs::NCODEC];
            if (A[codec].empty())
                A[codec] = alphabet(codec);
            const std::vector<uint8_t> &a = A[codec];
            int maxlen = mc::thorough() ? 6 : 5;
            int first = mc::choose(82); // 81 two-symbol prefixes + the short payloads
            Bytes p;
            if (first == 81)
            {
                int s = mc::choose(10);
                if (s)
                    p.push_back(a[s - 1]);
            }
            else
            {
                p.push_back(a[first / 9]);
                p.push_back(a[first % 9]);
                int more = mc::choose(maxlen - 1);
                for (int i = 0; i < more; i++)
                    p.push_back(a[mc::choose(9)]);
            }
            int mode = mc::choose(nmodes(codec));
            // empty pieces at every position for n <= 5; for n == 6 the 32 compositions only
            check_payload(codec, p, mode, p.size() <= 5 ? P_ALL_EMPTY : P_ALL);
        });
        // (b) every 1- and 2-byte payload over 0..255: the CRC trailer takes every value, in particular every marker
        mc::add_check(mc::fmt("all_bytes_len1_len2.%s", gs::codec_name(codec)), [codec] {
            int b0 = mc::choose(256);
            int b1 = mc::choose(257);
            Bytes p;
            p.push_back((uint8_t)b0);
            if (b1 < 256)
                p.push_back((uint8_t)b1);
            int mode = mc::choose(nmodes(codec));
            check_payload(codec, p, mode, P_ALL_EMPTY);
        });
        // (d) every length 0..12 (thorough 0..24) at every misalignment 0..7: each input block (whole payload, every iovec
        //     piece) starts `align` bytes behind a 16-byte boundary and ends exactly at the end of its heap block
        mc::add_check(mc::fmt("alignment_x_length.%s", gs::codec_name(codec)), [codec] {
            int maxlen = mc::thorough() ? 24 : 12;
            int first = mc::choose(8 * (maxlen + 1));
            int align = first % 8, n = first / 8;
            int pattern = mc::choose(3);
            gs::Markers M = gsref::golden(codec);
            Bytes p;
            for (int i = 0; i < n; i++)
                p.push_back(pattern == 0 ? (uint8_t)(i * 37 + 1) : pattern == 1 ? (uint8_t)'a' : (i % 3 == 0 ? M.start : i % 3 == 1 ? M.stub : M.stop));
            int mode = mc::choose(nmodes(codec));
            check_payload(codec, p, mode, n <= 5 ? P_ALL : P_FEW, align);
        });
        // (e) inputs in read-only memory (payload in ROM / a string literal, a const iovec table): every length 0..12 x 3
        //     patterns x every entry point; the payload, every iovec piece and the iovec array are PROT_READ pages
        mc::add_check(mc::fmt("readonly_inputs.%s", gs::codec_name(codec)), [codec] {
            int first = mc::choose(13 * 3 * 2);
            int n = first / 6, pattern = first / 2 % 3, endm = first % 2;
            gs::Markers M = gsref::golden(codec);
            Bytes p;
            for (int i = 0; i < n; i++)
                p.push_back(pattern == 0 ? (uint8_t)(i * 37 + 1) : pattern == 1 ? (uint8_t)'a' : (i % 3 == 0 ? M.start : i % 3 == 1 ? M.stub : M.stop));
            if (endm && n)
                p.back() = M.start; // a marker as the last byte
            int mode = mc::choose(nmodes(codec));
            check_payload(codec, p, mode, n <= 4 ? P_ALL : P_FEW, 0, true);
        });
        // (c) long payloads, 253..300 bytes: lengths, frame lengths and receiver capacities (n+2, n+9) cross 255/256,
        //     where a narrowed length or capacity field would wrap
        mc::add_check(mc::fmt("large_payloads.%s", gs::codec_name(codec)), [codec] {
            int first = mc::choose(48 * 3);
            int n = 253 + first / 3, pattern = first % 3;
            gs::Markers M = gsref::golden(codec);
            Bytes p;
            for (int i = 0; i < n; i++)
                p.push_back(pattern == 0 ? (uint8_t)(i * 7 + 1) : pattern == 1 ? (uint8_t)'a' : (i % 3 == 0 ? M.start : i % 3 == 1 ? M.stub : M.stop));
            int mode = mc::choose(nmodes(codec));
            check_payload(codec, p, mode, P_FEW);
        });
    }
}
MC_MAIN
