#define PFX(x) c18_first_##x
#include "c18_first.inc"
