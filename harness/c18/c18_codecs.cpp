// C18 — hexascii and base64 codecs are inverse pairs with the documented alphabets.
// Shape I: exhaustive enumeration of byte strings / integer values; every (pointer,size)
// API gets exactly-sized heap copies (ASan redzones are the memory oracle).
// References: RFC 4648 base16 (upper case), base64 and base64url encoders written here.
#include "guard.hpp"
#include "mc.hpp"
#include <algorithm>
#include <cstdint>
#include <cstdlib>
#include <cstring>
#include <igris/string/hexascii_string.h>
#include <igris/util/base64.h>
#include <igris/util/hexascii.h>
#include <sanitizer/asan_interface.h>
#include <string>
#include <unistd.h>
#include <vector>

using std::string;

// ---------------------------------------------------------------- references
static const char HEXU[] = "0123456789ABCDEF";
static string ref_hex(const uint8_t *d, size_t n)
{
    string s;
    for (size_t i = 0; i < n; i++)
    {
        s += HEXU[d[i] >> 4];
        s += HEXU[d[i] & 15];
    }
    return s;
}
static string ref_b64(const uint8_t *d, size_t n, bool url)
{
    const char *al = url ? "ABCDEFGHIJKLMNOPQRSTUVWXYZabcdefghijklmnopqrstuvwxyz0123456789-_"
                         : "ABCDEFGHIJKLMNOPQRSTUVWXYZabcdefghijklmnopqrstuvwxyz0123456789+/";
    string s;
    size_t i = 0;
    for (; i + 3 <= n; i += 3)
    {
        uint32_t v = (uint32_t)d[i] << 16 | (uint32_t)d[i + 1] << 8 | d[i + 2];
        s += al[v >> 18 & 63];
        s += al[v >> 12 & 63];
        s += al[v >> 6 & 63];
        s += al[v & 63];
    }
    if (n - i == 1)
    {
        uint32_t v = (uint32_t)d[i] << 16;
        s += al[v >> 18 & 63];
        s += al[v >> 12 & 63];
        s += "==";
    }
    else if (n - i == 2)
    {
        uint32_t v = (uint32_t)d[i] << 16 | (uint32_t)d[i + 1] << 8;
        s += al[v >> 18 & 63];
        s += al[v >> 12 & 63];
        s += al[v >> 6 & 63];
        s += "=";
    }
    return s;
}
static bool in_alphabet(const string &s, const char *extra)
{
    // letters, digits, the two extra symbols; '=' only as a suffix of at most two
    size_t n = s.size(), pad = 0;
    while (pad < n && s[n - 1 - pad] == '=')
        pad++;
    if (pad > 2)
        return false;
    for (size_t i = 0; i < n - pad; i++)
    {
        char c = s[i];
        bool ok = (c >= 'A' && c <= 'Z') || (c >= 'a' && c <= 'z') || (c >= '0' && c <= '9') || c == extra[0] || c == extra[1];
        if (!ok)
            return false;
    }
    return true;
}

// exactly-sized heap block: [p, p+n) ends at the ASan redzone; for n == 0 the block's only byte is
// poisoned by hand, so that any access through the pointer is a report
struct Exact
{
    uint8_t *p;
    size_t n;
    explicit Exact(size_t n_, const void *src = nullptr) : n(n_)
    {
        p = (uint8_t *)malloc(n ? n : 1);
        if (src && n)
            memcpy(p, src, n);
        else if (n)
            memset(p, 0xEE, n);
        if (!n)
            ASAN_POISON_MEMORY_REGION(p, 1);
    }
    ~Exact()
    {
        if (!n)
            ASAN_UNPOISON_MEMORY_REGION(p, 1);
        free(p);
    }
    Exact(const Exact &) = delete;
};

// long texts in messages: head ... tail (length); and the first differing offset of two texts
static string abbr(const string &t)
{
    if (t.size() <= 48)
        return t;
    return t.substr(0, 20) + "..." + t.substr(t.size() - 12) + mc::fmt("(%zu chars)", t.size());
}
static string hexabbr(const void *p, size_t n)
{
    const uint8_t *b = (const uint8_t *)p;
    if (n <= 16)
        return mc::hex(b, n);
    return mc::hex(b, 8) + "..." + mc::hex(b + n - 4, 4) + mc::fmt("(%zu bytes)", n);
}
static size_t firstdiff(const void *a, size_t na, const void *b, size_t nb)
{
    size_t i = 0;
    while (i < na && i < nb && ((const uint8_t *)a)[i] == ((const uint8_t *)b)[i])
        i++;
    return i;
}
static size_t firstdiff(const string &a, const string &b) { return firstdiff(a.data(), a.size(), b.data(), b.size()); }

// fill a few KB of the stack below the caller with a pattern, so that an uninitialised local of the next
// call does not happen to be zero (used by base64_with_dirtied_stack; effective in the unsanitised executable,
// where locals really live on the stack)
static bool g_dirty = false;
static __attribute__((noinline)) void dirty_stack(int pat)
{
    volatile unsigned char buf[8192];
    memset((void *)buf, pat, sizeof buf);
    __asm__ volatile("" ::"r"(buf) : "memory");
}

static const char *len_class(size_t n) { return n == 0 ? "empty" : (n % 3 == 0 ? "mod3_0" : (n % 3 == 1 ? "mod3_1" : "mod3_2")); }

// every codec on one byte string
static void check_string(const uint8_t *x, size_t n)
{
    string hx = hexabbr(x, n);
    Exact in(n, x);
    string xs((const char *)x, n);

    // ---- hexascii, C API
    string want_hex = ref_hex(x, n);
    {
        Exact out(2 * n);
        mc::crash_context("C18.hexascii_encode.memory");
        hexascii_encode(in.p, (int)n, out.p);
        string got((const char *)out.p, 2 * n);
        if (got != want_hex)
            mc::violation("C18.hexascii_encode.value", "x=%s got %s want %s (first difference at text offset %zu)", hx.c_str(), abbr(got).c_str(), abbr(want_hex).c_str(),
                          firstdiff(got, want_hex));
        Exact back(n);
        mc::crash_context("C18.hexascii_decode.memory");
        hexascii_decode(out.p, (int)(2 * n), back.p);
        if (n && memcmp(back.p, x, n) != 0)
            mc::violation("C18.hexascii_decode.roundtrip", "x=%s decode(encode(x))=%s (first difference at byte %zu)", hx.c_str(), hexabbr(back.p, n).c_str(),
                          firstdiff(back.p, n, x, n));
    }
    // ---- hexascii, std::string API (three overloads of encode; decode overloads are declared but not defined)
    {
        mc::crash_context("C18.hexascii_string_encode.memory");
        string a = igris::hexascii_encode(in.p, n);
        string b = igris::hexascii_encode(xs);
        string c = igris::hexascii_encode(igris::buffer(in.p, n));
        if (a != want_hex || b != want_hex || c != want_hex)
            mc::violation("C18.hexascii_string_encode.value", "x=%s got %s / %s / %s want %s", hx.c_str(), abbr(a).c_str(), abbr(b).c_str(), abbr(c).c_str(),
                          abbr(want_hex).c_str());
        if (a.size() != 2 * n)
            mc::violation("C18.hexascii_string_encode.length", "x=%s length %zu want %zu", hx.c_str(), a.size(), 2 * n);
        // the C decoder accepts what the C++ encoder produced
        Exact enc(a.size(), a.data());
        Exact back(n);
        mc::crash_context("C18.hexascii_decode.memory");
        hexascii_decode(enc.p, (int)a.size(), back.p);
        if (a.size() == 2 * n && n && memcmp(back.p, x, n) != 0)
            mc::violation("C18.hexascii_decode.roundtrip", "x=%s decode(string encode(x))=%s (first difference at byte %zu)", hx.c_str(), hexabbr(back.p, n).c_str(),
                          firstdiff(back.p, n, x, n));
    }
    // ---- base64 / base64url
    for (int url = 0; url < 2; url++)
    {
        const char *nm = url ? "base64url" : "base64";
        string want = ref_b64(x, n, url);
        mc::crash_context("C18.%s_encode.memory", nm);
        if (g_dirty)
            dirty_stack(0xFF);
        string e1 = url ? igris::base64url_encode(in.p, n) : igris::base64_encode(in.p, n);
        if (g_dirty)
            dirty_stack(0x5A);
        string e2 = url ? igris::base64url_encode(xs) : igris::base64_encode(xs);
        if (e1.size() != 4 * ((n + 2) / 3))
            mc::violation(mc::fmt("C18.%s_encode.length.%s", nm, len_class(n)), "x=%s encoded '%s' has length %zu, want %zu", hx.c_str(),
                          abbr(e1).c_str(), e1.size(), 4 * ((n + 2) / 3));
        if (!in_alphabet(e1, url ? "-_" : "+/"))
            mc::violation(mc::fmt("C18.%s_encode.alphabet", nm), "x=%s encoded '%s'", hx.c_str(), hexabbr(e1.data(), e1.size()).c_str());
        if (e1 != want)
            mc::violation(mc::fmt("C18.%s_encode.value.%s", nm, len_class(n)), "x=%s got '%s' want '%s' (first difference at text offset %zu)", hx.c_str(), abbr(e1).c_str(), abbr(want).c_str(),
                          firstdiff(e1, want));
        if (e2 != e1)
            mc::violation(mc::fmt("C18.%s_encode.string_overload", nm), "x=%s pointer overload '%s' string overload '%s'", hx.c_str(), abbr(e1).c_str(),
                          abbr(e2).c_str());
        mc::crash_context("C18.%s_decode.memory", nm);
        string d = url ? igris::base64url_decode(e1) : igris::base64_decode(e1);
        if (d != xs)
            mc::violation(mc::fmt("C18.%s_decode.roundtrip.%s", nm, len_class(n)), "x=%s encode(x)='%s' decode(encode(x))=%s (%zu bytes, first difference at byte %zu)", hx.c_str(),
                          abbr(e1).c_str(), hexabbr(d.data(), d.size()).c_str(), d.size(), firstdiff(d, xs));
        if (url == 0 && e1.size() >= 2)
            mc::outcome(e1.substr(0, 2)); // coarse: at most 4096 distinct values
    }
    mc::crash_context("C18.harness");
}

// variant build (g++ -O2 -DNDEBUG under ASan; the main build is clang++ -O1 with assertions): same TU, sub-check
// names get a suffix and the two expensive enumerations are left to the main build
#if defined(C18_PLAIN)
#define NAME(x) x "_unsanitised"
#elif defined(C18_VARIANT)
#define NAME(x) x "_gcc_O2_ndebug"
#else
#define NAME(x) x
#endif

// ---------------------------------------------------------------- recompute after rewriting the field in place
// The decoders' value depends on the BYTES of the field, not on the pointer: the same pointer argument after
// the field was rewritten in place must give the new value.  Writes and reads sit in one optimised function
// that sees the repository header, so a declaration that lets the compiler merge or hoist the reads shows.
template <class T, class E, class D>
static __attribute__((noinline)) void rewrite_loop(const char *name, char *field, const T *vals, int n, E enc, D dec)
{
    T got[64];
    for (int i = 0; i < n; i++)
    {
        enc(field, vals[i]); // rewrite the SAME field
        got[i] = dec((const char *)field);
    }
    for (int i = 0; i < n; i++)
        if (got[i] != vals[i])
            mc::violation(mc::fmt("C18.%s.recompute_stale", name), "field rewritten in place with value #%d = %llx, decoder returned %llx (first value %llx)", i,
                          (unsigned long long)vals[i], (unsigned long long)got[i], (unsigned long long)vals[0]);
}

static const uint8_t SMALL[6] = {0x00, 0x01, 0x7F, 0x80, 0xFF, 'A'};
static uint8_t g_set32[32];

// ---------------------------------------------------------------- fixed-width helpers
template <class T> static string ref_fixed(T v)
{
    string s;
    for (int i = (int)sizeof(T) * 2 - 1; i >= 0; i--)
        s += HEXU[(v >> (4 * i)) & 15];
    return s;
}
// A fixed-width decoder reads EXACTLY its 2*sizeof(T) characters: (1) from a field that ends flush against an
// inaccessible page (non-terminated, one byte of over-read faults), (2) whatever stands directly behind the
// field in a longer buffer — more hex digits, NUL, separators, arbitrary bytes — must not change the result.
// the same helpers compiled in translation units that include hexascii.h FIRST, before any system header
// (c18_first.cpp as C++, c18_first_c.c as C): byte-order and type macros must not depend on what was included before
extern "C"
{
#define FIRST_DECL(P)                                                                                                              \
    void P##u8_to_hex(char *, uint8_t);                                                                                            \
    void P##u16_to_hex(char *, uint16_t);                                                                                          \
    void P##u32_to_hex(char *, uint32_t);                                                                                          \
    void P##u64_to_hex(char *, uint64_t);                                                                                          \
    uint8_t P##hex_to_u8(const char *);                                                                                            \
    uint16_t P##hex_to_u16(const char *);                                                                                          \
    uint32_t P##hex_to_u32(const char *);                                                                                          \
    uint64_t P##hex_to_u64(const char *);
    FIRST_DECL(c18_first_)
    FIRST_DECL(c18_firstc_)
}
template <class T, class E, class D> static void check_first(const char *name, T v, const string &want, E enc, D dec)
{
    Exact t(want.size());
    mc::crash_context("C18.%s.memory.header_included_first", name);
    enc((char *)t.p, v);
    string got((char *)t.p, want.size());
    if (got != want)
        mc::violation(mc::fmt("C18.%s.value.header_included_first", name), "v=%llx: text %s want %s (helpers from a TU that includes hexascii.h before any system header)",
                      (unsigned long long)v, got.c_str(), want.c_str());
    memcpy(t.p, want.data(), want.size());
    T b = dec((const char *)t.p);
    if (b != v)
        mc::violation(mc::fmt("C18.%s.roundtrip.header_included_first", name), "text %s decoded to %llx", want.c_str(), (unsigned long long)b);
    mc::crash_context("C18.harness");
}

template <class T, class F> static void check_field(const char *name, const string &text, T v, F decode)
{
    size_t w = text.size();
    static guard::Region page(16);
    char *fld = (char *)page.p + 16 - w; // [fld, fld+w) ends at the guard page
    memcpy(fld, text.data(), w);
    T got = 0;
    mc::crash_context("C18.%s.memory", name);
    bool ok = mc::guarded([&] { got = decode((const char *)fld); });
    if (!ok)
        mc::violation(mc::fmt("C18.%s.reads_past_field", name), "field '%s' flush against an inaccessible page: the decoder read beyond its %zu characters",
                      text.c_str(), w);
    else if (got != v)
        mc::violation(mc::fmt("C18.%s.roundtrip", name), "field '%s' (non-terminated) decoded to %llx", text.c_str(), (unsigned long long)got);
    static const char *const tails[] = {"0", "F", "a", "12345678", "FFFFFFFFFFFFFFFFF", " ", "\n", ",", "G", "x1", "\xff\x80", "-1"};
    for (const char *tl : tails)
    {
        string buf = text + tl;
        Exact e(buf.size() + 1, buf.c_str()); // text + tail + NUL, exactly sized
        T g = decode((const char *)e.p);
        if (g != v)
            mc::violation(mc::fmt("C18.%s.depends_on_bytes_behind_field", name), "field '%s' followed by '%s' decoded to %llx, want %llx", text.c_str(),
                          mc::hex(tl, strlen(tl)).c_str(), (unsigned long long)g, (unsigned long long)v);
    }
    {
        string buf = text;
        Exact e(buf.size() + 1, buf.c_str()); // followed by NUL only
        e.p[buf.size()] = 0;
        T g = decode((const char *)e.p);
        if (g != v)
            mc::violation(mc::fmt("C18.%s.roundtrip", name), "field '%s' followed by NUL decoded to %llx", text.c_str(), (unsigned long long)g);
    }
    mc::crash_context("C18.harness");
}

static void check_u8(uint8_t v)
{
    Exact t(2);
    mc::crash_context("C18.uint8_to_hex.memory");
    uint8_to_hex((char *)t.p, v);
    string got((char *)t.p, 2);
    if (got != ref_fixed<uint8_t>(v))
        mc::violation("C18.uint8_to_hex.value", "v=%02x got %s", v, got.c_str());
    mc::crash_context("C18.hex_to_uint8.memory");
    uint8_t b = hex_to_uint8((const char *)t.p);
    if (b != v)
        mc::violation("C18.hex_to_uint8.roundtrip", "v=%02x text %s back %02x", v, got.c_str(), b);
    check_first<uint8_t>("uint8", v, ref_fixed<uint8_t>(v), c18_first_u8_to_hex, c18_first_hex_to_u8);
    check_first<uint8_t>("uint8", v, ref_fixed<uint8_t>(v), c18_firstc_u8_to_hex, c18_firstc_hex_to_u8);
    check_field<uint8_t>("hex_to_uint8", ref_fixed<uint8_t>(v), v, [](const char *h) { return hex_to_uint8(h); });
    // nibble helpers
    if (half2hex(v >> 4) != HEXU[v >> 4] || hex2half(HEXU[v & 15]) != (v & 15) || hex2byte(HEXU[v >> 4], HEXU[v & 15]) != v)
        mc::violation("C18.half_helpers.value", "v=%02x half2hex=%c hex2half=%d hex2byte=%02x", v, half2hex(v >> 4), hex2half(HEXU[v & 15]),
                      hex2byte(HEXU[v >> 4], HEXU[v & 15]));
}
static void check_u16(uint16_t v)
{
    Exact t(4);
    mc::crash_context("C18.uint16_to_hex.memory");
    uint16_to_hex((char *)t.p, v);
    string got((char *)t.p, 4);
    if (got != ref_fixed<uint16_t>(v))
        mc::violation("C18.uint16_to_hex.value", "v=%04x got %s", v, got.c_str());
    mc::crash_context("C18.hex_to_uint16.memory");
    uint16_t b = hex_to_uint16((const char *)t.p);
    if (b != v)
        mc::violation("C18.hex_to_uint16.roundtrip", "v=%04x text %s back %04x", v, got.c_str(), b);
    check_first<uint16_t>("uint16", v, ref_fixed<uint16_t>(v), c18_first_u16_to_hex, c18_first_hex_to_u16);
    check_first<uint16_t>("uint16", v, ref_fixed<uint16_t>(v), c18_firstc_u16_to_hex, c18_firstc_hex_to_u16);
    check_field<uint16_t>("hex_to_uint16", ref_fixed<uint16_t>(v), v, [](const char *h) { return hex_to_uint16(h); });
}
static void check_u32(uint32_t v)
{
    Exact t(8);
    mc::crash_context("C18.uint32_to_hex.memory");
    uint32_to_hex((char *)t.p, v);
    string got((char *)t.p, 8);
    if (got != ref_fixed<uint32_t>(v))
        mc::violation("C18.uint32_to_hex.value", "v=%08x got %s", v, got.c_str());
    mc::crash_context("C18.hex_to_uint32.memory");
    uint32_t b = hex_to_uint32((const char *)t.p);
    if (b != v)
        mc::violation("C18.hex_to_uint32.roundtrip", "v=%08x text %s back %08x", v, got.c_str(), b);
    check_first<uint32_t>("uint32", v, ref_fixed<uint32_t>(v), c18_first_u32_to_hex, c18_first_hex_to_u32);
    check_first<uint32_t>("uint32", v, ref_fixed<uint32_t>(v), c18_firstc_u32_to_hex, c18_firstc_hex_to_u32);
    check_field<uint32_t>("hex_to_uint32", ref_fixed<uint32_t>(v), v, [](const char *h) { return hex_to_uint32(h); });
}
static void check_u64(uint64_t v)
{
    Exact t(16);
    mc::crash_context("C18.uint64_to_hex.memory");
    uint64_to_hex((char *)t.p, v);
    string got((char *)t.p, 16);
    if (got != ref_fixed<uint64_t>(v))
        mc::violation("C18.uint64_to_hex.value", "v=%016llx got %s", (unsigned long long)v, got.c_str());
    mc::crash_context("C18.hex_to_uint64.memory");
    uint64_t b = hex_to_uint64((const char *)t.p);
    if (b != v)
        mc::violation("C18.hex_to_uint64.roundtrip", "v=%016llx text %s back %016llx", (unsigned long long)v, got.c_str(), (unsigned long long)b);
    check_first<uint64_t>("uint64", v, ref_fixed<uint64_t>(v), c18_first_u64_to_hex, c18_first_hex_to_u64);
    check_first<uint64_t>("uint64", v, ref_fixed<uint64_t>(v), c18_firstc_u64_to_hex, c18_firstc_hex_to_u64);
    check_field<uint64_t>("hex_to_uint64", ref_fixed<uint64_t>(v), v, [](const char *h) { return hex_to_uint64(h); });
}

// structured complete families for a W-bit type (W = 32 or 64):
//   f < W            : all values with bits {f, j} set for j <= f (j == f: one bit), their complements, +-(2^f) -+ 1
//   f = W .. W+W/8-1 : byte lane f-W takes every value 00..FF while the other lanes are 00 / FF / 5A
//   f = W+W/8        : 0, +-1, limits, 10^k+d, every hex digit in every digit position
static std::vector<uint64_t> family(int W, int f)
{
    std::vector<uint64_t> v;
    uint64_t mask = W == 64 ? ~0ull : 0xFFFFFFFFull;
    if (f < W)
    {
        for (int j = 0; j <= f; j++)
        {
            uint64_t x = (1ull << f) | (1ull << j);
            v.push_back(x);
            v.push_back(~x & mask);
        }
        v.push_back(((1ull << f) - 1) & mask);
        v.push_back(((1ull << f) + 1) & mask);
        v.push_back((0 - (1ull << f)) & mask);     // -(2^f)
        v.push_back((0 - (1ull << f) - 1) & mask); // -(2^f) - 1
    }
    else
    {
        // byte-lane family: lane L = f - W (only the first W/8 slots are used), every byte value,
        // other lanes 00 / FF / 5A: pins every lane of the byte-lane macros completely
        int L = f - W;
        if (L < W / 8)
            for (int b = 0; b < 256; b++)
                for (uint64_t bg : std::initializer_list<uint64_t>{0, ~0ull, 0x5A5A5A5A5A5A5A5Aull})
                {
                    uint64_t lane = 0xFFull << (8 * L);
                    v.push_back(((bg & ~lane) | ((uint64_t)b << (8 * L))) & mask);
                }
        else if (L == W / 8)
        {
            // limits, 0, +-1, powers of ten and sixteen +- 1
            for (uint64_t x : std::initializer_list<uint64_t>{0, 1, ~0ull, mask >> 1, (mask >> 1) + 1, 0x0123456789ABCDEFull, 0xFEDCBA9876543210ull})
                v.push_back(x & mask);
            uint64_t p = 1;
            for (int k = 0; k < (W == 64 ? 20 : 10); k++, p *= 10)
                for (int d = -1; d <= 1; d++)
                    v.push_back((p + d) & mask);
            p = 1;
            for (int k = 0; k < W / 4; k++, p *= 16)
                for (int dig = 0; dig < 16; dig++)
                    v.push_back((p * dig) & mask); // every hex digit in every digit position
        }
    }
    return v;
}

MC_INIT
{
    for (int i = 0; i < 32; i++)
        g_set32[i] = (uint8_t)((i * 37 + 11) & 0xFF);
    static const uint8_t forced[] = {0x00, 0x01, 0x7F, 0x80, 0xFF, 'A', 0x3E, 0x3F, 0xFB, 0xFC, 0x0F, 0xF0, '=', '+', '/', '-', '_', 0x10};
    for (size_t i = 0; i < sizeof forced; i++)
        g_set32[i] = forced[i];

    // (a) all strings of length 0..6 over {00,01,7F,80,FF,'A'}
    mc::add_check(NAME("strings_len0_6_over_6_symbols"), [] {
        int pre = mc::choose(216);
        uint8_t m[6] = {SMALL[pre / 36], SMALL[pre / 6 % 6], SMALL[pre % 6], 0, 0, 0};
        mc::describe("strings starting %02x%02x%02x, length 3..6%s", m[0], m[1], m[2], pre == 0 ? " and all strings of length 0..2" : "");
        uint64_t cases = 0;
        if (pre == 0)
        {
            uint8_t s[2];
            check_string(s, 0);
            cases++;
            for (int a = 0; a < 6; a++)
            {
                s[0] = SMALL[a];
                check_string(s, 1);
                cases++;
                for (int b = 0; b < 6; b++)
                {
                    s[1] = SMALL[b];
                    check_string(s, 2);
                    cases++;
                }
            }
        }
        for (int extra = 0; extra <= 3; extra++)
        {
            int cnt = extra == 0 ? 1 : (extra == 1 ? 6 : (extra == 2 ? 36 : 216));
            for (int i = 0; i < cnt; i++)
            {
                int r = i;
                for (int k = extra - 1; k >= 0; k--, r /= 6)
                    m[3 + k] = SMALL[r % 6];
                check_string(m, 3 + extra);
                cases++;
            }
        }
        mc::more_cases(cases - 1, cases - 1);
        mc::nontrivial(); // length >= 3: grouping and padding both exercised
    });

    // (b) all 1- and 2-byte strings over 0..255
    mc::add_check(NAME("all_1_and_2_byte_strings"), [] {
        int b0 = mc::choose(256);
        mc::describe("strings %02x and %02x??", b0, b0);
        uint8_t m[2] = {(uint8_t)b0, 0};
        check_string(m, 1);
        for (int b1 = 0; b1 < 256; b1++)
        {
            m[1] = (uint8_t)b1;
            check_string(m, 2);
        }
        mc::more_cases(256, 256);
        if (b0 >= 0x80)
            mc::nontrivial(); // sign-extension territory
    });

    // (c) 3-byte strings: quick 256 x 256 x 32-value set, thorough all 2^24
#ifndef C18_VARIANT
    mc::add_check(NAME("all_3_byte_strings"), [] {
        int b0 = mc::choose(256);
        int b1hi = mc::choose(4);
        bool full = mc::thorough();
        int n2 = full ? 256 : 32;
        mc::describe("strings %02x %02x..%02x %s", b0, b1hi * 64, b1hi * 64 + 63, full ? "??" : "(32-value set)");
        uint8_t m[3] = {(uint8_t)b0, 0, 0};
        for (int b1 = b1hi * 64; b1 < b1hi * 64 + 64; b1++)
        {
            m[1] = (uint8_t)b1;
            for (int i2 = 0; i2 < n2; i2++)
            {
                m[2] = full ? (uint8_t)i2 : g_set32[i2];
                check_string(m, 3);
            }
            mc::tick();
        }
        mc::more_cases((uint64_t)64 * n2 - 1, (uint64_t)64 * n2 - 1);
        mc::nontrivial();
    });

#endif
    // (f) long inputs: lengths around 2^7, 2^8 (thorough: 2^16) and beyond, so that a counter, index or size
    // narrowed to 8/16 bits (or a signed char index) cannot hide; x n mod 3 variants x byte patterns
    mc::add_check(NAME("long_inputs_around_256_and_65536"), [] {
        static const size_t base_q[] = {127, 128, 255, 256, 257, 300, 1000};
        static const size_t base_t[] = {127, 128, 255, 256, 257, 300, 1000, 65535, 65536, 65537};
        const size_t *base = mc::thorough() ? base_t : base_q;
        int nb = mc::thorough() ? 10 : 7;
        static const long onepos[] = {0, 1, 254, 255, 256, 257, -1}; // -1: the last byte
        int c = mc::choose(nb * 3 * 10);
        size_t n = base[c / 30] + (size_t)(c / 10 % 3);
        int pat = c % 10;
        std::vector<uint8_t> m(n, 0);
        string pn;
        if (pat == 0)
        {
            for (size_t i = 0; i < n; i++)
                m[i] = (uint8_t)(i % 251); // period 251: position i and i+256 differ
            pn = "counting mod 251";
        }
        else if (pat == 1)
            pn = "all 00";
        else if (pat == 2)
        {
            std::fill(m.begin(), m.end(), 0xFF);
            pn = "all FF";
        }
        else
        {
            long p = onepos[pat - 3];
            size_t at = (p < 0 || (size_t)p >= n) ? n - 1 : (size_t)p;
            m[at] = 0x01;
            pn = mc::fmt("single 01 at byte %zu", at);
        }
        mc::describe("length %zu (%zu+%d), %s", n, base[c / 30], c / 10 % 3, pn.c_str());
        check_string(m.data(), n);
        mc::outcome(mc::fmt("%zu/%d", n % 3, pat));
        mc::nontrivial();
    });

#ifndef C18_VARIANT
    // (g) the codecs called during STATIC INITIALISATION of a translation unit linked before them: the probe
    // executable (c18_early.o first, the library objects, c18_late.o last) runs the RFC 4648 vectors from a
    // global constructor and again from main(); both must equal the references.  The probe is a separate
    // process because a crash before main() must be an observation, not the end of the check.
    mc::add_check(NAME("static_init_time"), [] {
        (void)mc::choose(1); // a single case: the probe process runs all vectors
        mc::describe("RFC 4648 vectors pushed through every codec from a global constructor linked before the library");
        char self[4096];
        ssize_t n = readlink("/proc/self/exe", self, sizeof self - 1);
        if (n <= 0)
            mc::harness_error("readlink /proc/self/exe");
        self[n] = 0;
        string probe = string(self).substr(0, string(self).rfind('/')) + "/c18early";
        if (access(probe.c_str(), X_OK) != 0)
            mc::harness_error("probe %s missing", probe.c_str());
        FILE *f = popen((probe + " 2>/dev/null").c_str(), "r");
        if (!f)
            mc::harness_error("popen");
        string out;
        char buf[4096];
        size_t k;
        while ((k = fread(buf, 1, sizeof buf, f)) > 0)
            out.append(buf, k);
        int st = pclose(f);
        if (st != 0)
        {
            mc::violation("C18.static_init_time.crash",
                          "a program whose first translation unit calls the codecs from a global constructor died (wait status 0x%x, %zu bytes of output) before or while reporting", st, out.size());
            return;
        }
        // expected text
        static const char *const vec[] = {"", "f", "fo", "foo", "foob", "fooba", "foobar", "\xfb\xff", "\xff\xff\xfe", "\x00\x80\x7f\xff"};
        static const size_t len[] = {0, 1, 2, 3, 4, 5, 6, 2, 3, 4};
        auto hx = [](const string &v) { return mc::hex(v.data(), v.size()); };
        string body;
        for (int i = 0; i < 10; i++)
        {
            string x(vec[i], len[i]);
            const uint8_t *d = (const uint8_t *)x.data();
            body += mc::fmt("b64e.%d %s\n", i, hx(ref_b64(d, x.size(), false)).c_str());
            body += mc::fmt("b64d.%d %s\n", i, hx(x).c_str());
            body += mc::fmt("b64ue.%d %s\n", i, hx(ref_b64(d, x.size(), true)).c_str());
            body += mc::fmt("b64ud.%d %s\n", i, hx(x).c_str());
            body += mc::fmt("hexs.%d %s\n", i, hx(ref_hex(d, x.size())).c_str());
            body += mc::fmt("hexe.%d %s\n", i, hx(ref_hex(d, x.size())).c_str());
            body += mc::fmt("hexd.%d %s\n", i, hx(x).c_str());
        }
        uint32_t v32 = 0xDEADBEEFu;
        uint16_t v16 = 0xA55A;
        body += "u32e.0 " + hx("DEADBEEF") + "\n" + "u32d.0 " + mc::hex(&v32, 4) + "\n" + "u64e.0 " + hx("0123456789ABCDEF") + "\n" + "u16e.0 " + hx("A55A") + "\n" +
                "u16d.0 " + mc::hex(&v16, 2) + "\n";
        string want = "order late_marker_in_main=1\norder late_marker_at_early_time=0\nphase static_init\n" + body + "phase main\n" + body;
        if (out.find("order late_marker_at_early_time=0\n") == string::npos || out.find("order late_marker_in_main=1\n") == string::npos)
            mc::harness_error("probe: the early constructor did not run before the last object file's initialiser (link order?): %s", out.substr(0, 200).c_str());
        if (out != want)
        {
            // first differing line
            size_t i = 0;
            while (i < out.size() && i < want.size() && out[i] == want[i])
                i++;
            size_t b = want.rfind('\n', i ? i - 1 : 0);
            b = b == string::npos ? 0 : b + 1;
            string wl = want.substr(b, want.find('\n', b) - b), ol = b < out.size() ? out.substr(b, out.find('\n', b) - b) : string("<missing>");
            bool in_static = out.rfind("phase main\n", i) == string::npos;
            mc::violation(in_static ? "C18.static_init_time.value" : "C18.static_init_time.value_from_main", "got line '%s', want '%s'", ol.c_str(), wl.c_str());
        }
        mc::outcome(mc::fmt("%zu", out.size()));
        mc::more_cases(2 * 75 - 1, 2 * 75 - 1);
        mc::nontrivial();
    });

#endif
    // (k) the encoders right after the stack below them was filled with FF / 5A: a tail group assembled in an
    // uninitialised local shows its garbage in the symbol that straddles the end of the data
    mc::add_check(NAME("base64_with_dirtied_stack"), [] {
        int b0 = mc::choose(256);
        mc::describe("strings %02x, %02x??, %02x??5Ac3, %02x??5Ac3f0 with the stack dirtied before every encode", b0, b0, b0, b0);
        g_dirty = true;
        uint8_t m[5] = {(uint8_t)b0, 0, 0x5A, 0xC3, 0xF0};
        check_string(m, 1);
        for (int b1 = 0; b1 < 256; b1++)
        {
            m[1] = (uint8_t)b1;
            check_string(m, 2);
            uint8_t q[5] = {0x5A, 0xC3, 0xF0, (uint8_t)b0, (uint8_t)b1};
            check_string(q, 4);
            check_string(q, 5);
        }
        g_dirty = false;
        mc::outcome(mc::fmt("%d", b0 & 3));
        mc::more_cases(768, 768);
        mc::nontrivial();
    });

    // (j) EVERY length 0..300 (thorough 0..2100) with three byte patterns: capacity/reallocation steps of the
    // result string, group counts and padding at every size, not only around powers of two
    mc::add_check(NAME("every_length_0_300"), [] {
        int maxlen = mc::thorough() ? 2100 : 300;
        int c = mc::choose(maxlen + 1);
        mc::describe("length %d, patterns counting / FB FF FE.. / 00", c);
        std::vector<uint8_t> m((size_t)c);
        for (int pat = 0; pat < 3; pat++)
        {
            for (int i = 0; i < c; i++)
                m[(size_t)i] = pat == 0 ? (uint8_t)(i * 7 + 1) : pat == 1 ? (uint8_t)(0xFB + (i % 5)) : 0;
            check_string(m.data(), (size_t)c);
        }
        mc::outcome(mc::fmt("%d", c % 3));
        mc::more_cases(2, 2);
        if (c > 6)
            mc::nontrivial();
    });

    // (h) every alignment of input and output for short lengths (0..12 bytes): a routine that handles an
    // unaligned head / aligned middle / tail separately must not touch a byte outside [p, p+n) and [out, out+2n)
    mc::add_check(NAME("alignment_x_short_lengths"), [] {
        int c = mc::choose(13 * 8);
        int n = c / 8, ioff = c % 8;
        mc::describe("length %d, input at offset %d mod 8, output at offsets 0..7", n, ioff);
        uint8_t x[16];
        for (int i = 0; i < n; i++)
            x[i] = (uint8_t)(0x9D + i * 0x3B);
        string want = ref_hex(x, n), hx = mc::hex(x, n);
        for (int ooff = 0; ooff < 8; ooff++)
        {
            // blocks are exactly offset + size bytes: the data ends flush against the redzone, and malloc blocks are
            // 16-aligned, so p + ioff has the chosen residue
            Exact in(ioff + n), out(ooff + 2 * n), back(ioff + n);
            if (n)
                memcpy(in.p + ioff, x, n);
            mc::crash_context("C18.hexascii_encode.memory.unaligned");
            hexascii_encode(n || ioff ? in.p + ioff : in.p, n, out.p + ooff);
            string got((const char *)out.p + ooff, 2 * n);
            if (got != want)
                mc::violation("C18.hexascii_encode.value.unaligned", "x=%s at offset %d, output offset %d: got %s want %s", hx.c_str(), ioff, ooff, got.c_str(),
                              want.c_str());
            for (int k = 0; k < ooff; k++)
                if (out.p[k] != 0xEE)
                    mc::violation("C18.hexascii_encode.writes_before_output", "x=%s: byte %d in front of the output buffer was overwritten", hx.c_str(), k - ooff);
            mc::crash_context("C18.hexascii_decode.memory.unaligned");
            hexascii_decode(out.p + ooff, 2 * n, back.p + ioff);
            if (n && memcmp(back.p + ioff, x, n) != 0)
                mc::violation("C18.hexascii_decode.roundtrip.unaligned", "x=%s at offset %d: decode(encode(x))=%s", hx.c_str(), ioff, mc::hex(back.p + ioff, n).c_str());
            for (int k = 0; k < ioff; k++)
                if (back.p[k] != 0xEE)
                    mc::violation("C18.hexascii_decode.writes_before_output", "x=%s: byte %d in front of the output buffer was overwritten", hx.c_str(), k - ioff);
        }
        {
            Exact in(ioff + n);
            if (n)
                memcpy(in.p + ioff, x, n);
            mc::crash_context("C18.codecs.memory.unaligned");
            string a = igris::hexascii_encode(in.p + ioff, (size_t)n);
            string e = igris::base64_encode(in.p + ioff, (size_t)n), u = igris::base64url_encode(in.p + ioff, (size_t)n);
            if (a != want || e != ref_b64(x, n, false) || u != ref_b64(x, n, true))
                mc::violation("C18.codecs.value.unaligned", "x=%s at offset %d: hex %s base64 %s base64url %s", hx.c_str(), ioff, a.c_str(), e.c_str(), u.c_str());
            if (igris::base64_decode(e) != string((const char *)x, n) || igris::base64url_decode(u) != string((const char *)x, n))
                mc::violation("C18.codecs.roundtrip.unaligned", "x=%s at offset %d", hx.c_str(), ioff);
        }
        mc::crash_context("C18.harness");
        mc::outcome(mc::fmt("%d", n % 4));
        mc::more_cases(7, 7);
        if (ioff % 4)
            mc::nontrivial();
    });

    // (i) rewrite the field in place and decode again through the same pointer (see rewrite_loop)
    mc::add_check(NAME("recompute_after_rewriting_field_in_place"), [] {
        int c = mc::choose(4 * 16);
        int w = c / 16, seed = c % 16;
        mc::describe("uint%d field rewritten in place 64 times, value family %d", 8 << w, seed);
        Exact fld(16);
        uint64_t v[64];
        for (int i = 0; i < 64; i++)
            v[i] = (0x9E3779B97F4A7C15ull * (uint64_t)(i + 1 + 64 * seed)) ^ (i & 1 ? ~0ull : 0) ^ ((uint64_t)i << (seed * 4));
        v[1] = ~v[0];
        mc::crash_context("C18.recompute.memory");
        if (w == 0)
        {
            uint8_t a[64];
            for (int i = 0; i < 64; i++)
                a[i] = (uint8_t)v[i];
            rewrite_loop<uint8_t>("hex_to_uint8", (char *)fld.p, a, 64, [](char *f, uint8_t x) { uint8_to_hex(f, x); }, [](const char *f) { return hex_to_uint8(f); });
            // the nibble/byte helpers take their characters by value; same loop for completeness
            for (int i = 0; i < 64; i++)
                if (hex2byte(HEXU[a[i] >> 4], HEXU[a[i] & 15]) != a[i])
                    mc::violation("C18.half_helpers.value", "hex2byte of %02x", a[i]);
        }
        else if (w == 1)
        {
            uint16_t a[64];
            for (int i = 0; i < 64; i++)
                a[i] = (uint16_t)v[i];
            rewrite_loop<uint16_t>("hex_to_uint16", (char *)fld.p, a, 64, [](char *f, uint16_t x) { uint16_to_hex(f, x); }, [](const char *f) { return hex_to_uint16(f); });
        }
        else if (w == 2)
        {
            uint32_t a[64];
            for (int i = 0; i < 64; i++)
                a[i] = (uint32_t)v[i];
            rewrite_loop<uint32_t>("hex_to_uint32", (char *)fld.p, a, 64, [](char *f, uint32_t x) { uint32_to_hex(f, x); }, [](const char *f) { return hex_to_uint32(f); });
        }
        else
            rewrite_loop<uint64_t>("hex_to_uint64", (char *)fld.p, v, 64, [](char *f, uint64_t x) { uint64_to_hex(f, x); }, [](const char *f) { return hex_to_uint64(f); });
        {
            // the byte-string decoder through the same pointers after the text was rewritten
            Exact txt(8), outb(4);
            uint8_t first[4], second[4];
            uint32_t a = (uint32_t)v[2], b = (uint32_t)v[3];
            uint32_to_hex((char *)txt.p, a);
            hexascii_decode(txt.p, 8, outb.p);
            memcpy(first, outb.p, 4);
            uint32_to_hex((char *)txt.p, b);
            hexascii_decode(txt.p, 8, outb.p);
            memcpy(second, outb.p, 4);
            uint8_t wa[4] = {(uint8_t)(a >> 24), (uint8_t)(a >> 16), (uint8_t)(a >> 8), (uint8_t)a}, wb[4] = {(uint8_t)(b >> 24), (uint8_t)(b >> 16), (uint8_t)(b >> 8), (uint8_t)b};
            if (memcmp(first, wa, 4) || memcmp(second, wb, 4))
                mc::violation("C18.hexascii_decode.recompute_stale", "text rewritten in place %08x -> %08x: decoded %s then %s", a, b, mc::hex(first, 4).c_str(), mc::hex(second, 4).c_str());
        }
        mc::crash_context("C18.harness");
        mc::outcome(mc::fmt("%d", w));
        mc::more_cases(63, 63);
        mc::nontrivial();
    });

    // (d) fixed-width helpers: every 8- and 16-bit value
    mc::add_check(NAME("fixed_width_all_8_16_bit"), [] {
        int hi = mc::choose(256);
        mc::describe("uint8 %02x, uint16 %02x00..%02xff", hi, hi, hi);
        check_u8((uint8_t)hi);
        for (int lo = 0; lo < 256; lo++)
            check_u16((uint16_t)(hi << 8 | lo));
        mc::more_cases(256, 256);
        mc::outcome(ref_fixed<uint8_t>((uint8_t)hi));
        mc::nontrivial();
    });

    // (e) fixed-width helpers: structured complete 32/64-bit families
    mc::add_check(NAME("fixed_width_32_64_bit_families"), [] {
        // uint32: 32 bit families + 4 lanes + 1 misc = 37; uint64: 64 + 8 + 1 = 73
        int c = mc::choose(37 + 73);
        int W = c < 37 ? 32 : 64, f = c < 37 ? c : c - 37;
        std::vector<uint64_t> v = family(W, f);
        mc::describe("uint%d family %d (%zu values)", W, f, v.size());
        if (v.empty())
            mc::harness_error("empty family %d/%d", W, f);
        for (uint64_t x : v)
        {
            if (W == 32)
                check_u32((uint32_t)x);
            else
                check_u64(x);
        }
        mc::outcome(W == 32 ? ref_fixed<uint32_t>((uint32_t)v[0]) : ref_fixed<uint64_t>(v[0]));
        mc::more_cases(v.size() - 1, v.size() - 1);
        mc::nontrivial();
    });
}
MC_MAIN
