#define PFX(x) c18_firstc_##x
#include "c18_first.inc"
