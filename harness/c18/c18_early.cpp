// C18 static-initialisation probe, part 1: MUST be the first object file on the link line.
// A global object whose constructor — running during static initialisation, before the dynamic
// initialisers of every translation unit linked behind it (base64.cpp, hexascii_string.cpp, ...) —
// pushes the RFC 4648 vectors through every codec and stores the results in a constant-initialised
// buffer.  main() (c18_late.cpp) prints them; the C18 harness compares them with its references.
#include <cstdint>
#include <cstdio>
#include <cstring>
#include <igris/string/hexascii_string.h>
#include <igris/util/base64.h>
#include <igris/util/hexascii.h>
#include <string>

char c18_early_results[16384]; // zero-initialised, no constructor
int c18_early_len = 0;
extern int c18_late_marker; // dynamically initialised in the LAST object file

static void put(const char *key, int idx, const std::string &v)
{
    int &n = c18_early_len;
    n += snprintf(c18_early_results + n, sizeof c18_early_results - n, "%s.%d ", key, idx);
    for (unsigned char c : v)
        n += snprintf(c18_early_results + n, sizeof c18_early_results - n, "%02x", c);
    n += snprintf(c18_early_results + n, sizeof c18_early_results - n, "\n");
}

void c18_run_vectors(const char *phase)
{
    static const char *const vec[] = {"", "f", "fo", "foo", "foob", "fooba", "foobar", "\xfb\xff", "\xff\xff\xfe", "\x00\x80\x7f\xff"};
    static const size_t len[] = {0, 1, 2, 3, 4, 5, 6, 2, 3, 4};
    c18_early_len += snprintf(c18_early_results + c18_early_len, sizeof c18_early_results - c18_early_len, "phase %s\n", phase);
    for (int i = 0; i < 10; i++)
    {
        std::string x(vec[i], len[i]);
        std::string e = igris::base64_encode((const uint8_t *)x.data(), x.size());
        put("b64e", i, e);
        put("b64d", i, igris::base64_decode(e));
        std::string u = igris::base64url_encode(x);
        put("b64ue", i, u);
        put("b64ud", i, igris::base64url_decode(u));
        put("hexs", i, igris::hexascii_encode(x));
        char hx[16], back[8];
        hexascii_encode(x.data(), (int)x.size(), hx);
        put("hexe", i, std::string(hx, 2 * x.size()));
        hexascii_decode(hx, (int)(2 * x.size()), back);
        put("hexd", i, std::string(back, x.size()));
    }
    char t[16];
    uint32_to_hex(t, 0xDEADBEEFu);
    put("u32e", 0, std::string(t, 8));
    uint32_t v32 = hex_to_uint32(t);
    put("u32d", 0, std::string((const char *)&v32, 4));
    uint64_to_hex(t, 0x0123456789ABCDEFull);
    put("u64e", 0, std::string(t, 16));
    uint16_to_hex(t, 0xA55A);
    put("u16e", 0, std::string(t, 4));
    uint16_t v16 = hex_to_uint16(t);
    put("u16d", 0, std::string((const char *)&v16, 2));
}

namespace
{
    struct Early
    {
        Early()
        {
            // proves the order: the last object file's dynamic initialiser has not run yet
            c18_early_len += snprintf(c18_early_results, sizeof c18_early_results, "order late_marker_at_early_time=%d\n", c18_late_marker);
            c18_run_vectors("static_init");
        }
    } early_instance;
}
