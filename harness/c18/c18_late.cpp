// C18 static-initialisation probe, part 2: MUST be the last object file on the link line.
#include <cstdio>
extern char c18_early_results[];
extern int c18_early_len;
void c18_run_vectors(const char *phase);
static int compute()
{
    volatile int one = 1; // not foldable: the initialiser really runs at start-up
    return one;
}
int c18_late_marker = compute(); // dynamic initialiser
int main()
{
    printf("order late_marker_in_main=%d\n", c18_late_marker);
    c18_run_vectors("main"); // the same vectors once more from main(): must give the same text
    fwrite(c18_early_results, 1, c18_early_len, stdout);
    return 0;
}
