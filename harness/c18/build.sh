#!/bin/bash
set -e
. $MC/par.sh
CF="-O1 -g -fsanitize=address -fno-omit-frame-pointer -I$REPO -I$MC"
par clang -c $CF $REPO/igris/util/hexascii.c -o $BUILD/hexascii.o
par clang++ -std=c++20 -c $CF $REPO/igris/string/hexascii_string.cpp -o $BUILD/hexstr.o
par clang++ -std=c++20 -c $CF $REPO/igris/util/base64.cpp -o $BUILD/base64.o
par clang++ -std=c++20 -c $CF $VERIF/harness/c18/c18_codecs.cpp -o $BUILD/h.o
par clang++ -std=c++20 -c $CF $VERIF/harness/c18/c18_first.cpp -o $BUILD/first.o
par clang -c $CF $VERIF/harness/c18/c18_first_c.c -o $BUILD/firstc.o
par clang++ -std=c++20 -c $CF $VERIF/harness/c18/c18_early.cpp -o $BUILD/early.o
par clang++ -std=c++20 -c $CF $VERIF/harness/c18/c18_late.cpp -o $BUILD/late.o
par clang++ -std=c++20 -O2 -c -I$MC $MC/mc.cpp -o $BUILD/mc.o
# variant build: the other compiler, -O2, assertions compiled out, same harness TU with -DC18_VARIANT
VF="-O2 -g -DNDEBUG -fsanitize=address -fno-omit-frame-pointer -I$REPO -I$MC"
par gcc -c $VF $REPO/igris/util/hexascii.c -o $BUILD/v_hexascii.o
par g++ -std=c++20 -c $VF $REPO/igris/string/hexascii_string.cpp -o $BUILD/v_hexstr.o
par g++ -std=c++20 -c $VF $REPO/igris/util/base64.cpp -o $BUILD/v_base64.o
par g++ -std=c++20 -c $VF -DC18_VARIANT $VERIF/harness/c18/c18_codecs.cpp -o $BUILD/v_h.o
par g++ -std=c++20 -c $VF $VERIF/harness/c18/c18_first.cpp -o $BUILD/v_first.o
par gcc -c $VF $VERIF/harness/c18/c18_first_c.c -o $BUILD/v_firstc.o
parwait
par clang++ -fsanitize=address $BUILD/h.o $BUILD/first.o $BUILD/firstc.o $BUILD/hexascii.o $BUILD/hexstr.o $BUILD/base64.o $BUILD/mc.o -o $BUILD/c18
# static-initialisation probe: early.o FIRST (its global constructor calls the codecs), the library objects
# behind it, late.o LAST; spawned by the sub-check static_init_time of c18
par clang++ -fsanitize=address $BUILD/early.o $BUILD/base64.o $BUILD/hexstr.o $BUILD/hexascii.o $BUILD/late.o -o $BUILD/c18early
# unsanitised executable (locals really on the stack): only the dirtied-stack sub-check runs there
PF="-O2 -g -I$REPO -I$MC"
( g++ -std=c++20 -c $PF -DC18_PLAIN $VERIF/harness/c18/c18_codecs.cpp -o $BUILD/p_h.o && g++ -std=c++20 -c $PF $REPO/igris/util/base64.cpp -o $BUILD/p_base64.o \
  && g++ -std=c++20 -c $PF $REPO/igris/string/hexascii_string.cpp -o $BUILD/p_hexstr.o && gcc -c $PF $REPO/igris/util/hexascii.c -o $BUILD/p_hexascii.o \
  && g++ -std=c++20 -c $PF $VERIF/harness/c18/c18_first.cpp -o $BUILD/p_first.o && gcc -c $PF $VERIF/harness/c18/c18_first_c.c -o $BUILD/p_firstc.o \
  && g++ $BUILD/p_h.o $BUILD/p_first.o $BUILD/p_firstc.o $BUILD/p_hexascii.o $BUILD/p_hexstr.o $BUILD/p_base64.o $BUILD/mc.o -o $BUILD/c18p ) &
PLAIN=$!
par g++ -fsanitize=address $BUILD/v_h.o $BUILD/v_first.o $BUILD/v_firstc.o $BUILD/v_hexascii.o $BUILD/v_hexstr.o $BUILD/v_base64.o $BUILD/mc.o -o $BUILD/c18v
parwait
echo "codecs $BUILD/c18" > $BUILD/runs.txt
wait $PLAIN
echo "codecs_gcc_O2_ndebug $BUILD/c18v" >> $BUILD/runs.txt
echo "codecs_unsanitised $BUILD/c18p --only base64_with_dirtied_stack" >> $BUILD/runs.txt
