// C15, C++ flavour: igris/container/sline.h, igris/shell/readlinexx.h, igris/shell/vtermxx.cpp.
// The classes allocate their own line and history storage (unbounded_array -> operator new of
// exactly the requested size), so ASan sees a write at buf[cap] or past the last history slot.
// Private state is read (-fno-access-control) only for the fields the property names:
// _state, _last, _headhist, _curhist, the history bytes, and the terminal's state and its rl member.
// All of that sits under #ifndef C15_PUBLIC_ONLY: if a private member is renamed, build.sh
// rebuilds this TU with -DC15_PUBLIC_ONLY (and without -fno-access-control); then the
// implementation's part of the BFS key comes from public observers only (the line, the history
// through history_pointer()/current_history_pointer(); nothing for vtermxx, which exposes nothing)
// joined with the reference state and the last bytes typed.
#include "c15_models.hpp"
#include <igris/container/sline.h>
#include <igris/defs/signal.h>
#include <igris/shell/vtermxx.h>
#include <type_traits>

namespace
{
    struct XSline
    {
        static const char *flavour() { return "cxx"; }
        igris::sline sl;
        explicit XSline(unsigned cap)
        {
            sl.init(cap);
            memset(sl.data(), 0x55, cap);
        }
        // whatever the member returns today (some are void): value, or NORET = not observable
        template <class F> static int val(F f)
        {
            if constexpr (std::is_void_v<decltype(f())>)
            {
                f();
                return c15::NORET;
            }
            else
                return (int)f();
        }
        int putchar(char c) { return val([&] { return sl.newdata(c); }); }
        int newdata(const char *d, int k) { return val([&] { return sl.newdata(d, (size_t)k); }); }
        int backspace(unsigned k) { return val([&] { return sl.backspace((int)k); }); }
        int del(unsigned k) { return val([&] { return sl.del((int)k); }); }
        int left() { return val([&] { return sl.left(); }); }
        int right() { return val([&] { return sl.right(); }); }
        void reset() { sl.reset(); }
        const char *getline() { return sl.getline(); }
        unsigned len() { return (unsigned)sl.current_size(); }
        unsigned cursor() { return (unsigned)sl.current_size() - sl.rightsize(); }
        const char *data() { return sl.data(); }
    };

#ifndef C15_PUBLIC_ONLY
    const bool PUBLIC_ONLY = false;
    void rl_privkey(std::string &k, igris::readline &rl, unsigned cap)
    {
        char b[64];
        snprintf(b, sizeof b, ",%d,%d,%u,%u", rl._state, (int)rl._last, (unsigned)rl._headhist, (unsigned)rl._curhist);
        k += b;
        size_t n = rl.history_size();
        for (size_t i = 0; i < n; i++)
        {
            const char *p = rl._history_space.data() + i * cap;
            k += '/';
            k.append(p, strnlen(p, cap));
        }
    }
    bool rl_indices_ok(igris::readline &rl, unsigned cap, std::string *why)
    {
        size_t n = rl.history_size();
        if (rl._headhist >= n || rl._curhist > n)
        {
            *why = mc::fmt("history indices out of range: headhist=%u curhist=%u history_size=%zu", (unsigned)rl._headhist,
                           (unsigned)rl._curhist, n);
            return false;
        }
        for (size_t i = 0; i < n; i++)
            if (strnlen(rl._history_space.data() + i * cap, cap) >= cap)
            {
                *why = mc::fmt("history slot %zu is not terminated inside its %u bytes", i, cap);
                return false;
            }
        return true;
    }

#else
    const bool PUBLIC_ONLY = true;
    // public observers only: the history by browse distance (0 = the slot written next = oldest,
    // 1 = most recent, ...) and which of them the browse pointer designates (browse index modulo
    // the depth). A ring is described completely by this, whatever the write index is.
    void rl_privkey(std::string &k, igris::readline &rl, unsigned cap)
    {
        size_t n = rl.history_size();
        const char *cur = rl.current_history_pointer();
        for (size_t i = 0; i < n; i++)
        {
            const char *p = rl.history_pointer((int)i);
            k += p == cur ? '>' : '/';
            k.append(p, strnlen(p, cap));
        }
    }
    bool rl_indices_ok(igris::readline &rl, unsigned cap, std::string *why)
    {
        size_t n = rl.history_size();
        for (size_t i = 0; i < n; i++)
            if (strnlen(rl.history_pointer((int)i), cap) >= cap)
            {
                *why = mc::fmt("history entry at distance %zu is not terminated inside its %u bytes", i, cap);
                return false;
            }
        return true;
    }
#endif

    struct XReadline
    {
        static const char *flavour() { return "cxx"; }
        static constexpr bool public_only = PUBLIC_ONLY;
        igris::readline rl;
        unsigned cap;
        XReadline(unsigned cap_, unsigned hist) : cap(cap_)
        {
            rl.init(cap, hist);
            memset(rl.line().data(), 0x55, cap);
        }
        bool put(char c) { return rl.newdata(c) == READLINE_NEWLINE; }
        int linecpy(char *dst, size_t max) { return rl.linecpy(dst, max); }
        void newline_reset() { rl.newline_reset(); }
        unsigned len() { return (unsigned)rl.line().current_size(); }
        unsigned cursor() { return (unsigned)rl.line().current_size() - rl.line().rightsize(); }
        const char *data() { return rl.line().data(); }
        void privkey(std::string &k) { rl_privkey(k, rl, cap); }
        bool indices_ok(std::string *why) { return rl_indices_ok(rl, cap, why); }
    };

    void cb_exec(void *p, const char *line, unsigned int len) { ((c15::Sink *)p)->on_exec(line, len); }
    void cb_write(void *p, const char *d, unsigned int n) { ((c15::Sink *)p)->on_write(d, n); }
    void cb_signal(void *p, int s) { ((c15::Sink *)p)->on_signal(s); }

    struct XVterm
    {
        static const char *flavour() { return "cxx"; }
        static constexpr bool public_only = PUBLIC_ONLY, has_line = !PUBLIC_ONLY;
        igris::vtermxx vt;
        unsigned cap;
        static int sigint() { return SIGINT; }
        XVterm(unsigned cap_, unsigned hist, c15::Sink *sink, const c15::TermCfg &cfg = c15::TermCfg(),
               const char *prompt = nullptr)
            : cap(cap_)
        {
            if (cfg.echo == 3)
                vt.set_echo(0); // before init: init switches it on again
            if (prompt && cfg.prompt_before_init())
                vt.set_prompt(prompt);
            vt.init(cap, hist);
#ifndef C15_PUBLIC_ONLY
            memset(vt.rl.line().data(), 0x55, cap);
#endif
            if (cfg.echo == 1 || cfg.echo == 2)
                vt.set_echo(0);
            if (cfg.echo == 4)
                vt.set_echo(1);
            if (prompt && !cfg.prompt_before_init())
                vt.set_prompt(prompt);
            if (cfg.execcb)
                vt.set_execute_callback(igris::make_delegate(cb_exec, (void *)sink));
            if (cfg.writecb())
                vt.set_write_callback(igris::make_delegate(cb_write, (void *)sink));
            if (cfg.sigcb)
                vt.set_signal_callback(igris::make_delegate(cb_signal, (void *)sink));
        }
        void feed(int c) { vt.newdata((int16_t)c); }
        void init_step() { vt.init_step(); }
#ifndef C15_PUBLIC_ONLY
        unsigned len() { return (unsigned)vt.rl.line().current_size(); }
        unsigned cursor() { return (unsigned)vt.rl.line().current_size() - vt.rl.line().rightsize(); }
        const char *data() { return vt.rl.line().data(); }
        void privkey(std::string &k)
        {
            k += (char)('0' + vt.state);
            rl_privkey(k, vt.rl, cap);
        }
        bool indices_ok(std::string *why) { return rl_indices_ok(vt.rl, cap, why); }
#else
        // igris::vtermxx exposes nothing but its callbacks
        unsigned len() { return 0; }
        unsigned cursor() { return 0; }
        const char *data() { return ""; }
        void privkey(std::string &) {}
        bool indices_ok(std::string *) { return true; }
#endif
    };
}

MC_INIT { c15::register_all<XSline, XReadline, XVterm>(); }
MC_MAIN
