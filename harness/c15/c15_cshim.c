/* compiled with the C compiler: the real static-inline code of datastruct/sline.h and
 * shell/readline.h behind plain external functions */
#include <igris/shell/readline.h>
#include "c15_cshim.h"

void c15_sline_init(struct sline *sl, char *buf, unsigned int cap) { sline_init(sl, buf, cap); }
int c15_sline_putchar(struct sline *sl, char c) { return sline_putchar(sl, c); }
int c15_sline_newdata(struct sline *sl, const char *d, int n) { return sline_newdata(sl, d, n); }
int c15_sline_backspace(struct sline *sl, unsigned int n) { return sline_backspace(sl, n); }
int c15_sline_delete(struct sline *sl, unsigned int n) { return sline_delete(sl, n); }
int c15_sline_left(struct sline *sl) { return sline_left(sl); }
int c15_sline_right(struct sline *sl) { return sline_right(sl); }
void c15_sline_reset(struct sline *sl) { sline_reset(sl); }
const char *c15_sline_getline(struct sline *sl) { return sline_getline(sl); }
unsigned int c15_sline_size(struct sline *sl) { return (unsigned int)sline_size(sl); }
unsigned int c15_sline_rightsize(struct sline *sl) { return sline_rightsize(sl); }

void c15_readline_init(struct readline *rl, char *buf, unsigned int cap, char *hs, int hsize)
{
    readline_init(rl, buf, cap);
    readline_history_init(rl, hs, hsize);
}
int c15_readline_putchar(struct readline *rl, char c) { return readline_putchar(rl, c); }
int c15_readline_is_newline(int retcode) { return retcode == READLINE_NEWLINE; }
int c15_readline_linecpy(struct readline *rl, char *dst, unsigned long max) { return readline_linecpy(rl, dst, max); }
void c15_readline_newline_reset(struct readline *rl) { readline_newline_reset(rl); }
