// C15, C flavour: igris/datastruct/sline.h, igris/shell/readline.h (through c15_cshim.c, built by
// the C compiler) and igris/shell/vterm.c. Line and history buffers are exactly-sized heap
// blocks, so a write at buf[cap] or past the last history slot is an ASan report.
#include "c15_cshim.h"
#include "c15_models.hpp"
#include <igris/defs/signal.h>
#include <igris/shell/vterm.h>

namespace
{
    struct CSline
    {
        static const char *flavour() { return "c"; }
        struct sline sl;
        char *buf;
        explicit CSline(unsigned cap) : buf((char *)malloc(cap))
        {
            memset(&sl, 0, sizeof sl);
            memset(buf, 0x55, cap);
            c15_sline_init(&sl, buf, cap);
        }
        ~CSline() { free(buf); }
        int putchar(char c) { return c15_sline_putchar(&sl, c); }
        int newdata(const char *d, int k) { return c15_sline_newdata(&sl, d, k); }
        int backspace(unsigned k) { return c15_sline_backspace(&sl, k); }
        int del(unsigned k) { return c15_sline_delete(&sl, k); }
        int left() { return c15_sline_left(&sl); }
        int right() { return c15_sline_right(&sl); }
        void reset() { c15_sline_reset(&sl); }
        const char *getline() { return c15_sline_getline(&sl); }
        unsigned len() { return c15_sline_size(&sl); }
        unsigned cursor() { return c15_sline_size(&sl) - c15_sline_rightsize(&sl); }
        const char *data() { return sl.buf; }
    };

    // fields of struct readline that the next byte can read, position-independent
    void rl_privkey(std::string &k, struct readline *rl, unsigned cap)
    {
        char b[64];
        snprintf(b, sizeof b, ",%d,%d,%u,%u", rl->state, (int)rl->last, (unsigned)rl->headhist, (unsigned)rl->curhist);
        k += b;
        for (unsigned i = 0; i < rl->history_size; i++)
        {
            const char *p = rl->history_space + i * cap;
            k += '/';
            k.append(p, strnlen(p, cap));
        }
    }
    bool rl_indices_ok(struct readline *rl, unsigned cap, std::string *why)
    {
        if (rl->headhist >= rl->history_size || rl->curhist > rl->history_size)
        {
            *why = mc::fmt("history indices out of range: headhist=%u curhist=%u history_size=%u", (unsigned)rl->headhist,
                           (unsigned)rl->curhist, (unsigned)rl->history_size);
            return false;
        }
        for (unsigned i = 0; i < rl->history_size; i++)
            if (strnlen(rl->history_space + i * cap, cap) >= cap)
            {
                *why = mc::fmt("history slot %u is not terminated inside its %u bytes", i, cap);
                return false;
            }
        return true;
    }

    struct CReadline
    {
        static const char *flavour() { return "c"; }
        static constexpr bool public_only = false; // struct readline / struct vterm_automate are public C structs
        struct readline rl;
        unsigned cap;
        char *buf, *hs;
        CReadline(unsigned cap_, unsigned hist) : cap(cap_), buf((char *)malloc(cap_)), hs((char *)malloc(cap_ * hist))
        {
            memset(&rl, 0, sizeof rl);
            memset(buf, 0x55, cap);
            memset(hs, 0x55, cap * hist);
            c15_readline_init(&rl, buf, cap, hs, (int)hist);
        }
        ~CReadline()
        {
            free(buf);
            free(hs);
        }
        bool put(char c) { return c15_readline_is_newline(c15_readline_putchar(&rl, c)); }
        int linecpy(char *dst, size_t max) { return c15_readline_linecpy(&rl, dst, max); }
        void newline_reset() { c15_readline_newline_reset(&rl); }
        unsigned len() { return c15_sline_size(&rl.line); }
        unsigned cursor() { return c15_sline_size(&rl.line) - c15_sline_rightsize(&rl.line); }
        const char *data() { return rl.line.buf; }
        void privkey(std::string &k) { rl_privkey(k, &rl, cap); }
        bool indices_ok(std::string *why) { return rl_indices_ok(&rl, cap, why); }
    };

    void cb_exec(void *p, const char *line, unsigned int len) { ((c15::Sink *)p)->on_exec(line, len); }
    void cb_write(void *p, const char *d, unsigned int n) { ((c15::Sink *)p)->on_write(d, n); }
    void cb_signal(void *p, int s) { ((c15::Sink *)p)->on_signal(s); }

    struct CVterm
    {
        static const char *flavour() { return "c"; }
        static constexpr bool public_only = false, has_line = true;
        struct vterm_automate vt;
        unsigned cap;
        char *buf, *hs;
        static int sigint() { return SIGINT; }
        // struct vterm_automate has no setters for echo and prompt: the public fields are the interface
        CVterm(unsigned cap_, unsigned hist, c15::Sink *sink, const c15::TermCfg &cfg = c15::TermCfg(),
               const char *prompt = nullptr)
            : cap(cap_), buf((char *)malloc(cap_)), hs((char *)malloc(cap_ * hist))
        {
            memset(&vt, 0, sizeof vt);
            memset(buf, 0x55, cap);
            memset(hs, 0x55, cap * hist);
            if (cfg.echo == 3)
                vt.echo = 0; // before init: init switches it on again
            if (prompt && cfg.prompt_before_init())
                vt.prefix_string = prompt;
            vterm_automate_init(&vt, buf, cap, hs, hist);
            if (cfg.echo == 1 || cfg.echo == 2)
                vt.echo = 0;
            if (cfg.echo == 4)
                vt.echo = 1;
            if (prompt && !cfg.prompt_before_init())
                vt.prefix_string = prompt;
            if (cfg.execcb)
                vterm_set_execute_callback(&vt, cb_exec, sink);
            if (cfg.writecb())
                vterm_set_write_callback(&vt, cb_write, sink);
            if (cfg.sigcb)
                vterm_set_signal_callback(&vt, cb_signal, sink);
        }
        ~CVterm()
        {
            free(buf);
            free(hs);
        }
        void feed(int c) { vterm_automate_newdata(&vt, (int16_t)c); }
        void init_step() { vterm_automate_init_step(&vt); }
        unsigned len() { return c15_sline_size(&vt.rl.line); }
        unsigned cursor() { return c15_sline_size(&vt.rl.line) - c15_sline_rightsize(&vt.rl.line); }
        const char *data() { return vt.rl.line.buf; }
        void privkey(std::string &k)
        {
            k += (char)('0' + vt.state);
            rl_privkey(k, &vt.rl, cap);
        }
        bool indices_ok(std::string *why) { return rl_indices_ok(&vt.rl, cap, why); }
    };
}

MC_INIT { c15::register_all<CSline, CReadline, CVterm>(); }
MC_MAIN
