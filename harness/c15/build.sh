#!/bin/bash
# Executables: readline.h and readlinexx.h (and vterm.h / vtermxx.h) share include guards, so the C
# and the C++ flavour are separate programs; each is built a second time with -DNDEBUG (release
# mode: assert() and everything hanging on it vanish) and re-runs a cheap selection of sub-checks.
set -e
. $MC/par.sh
H=$VERIF/harness/c15
SAN="-O1 -g -fsanitize=address -fno-omit-frame-pointer"
# harness TUs only: no fake-stack frames (the factory and every step run per transition)
HX="--param asan-use-after-return=0"

# C++ harness TU: the full build reads a few private members by name (-fno-access-control). If that
# does not compile (a private member was renamed - a behaviour-preserving change), fall back to
# public observers only; a failure of the fallback as well is a real build failure.
build_xx() { # $1 = object suffix, $2.. = extra flags
  local sfx=$1; shift
  local CXX="-std=c++20 $SAN $* -I$REPO -I$MC -I$H"
  if g++ -c $CXX $HX -fno-access-control $H/c15_xx.cpp -o $BUILD/h_xx$sfx.o 2> $BUILD/h_xx_full$sfx.log; then return 0; fi
  g++ -c $CXX $HX -DC15_PUBLIC_ONLY $H/c15_xx.cpp -o $BUILD/h_xx$sfx.o || { cat $BUILD/h_xx_full$sfx.log; return 1; }
  [ -n "$sfx" ] || echo "NOTE: private state names changed, key built from public observers + reference state" >> $BUILD/notes.txt
}
objects() { # $1 = object suffix, $2.. = extra flags for every TU that contains repository code
  local sfx=$1; shift
  local CXX="-std=c++20 $SAN $* -I$REPO -I$MC -I$H" CC="$SAN $* -I$REPO -I$H"
  par g++ -c $CXX $HX $H/c15_c.cpp -o $BUILD/h_c$sfx.o
  par build_xx "$sfx" $*
  par g++ -c $CXX $REPO/igris/shell/vtermxx.cpp -o $BUILD/vtermxx$sfx.o
  par gcc -c $CC $H/c15_cshim.c -o $BUILD/cshim$sfx.o
  par gcc -c $CC $REPO/igris/shell/vterm.c -o $BUILD/vterm$sfx.o
  par gcc -c $CC $REPO/igris/util/numconvert.c -o $BUILD/numconvert$sfx.o
}
objects ""
objects _nd -DNDEBUG
par gcc -c -O1 -I$REPO $REPO/igris/dprint/dprint_func_impl.c -o $BUILD/dprint.o
par gcc -c -O1 -I$REPO $REPO/igris/dprint/dprint_stub.c -o $BUILD/dstub.o
par g++ -std=c++20 -O2 -c -I$MC $MC/mc.cpp -o $BUILD/mc.o
parwait
for sfx in "" _nd; do
  COMMON="$BUILD/numconvert$sfx.o $BUILD/dprint.o $BUILD/dstub.o $BUILD/mc.o"
  par g++ -fsanitize=address $BUILD/h_c$sfx.o $BUILD/cshim$sfx.o $BUILD/vterm$sfx.o $COMMON -lm -o $BUILD/c15_c$sfx
  par g++ -fsanitize=address $BUILD/h_xx$sfx.o $BUILD/vtermxx$sfx.o $COMMON -lm -o $BUILD/c15_xx$sfx
done
parwait
# the cheap NDEBUG runs go first: ./check gives each run an equal share of what is left of the deadline
SEL="sline_cap2to5,_big_,cfg_matrix,vterm_keys_cap3"
{
  echo "c_ndebug $BUILD/c15_c_nd --only $SEL"
  echo "cxx_ndebug $BUILD/c15_xx_nd --only $SEL"
  echo "c $BUILD/c15_c"
  echo "cxx $BUILD/c15_xx"
} > $BUILD/runs.txt
