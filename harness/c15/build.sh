#!/bin/bash
# Two executables: readline.h and readlinexx.h (and vterm.h / vtermxx.h) share include guards.
set -e
. $MC/par.sh
H=$VERIF/harness/c15
SAN="-O1 -g -fsanitize=address -fno-omit-frame-pointer"
CXX="-std=c++17 $SAN -I$REPO -I$MC -I$H"
# harness TUs only: no fake-stack frames (the factory and every step run per transition)
HX="--param asan-use-after-return=0"
CC="$SAN -I$REPO -I$H"
par g++ -c $CXX $HX $H/c15_c.cpp -o $BUILD/h_c.o
# C++ harness TU: full build reads a few private members by name (-fno-access-control). If that
# does not compile (a private member was renamed - a behaviour-preserving change), fall back to
# public observers only; a failure of the fallback as well is a real build failure.
build_xx() {
  if g++ -c $CXX $HX -fno-access-control $H/c15_xx.cpp -o $BUILD/h_xx.o 2> $BUILD/h_xx_full.log; then return 0; fi
  g++ -c $CXX $HX -DC15_PUBLIC_ONLY $H/c15_xx.cpp -o $BUILD/h_xx.o || { cat $BUILD/h_xx_full.log; return 1; }
  echo "NOTE: private state names changed, key built from public observers + reference state" >> $BUILD/notes.txt
}
par build_xx
par g++ -c $CXX $REPO/igris/shell/vtermxx.cpp -o $BUILD/vtermxx.o
par gcc -c $CC $H/c15_cshim.c -o $BUILD/cshim.o
par gcc -c $CC $REPO/igris/shell/vterm.c -o $BUILD/vterm.o
par gcc -c $CC $REPO/igris/util/numconvert.c -o $BUILD/numconvert.o
par gcc -c -O1 -I$REPO $REPO/igris/dprint/dprint_func_impl.c -o $BUILD/dprint.o
par gcc -c -O1 -I$REPO $REPO/igris/dprint/dprint_stub.c -o $BUILD/dstub.o
par g++ -std=c++17 -O2 -c -I$MC $MC/mc.cpp -o $BUILD/mc.o
parwait
COMMON="$BUILD/numconvert.o $BUILD/dprint.o $BUILD/dstub.o $BUILD/mc.o"
par g++ -fsanitize=address $BUILD/h_c.o $BUILD/cshim.o $BUILD/vterm.o $COMMON -lm -o $BUILD/c15_c
par g++ -fsanitize=address $BUILD/h_xx.o $BUILD/vtermxx.o $COMMON -lm -o $BUILD/c15_xx
parwait
echo "c $BUILD/c15_c" > $BUILD/runs.txt
echo "cxx $BUILD/c15_xx" >> $BUILD/runs.txt
