/* C15 — the C flavour's static-inline routines, compiled as C (c15_cshim.c) and exported
 * under c15_ names so that the C++ harness TU drives code built by the C compiler. */
#ifndef C15_CSHIM_H
#define C15_CSHIM_H
#ifdef __cplusplus
extern "C" {
#endif
struct sline;
struct readline;
void c15_sline_init(struct sline *sl, char *buf, unsigned int cap);
int c15_sline_putchar(struct sline *sl, char c);
int c15_sline_newdata(struct sline *sl, const char *d, int n);
int c15_sline_backspace(struct sline *sl, unsigned int n);
int c15_sline_delete(struct sline *sl, unsigned int n);
int c15_sline_left(struct sline *sl);
int c15_sline_right(struct sline *sl);
void c15_sline_reset(struct sline *sl);
const char *c15_sline_getline(struct sline *sl);
unsigned int c15_sline_size(struct sline *sl);
unsigned int c15_sline_rightsize(struct sline *sl);

void c15_readline_init(struct readline *rl, char *buf, unsigned int cap, char *hs, int hsize);
int c15_readline_putchar(struct readline *rl, char c);
int c15_readline_is_newline(int retcode);
int c15_readline_linecpy(struct readline *rl, char *dst, unsigned long max);
void c15_readline_newline_reset(struct readline *rl);
#ifdef __cplusplus
}
#endif
#endif
