// C15 — the three BFS layers, generic over a flavour adapter (C: sline.h/readline.h/vterm.c,
// C++: container/sline.h, readlinexx.h, vtermxx.cpp). Included by c15_c.cpp and c15_xx.cpp.
//
// Adapter concepts (see the two TUs):
//   SL : SL(cap); putchar/newdata/backspace/del/left/right -> int (NORET if the flavour returns
//        nothing); reset(); getline(); len(); cursor(); data()
//   RL : RL(cap,hist); put(c) -> true if the byte ended a line; linecpy(dst,max); newline_reset();
//        len(); cursor(); data(); privkey(); indices_ok(why)
//   VT : VT(cap,hist,Sink*); feed(c); init_step(); len(); cursor(); data(); privkey(); indices_ok(why)
//   RL and VT carry `public_only` (the C++ flavour built with -DC15_PUBLIC_ONLY after a rename of
//   private members, see build.sh) and VT `has_line` (false when the terminal's line cannot be read).
#pragma once
#include "c15_ref.hpp"
#include "mc.hpp"
#include <algorithm>
#include <cstdlib>
#include <cstring>
#include <memory>
#include <string>
#include <sys/mman.h>
#include <vector>

namespace c15
{
    static const int NORET = -1000;

    inline std::string vis(const std::string &s)
    {
        std::string o;
        for (unsigned char c : s)
        {
            if (c >= 0x20 && c < 0x7f)
                o += (char)c;
            else
                o += mc::fmt("\\x%02x", c);
        }
        return o;
    }
    inline std::string bytename(int c)
    {
        switch (c)
        {
        case 3:
            return "^C";
        case 8:
            return "BS";
        case 27:
            return "ESC";
        case '\r':
            return "CR";
        case '\n':
            return "LF";
        }
        return std::string(1, (char)c);
    }

    // exactly-sized heap copy: one byte of over-read is an ASan report
    struct Exact
    {
        char *p;
        Exact(const char *src, size_t n) : p((char *)malloc(n ? n : 1))
        {
            if (n)
                memcpy(p, src, n);
        }
        ~Exact() { free(p); }
    };

    // ================================================================ layer 1: sline
    template <class SL> struct SlineModel : mc::Model
    {
        struct Op
        {
            int kind; // 0 putchar 1 newdata 2 backspace 3 delete 4 left 5 right 6 reset 7 getline
            int arg;
        };
        unsigned cap;
        SL sl;
        ref::Line rf;
        std::vector<Op> ops;
        std::string pre;

        explicit SlineModel(unsigned cap_) : cap(cap_), sl(cap_)
        {
            rf.cap = cap;
            pre = std::string("C15.") + SL::flavour() + ".sline.";
            // the op list does not depend on the capacity (the engine names ops on a fresh model):
            // counts run to 6 = largest capacity + 1; a count above cap+1 is disabled for this cap
            ops.reserve(32);
            ops.push_back({0, 'a'});
            ops.push_back({0, 'b'});
            for (int kind = 1; kind <= 3; kind++)
                for (int k = 0; k <= 6; k++)
                    ops.push_back({kind, k});
            ops.push_back({4, 0});
            ops.push_back({5, 0});
            ops.push_back({6, 0});
            ops.push_back({7, 0});
        }
        int nops() override { return (int)ops.size(); }
        static const char *kname(int k)
        {
            static const char *n[] = {"putchar", "newdata", "backspace", "delete", "left", "right", "reset", "getline"};
            return n[k];
        }
        static std::string opstr(int kind, int arg)
        {
            if (kind == 0)
                return mc::fmt("putchar('%c')", arg);
            if (kind <= 3)
                return mc::fmt("%s(%d)", kname(kind), arg);
            return kname(kind);
        }
        std::string opname(int i) override { return opstr(ops[i].kind, ops[i].arg); }
        bool apply(int i) override
        {
            const Op &o = ops[i];
            if (o.kind >= 1 && o.kind <= 3 && o.arg > (int)cap + 1)
                return false;
            run(o.kind, o.arg);
            return true;
        }
        // bytes handed to newdata: c d e f ... (distinct neighbours, so a misplaced block shows)
        static const std::string &pattern()
        {
            static std::string p;
            if (p.empty())
                for (int i = 0; i < 600; i++)
                    p += (char)('c' + i % 20);
            return p;
        }
        // one operation on the real object and on the reference, all oracles; false = violation reported
        bool run(int kind, int arg)
        {
            const char *kn = kname(kind);
            mc::crash_context("%s%s", pre.c_str(), kn);
            bool mid = rf.midline();
            bool full = rf.room() == 0;
            int got = NORET, want = NORET;
            const char *gl = nullptr;
            switch (kind)
            {
            case 0:
                got = sl.putchar((char)arg);
                want = rf.putchar((char)arg);
                if (mid || full)
                    mc::nontrivial();
                mc::outcome(mc::fmt("putchar.%d%s", want, mid ? ".mid" : ""));
                break;
            case 1:
            {
                Exact d(pattern().data(), (size_t)arg);
                bool clamp = arg > (int)rf.room();
                got = sl.newdata(d.p, arg);
                want = rf.newdata(pattern().data(), arg);
                if (clamp || (mid && arg))
                    mc::nontrivial();
                mc::outcome(mc::fmt("newdata.%d.%s%s", want, clamp ? "clamped" : "fits", mid ? ".mid" : ""));
                break;
            }
            case 2:
                if ((unsigned)arg > rf.cur || (mid && arg))
                    mc::nontrivial();
                got = sl.backspace((unsigned)arg);
                want = rf.backspace((unsigned)arg);
                mc::outcome(mc::fmt("backspace.%d%s", want, mid ? ".mid" : ""));
                break;
            case 3:
                if ((unsigned)arg > rf.s.size() - rf.cur || (mid && arg))
                    mc::nontrivial();
                got = sl.del((unsigned)arg);
                want = rf.del((unsigned)arg);
                mc::outcome(mc::fmt("delete.%d", want));
                break;
            case 4:
                got = sl.left();
                want = rf.left();
                mc::outcome(mc::fmt("left.%d", want));
                break;
            case 5:
                got = sl.right();
                want = rf.right();
                mc::outcome(mc::fmt("right.%d", want));
                break;
            case 6:
                sl.reset();
                rf.reset();
                mc::outcome("reset");
                break;
            case 7:
                gl = sl.getline();
                if (full)
                    mc::nontrivial();
                mc::outcome(mc::fmt("getline.%zu", rf.s.size()));
                break;
            }
            unsigned len = sl.len(), cur = sl.cursor();
            if (!(cur <= len && len < cap))
            {
                if (kind == 1 && len == cap)
                    mc::violation(pre + "newdata.len_reaches_cap",
                                  "cap=%u: newdata(%d bytes) left len=%u cursor=%u; the line must stay shorter than its "
                                  "buffer (getline writes buf[len])",
                                  cap, arg, len, cur);
                else
                    mc::violation(pre + kn + ".bounds", "cap=%u: after %s len=%u cursor=%u violates 0<=cursor<=len<cap", cap,
                                  opstr(kind, arg).c_str(), len, cur);
                return false;
            }
            bool ok = true;
            if (len != rf.s.size() || memcmp(sl.data(), rf.s.data(), len) != 0 || cur != rf.cur)
            {
                mc::violation(pre + kn + ".content", "cap=%u: after %s line='%s' (len %u) cursor=%u, reference '%s' (len %zu) cursor=%u",
                              cap, opstr(kind, arg).c_str(), vis(std::string(sl.data(), len)).c_str(), len, cur,
                              vis(rf.s).c_str(), rf.s.size(), rf.cur);
                ok = false;
            }
            if (got != NORET && got != want)
            {
                mc::violation(pre + kn + ".retval", "cap=%u: %s returned %d, reference %d", cap, opstr(kind, arg).c_str(), got,
                              want);
                ok = false;
            }
            if (gl)
            {
                // the terminator must be in place and inside the buffer (ASan watches the write)
                if (strnlen(gl, cap) != rf.s.size() || memcmp(gl, rf.s.data(), rf.s.size()) != 0)
                {
                    mc::violation(pre + "getline.text", "cap=%u: getline() gave '%s', reference '%s'", cap,
                                  vis(std::string(gl, strnlen(gl, cap))).c_str(), vis(rf.s).c_str());
                    ok = false;
                }
            }
            return ok;
        }
        std::string key() override
        {
            unsigned len = sl.len();
            std::string k(sl.data(), len <= cap ? len : cap);
            k += mc::fmt("|%u,%u#", len, sl.cursor());
            k += rf.s;
            k += (char)('0' + rf.cur);
            return k;
        }
    };

    // ================================================================ alphabets for layers 2 and 3
    struct Sym
    {
        std::string bytes;
        std::string name;
    };
    inline std::vector<Sym> make_raw_alphabet(bool with_ctrlc)
    {
        std::vector<Sym> v;
        const char raw[] = {'a', 8, 27, '[', 'A', 'B', 'C', 'D', '3', '~', '\r', '\n'};
        for (char c : raw)
            v.push_back({std::string(1, c), bytename(c)});
        if (with_ctrlc)
            v.push_back({std::string(1, (char)3), "^C"});
        return v;
    }
    inline std::vector<Sym> make_key_alphabet()
    {
        return {{"a", "a"},
                {"b", "b"},
                {"\x08", "Backspace"},
                {"\x1b[D", "Left"},
                {"\x1b[C", "Right"},
                {"\x1b[A", "Up"},
                {"\x1b[B", "Down"},
                {"\x1b[3~", "Delete"},
                {"\r", "CR"},
                {"\n", "LF"},
                {"\x03", "^C"}};
    }

    // built once per process: the factory runs for every transition
    inline const std::vector<Sym> &raw_alphabet(bool with_ctrlc)
    {
        static const std::vector<Sym> a = make_raw_alphabet(false), b = make_raw_alphabet(true);
        return with_ctrlc ? b : a;
    }
    inline const std::vector<Sym> &key_alphabet()
    {
        static const std::vector<Sym> a = make_key_alphabet();
        return a;
    }
    inline void report_outcome(const ref::Editor &e, ref::Ev ev, const char *cls)
    {
        if (ev == ref::EV_NEWLINE)
        {
            char b[40];
            snprintf(b, sizeof b, "%s.len%zu", cls, e.delivered.size());
            mc::outcome(b);
        }
        else
            mc::outcome(cls);
    }

    inline void mark(const ref::Editor &e, ref::Ev ev, unsigned char c, int dec_before)
    {
        bool nt = false;
        switch (ev)
        {
        case ref::EV_CHAR:
        case ref::EV_BS:
            nt = e.ev_midline;
            break;
        case ref::EV_CHAR_FULL:
        case ref::EV_PAIR_HALF:
        case ref::EV_UP:
        case ref::EV_DOWN:
        case ref::EV_DEL:
        case ref::EV_ESC_UNKNOWN:
            nt = true;
            break;
        case ref::EV_NEWLINE:
            nt = e.ev_after_pair || e.ev_hist_wrapped;
            break;
        case ref::EV_DEL_TERM:
            nt = c != '~';
            break;
        case ref::EV_CTRLC:
            nt = dec_before != 0 || e.ev_midline;
            break;
        default:
            break;
        }
        if (nt)
            mc::nontrivial();
    }

    // signature prefixes, built once per process
    inline const std::string &prefix(const char *flavour, const char *layer)
    {
        static std::string p[3];
        int i = layer[0] == 's' ? 0 : layer[0] == 'r' ? 1 : 2;
        if (p[i].empty())
            p[i] = std::string("C15.") + flavour + "." + layer + ".";
        return p[i];
    }

    // Fallback key (public_only): the hidden part of the implementation state (decoder state,
    // pairing byte, browse index) cannot be read, so states are merged only when the reference
    // state AND the last bytes typed agree - the hidden fields are set by the most recent input.
    static const int FALLBACK_SUFFIX = 2;
    inline void append_recent(std::string &k, unsigned recent)
    {
        k += '~';
        for (int i = FALLBACK_SUFFIX - 1; i >= 0; i--)
        {
            unsigned b = (recent >> (8 * i)) & 0xff; // two printable characters per byte
            k += (char)('@' + b % 64);
            k += (char)('@' + b / 64);
        }
    }

    // ---- configuration of the terminal object: every public setter / flag is a dimension
    struct TermCfg
    {
        int echo = 0;   // 0 default (on), 1 off after init, 2 off after init and no write callback registered,
                        // 3 set off BEFORE init (init re-enables it), 4 set on after init
        int prompt = 0; // 0 default "$ ", 1..5 set after init (lengths 0,1,2,3,8), 6 set BEFORE init (init resets it)
        bool sigcb = true;  // signal callback registered
        bool execcb = true; // execute callback registered
        bool echo_on() const { return echo == 0 || echo == 3 || echo == 4; }
        bool writecb() const { return echo != 2; }
        const char *prompt_arg() const // what is handed to the setter (nullptr: setter not called)
        {
            static const char *t[] = {nullptr, "", ">", "# ", "ab>", "igris:> ", "xyz"};
            return t[prompt];
        }
        const char *prompt_expected() const { return prompt >= 1 && prompt <= 5 ? prompt_arg() : "$ "; }
        bool prompt_before_init() const { return prompt == 6; }
        bool is_default() const { return echo == 0 && prompt == 0 && sigcb && execcb; }
        std::string name() const
        {
            static const char *e[] = {"echo=default", "echo=off", "echo=off,no-write-cb", "echo=off-before-init", "echo=on-set"};
            std::string n = e[echo];
            if (prompt)
                n += mc::fmt(",prompt%s='%s'", prompt == 6 ? "-before-init" : "", prompt_arg());
            if (!sigcb)
                n += ",no-signal-cb";
            if (!execcb)
                n += ",no-execute-cb";
            return n;
        }
        int id() const { return ((echo * 7 + prompt) * 2 + (sigcb ? 1 : 0)) * 2 + (execcb ? 1 : 0); }
    };
    inline std::vector<TermCfg> all_term_cfgs()
    {
        std::vector<TermCfg> v;
        for (int e = 0; e < 5; e++)
            for (int p = 0; p < 7; p++)
                for (int s = 1; s >= 0; s--)
                    for (int x = 1; x >= 0; x--)
                    {
                        TermCfg c;
                        c.echo = e;
                        c.prompt = p;
                        c.sigcb = s;
                        c.execcb = x;
                        v.push_back(c);
                    }
        return v;
    }
    // the configurations explored by BFS (a covering selection; the tree check cfg_matrix runs all 140)
    inline const std::vector<TermCfg> &bfs_term_cfgs()
    {
        static std::vector<TermCfg> v;
        if (v.empty())
        {
            auto add = [&](int e, int p, bool s, bool x) {
                TermCfg c;
                c.echo = e;
                c.prompt = p;
                c.sigcb = s;
                c.execcb = x;
                v.push_back(c);
            };
            for (int e = 1; e < 5; e++)
                add(e, 0, true, true);
            for (int p = 1; p < 7; p++)
                add(0, p, true, true);
            add(1, 1, true, true);
            add(2, 2, true, true);
            add(1, 5, false, true);
            add(0, 0, false, true);
            add(0, 0, true, false);
            add(2, 4, false, false);
            add(4, 5, false, true);
            add(0, 1, true, false);
        }
        return v;
    }
    inline std::string cfg_suffix(const TermCfg *c) { return c && !c->is_default() ? " [" + c->name() + "]" : std::string(); }
    // a C string in a read-only mapping, its terminator flush against an inaccessible page
    struct ROString
    {
        unsigned char *base = nullptr;
        size_t maplen = 0;
        const char *p = nullptr;
        explicit ROString(const char *src, size_t n) // n bytes are copied (include the terminator yourself)
        {
            size_t pg = 4096, body = ((n + pg - 1) / pg + 1) * pg;
            maplen = body + pg;
            base = (unsigned char *)mmap(nullptr, maplen, PROT_READ | PROT_WRITE, MAP_PRIVATE | MAP_ANONYMOUS, -1, 0);
            char *d = (char *)base + body - n;
            memcpy(d, src, n);
            mprotect(base, body, PROT_READ);
            mprotect(base + body, pg, PROT_NONE);
            p = d;
        }
        ~ROString()
        {
            if (base)
                munmap(base, maplen);
        }
        ROString(const ROString &) = delete;
        ROString &operator=(const ROString &) = delete;
    };

    struct Where
    {
        unsigned cap, hist;
        unsigned char c;
        const TermCfg *cfg = nullptr;
        std::string str() const
        {
            return mc::fmt("cap=%u hist=%u%s byte %s", cap, hist, cfg_suffix(cfg).c_str(), bytename(c).c_str());
        }
    };

    // ================================================================ layer 2: readline alone
    template <class RL> struct ReadlineModel : mc::Model
    {
        unsigned cap, hist;
        RL rl;
        ref::Editor rf;
        const std::vector<Sym> *symp;
        const std::string &pre;
        unsigned recent = 0; // last bytes typed (fallback key only)

        ReadlineModel(unsigned cap_, unsigned hist_, bool /*keylevel*/ = false, TermCfg /*unused*/ = TermCfg())
            : cap(cap_), hist(hist_), rl(cap_, hist_), pre(prefix(RL::flavour(), "readline"))
        {
            rf.init(cap, hist);
            symp = &raw_alphabet(false);
        }
        int nops() override { return (int)symp->size(); }
        std::string opname(int i) override { return (*symp)[i].name; }

        bool step(unsigned char c) // false: a violation was reported
        {
            int dec_before = rf.dec;
            recent = (recent << 8) | c;
            bool nl = rl.put((char)c);
            ref::Ev ev = rf.feed((char)c);
            const char *cls = ref::evclass(rf, ev);
            mark(rf, ev, c, dec_before);
            report_outcome(rf, ev, cls);
            Where w{cap, hist, c}; // formatted only when a violation is reported
            if (nl != (ev == ref::EV_NEWLINE))
            {
                if (nl)
                    mc::violation(pre + "exec_extra." + cls, "%s: a line was ended, the reference editor ends none here",
                                  w.str().c_str());
                else
                    mc::violation(pre + "exec_missing." + cls,
                                  "%s: no line was ended, the reference editor delivers '%s' here", w.str().c_str(),
                                  vis(rf.delivered).c_str());
                return false;
            }
            unsigned len = rl.len(), cur = rl.cursor();
            if (!(cur <= len && len < cap))
            {
                mc::violation(pre + "bounds." + cls, "%s: len=%u cursor=%u violates 0<=cursor<=len<cap", w.str().c_str(), len, cur);
                return false;
            }
            std::string why;
            if (!rl.indices_ok(&why))
            {
                mc::violation(pre + "hist_index." + cls, "%s: %s", w.str().c_str(), why.c_str());
                return false;
            }
            if (nl)
            {
                // the outer layer takes the line with linecpy into exactly-sized buffers, then resets
                for (unsigned max : {cap, 1u, 2u})
                {
                    char *dst = (char *)malloc(max);
                    memset(dst, 0x55, max);
                    int n = rl.linecpy(dst, max);
                    std::string want = rf.delivered.substr(0, max - 1);
                    if (n != (int)want.size() || strnlen(dst, max) != want.size() || memcmp(dst, want.data(), want.size()))
                        mc::violation(pre + (max == cap ? "exec_text." : "linecpy_trunc.") + cls,
                                      "%s: linecpy(max=%u) gave '%s' (returned %d), reference line '%s'", w.str().c_str(), max,
                                      vis(std::string(dst, strnlen(dst, max))).c_str(), n, vis(want).c_str());
                    free(dst);
                }
                rl.newline_reset();
                rf.newline_reset();
                len = rl.len();
                cur = rl.cursor();
            }
            std::string text(rl.data(), len);
            if (text != rf.line.s)
            {
                mc::violation(pre + "line." + cls, "%s: line is '%s', reference '%s'", w.str().c_str(), vis(text).c_str(),
                              vis(rf.line.s).c_str());
                return false;
            }
            if (cur != rf.line.cur)
            {
                mc::violation(pre + "cursor." + cls, "%s: line '%s' cursor=%u, reference cursor=%u", w.str().c_str(),
                              vis(text).c_str(), cur, rf.line.cur);
                return false;
            }
            return true;
        }
        bool apply(int i) override
        {
            mc::crash_context("%scrash.%s", pre.c_str(), (*symp)[i].name.c_str());
            for (unsigned char c : (*symp)[i].bytes)
                if (!step(c))
                    break;
            return true;
        }
        std::string key() override
        {
            unsigned len = rl.len();
            std::string k;
            k.reserve(96);
            k.assign(rl.data(), len <= cap ? len : cap);
            k += '|';
            k += (char)('0' + len);
            k += (char)('0' + rl.cursor());
            rl.privkey(k);
            k += '#';
            k += rf.key();
            if (RL::public_only)
                append_recent(k, recent);
            return k;
        }
    };

    // ================================================================ layer 3: terminal automaton
    struct Sink
    {
        int sigcalls = 0, lastsig = 0;
        void on_signal(int s)
        {
            sigcalls++;
            lastsig = s;
        }
        std::vector<std::string> exec;
        bool exec_unterminated = false;
        ref::Screen scr;
        std::string echoed;
        void on_exec(const char *line, unsigned len)
        {
            exec.push_back(std::string(line, len));
            if (line[len] != 0) // (line,len): the line is handed over as a C string of that length
                exec_unterminated = true;
        }
        void on_write(const char *p, unsigned n)
        {
            echoed.append(p, n);
            scr.feed(p, n);
        }
    };

    template <class VT> struct VtermModel : mc::Model
    {
        unsigned cap, hist;
        TermCfg cfg;
        Sink sink;
        std::unique_ptr<Exact> pheap;
        std::unique_ptr<ROString> prom;
        VT vt;
        ref::Editor rf;
        const std::vector<Sym> *symp;
        const std::string &pre;
        std::string prompt; // what the screen must show in front of the line
        unsigned recent = 0; // last bytes typed (fallback key only)

        // the prompt handed to the setter lives in an exactly-sized heap block (BFS) or in a read-only
        // mapping (tree checks); declared before vt, which receives the pointer in its constructor
        static const char *store_prompt(const TermCfg &c, bool ro, std::unique_ptr<Exact> &heap, std::unique_ptr<ROString> &rom)
        {
            const char *t = c.prompt_arg();
            if (!t)
                return nullptr;
            if (ro)
            {
                rom.reset(new ROString(t, strlen(t) + 1));
                return rom->p;
            }
            heap.reset(new Exact(t, strlen(t) + 1));
            return heap->p;
        }
        VtermModel(unsigned cap_, unsigned hist_, bool keylevel, TermCfg cfg_ = TermCfg(), bool ro_prompt = false)
            : cap(cap_), hist(hist_), cfg(cfg_), vt(cap_, hist_, &sink, cfg_, store_prompt(cfg_, ro_prompt, pheap, prom)),
              pre(prefix(VT::flavour(), "vterm")), prompt(cfg_.prompt_expected())
        {
            rf.init(cap, hist);
            symp = keylevel ? &key_alphabet() : &raw_alphabet(true);
            if ((int)(cap + 16) > sink.scr.w) // large capacities: prompt + cap + '^C' + margin
                sink.scr.w = (int)(cap + 16) < (int)ref::Screen::MAXW ? (int)(cap + 16) : (int)ref::Screen::MAXW;
            mc::crash_context("%sinit_prompt", pre.c_str());
            vt.init_step(); // prompt
        }
        int nops() override { return (int)symp->size(); }
        std::string opname(int i) override { return (*symp)[i].name; }

        bool step(unsigned char c) // false: a violation was reported
        {
            int dec_before = rf.dec;
            recent = (recent << 8) | c;
            sink.exec.clear();
            sink.echoed.clear();
            sink.sigcalls = 0;
            vt.feed(c);
            vt.init_step(); // the C++ flavour prints the next prompt only on the following call
            ref::Ev ev = c == 3 ? rf.ctrlc() : rf.feed((char)c);
            const char *cls = ref::evclass(rf, ev);
            mark(rf, ev, c, dec_before);
            report_outcome(rf, ev, cls);
            Where w{cap, hist, c, &cfg}; // formatted only when a violation is reported
            // Ctrl-C raises SIGINT through the signal callback, once, when one is registered
            {
                int wantsig = (c == 3 && cfg.sigcb) ? 1 : 0;
                if (sink.sigcalls != wantsig || (wantsig && sink.lastsig != VT::sigint()))
                {
                    mc::violation(pre + "signal." + cls, "%s: signal callback called %d time(s) (last value %d), expected %d (SIGINT)",
                                  w.str().c_str(), sink.sigcalls, sink.lastsig, wantsig);
                    return false;
                }
            }
            // (a) lines handed to the execute callback
            if (!cfg.execcb)
            {
                // no execute callback registered: nobody receives the line, the editor carries on
                if (ev == ref::EV_NEWLINE)
                    rf.newline_reset();
            }
            else
            if (ev == ref::EV_NEWLINE)
            {
                if (sink.exec.empty())
                {
                    mc::violation(pre + "exec_missing." + cls,
                                  "%s: execute callback not called, the reference editor delivers '%s' here", w.str().c_str(),
                                  vis(rf.delivered).c_str());
                    return false;
                }
                if (sink.exec.size() > 1)
                {
                    mc::violation(pre + "exec_extra." + cls, "%s: execute callback called %zu times for one line end", w.str().c_str(),
                                  sink.exec.size());
                    return false;
                }
                if (sink.exec[0] != rf.delivered || sink.exec_unterminated)
                {
                    mc::violation(pre + "exec_text." + cls, "%s: executed '%s'%s, reference line '%s'", w.str().c_str(),
                                  vis(sink.exec[0]).c_str(), sink.exec_unterminated ? " (not terminated at len)" : "",
                                  vis(rf.delivered).c_str());
                    return false;
                }
                rf.newline_reset();
            }
            else if (!sink.exec.empty())
            {
                mc::violation(pre + "exec_extra." + cls, "%s: executed '%s', the reference editor ends no line here", w.str().c_str(),
                              vis(sink.exec[0]).c_str());
                return false;
            }
            std::string why;
            if (!vt.indices_ok(&why))
            {
                mc::violation(pre + "hist_index." + cls, "%s: %s", w.str().c_str(), why.c_str());
                return false;
            }
            if constexpr (VT::has_line)
            {
                // (c) bounds
                unsigned len = vt.len(), cur = vt.cursor();
                if (!(cur <= len && len < cap))
                {
                    mc::violation(pre + "bounds." + cls, "%s: len=%u cursor=%u violates 0<=cursor<=len<cap", w.str().c_str(), len,
                                  cur);
                    return false;
                }
                // line and cursor against the reference editor
                std::string text(vt.data(), len);
                if (text != rf.line.s)
                {
                    mc::violation(pre + "line." + cls, "%s: line is '%s', reference '%s'", w.str().c_str(), vis(text).c_str(),
                                  vis(rf.line.s).c_str());
                    return false;
                }
                if (cur != rf.line.cur)
                {
                    mc::violation(pre + "cursor." + cls, "%s: line '%s' cursor=%u, reference cursor=%u", w.str().c_str(),
                                  vis(text).c_str(), cur, rf.line.cur);
                    return false;
                }
            }
            // (without has_line the line and the cursor are observed through the screen row below and
            // through the execute callback only)
            // echo off: nothing may be written at all
            if (!cfg.echo_on())
            {
                if (!sink.echoed.empty())
                {
                    mc::violation(pre + "echo_off_output." + cls, "%s: echo is off but '%s' was written", w.str().c_str(),
                                  vis(sink.echoed).c_str());
                    return false;
                }
                return true;
            }
            // (b) echo replayed on the screen model
            if (!sink.scr.bad.empty())
            {
                mc::violation(pre + "screen_unmodelled." + cls, "%s: echo '%s': %s", w.str().c_str(), vis(sink.echoed).c_str(),
                              sink.scr.bad.c_str());
                return false;
            }
            if (sink.scr.st != 0)
            {
                mc::violation(pre + "screen_unfinished_seq." + cls, "%s: echo '%s' ends inside an escape sequence", w.str().c_str(),
                              vis(sink.echoed).c_str());
                return false;
            }
            std::string want = prompt + rf.line.s; // <= 15 chars in the BFS layers: no allocation
            int wantcol = (int)prompt.size() + (int)rf.line.cur;
            bool rowok = memcmp(sink.scr.row, want.data(), want.size()) == 0;
            for (size_t k = want.size(); rowok && k < (size_t)sink.scr.w; k++)
                rowok = sink.scr.row[k] == ' ';
            if (!rowok)
            {
                mc::violation(pre + "screen_row." + cls, "%s: echo '%s' leaves the screen row '%s' (cursor col %d); expected '%s'",
                              w.str().c_str(), vis(sink.echoed).c_str(), sink.scr.text().c_str(), sink.scr.col, want.c_str());
                return false;
            }
            if (sink.scr.col != wantcol)
            {
                mc::violation(pre + "screen_cursor." + cls,
                              "%s: echo '%s' leaves the screen cursor at column %d; expected %d (row '%s')", w.str().c_str(),
                              vis(sink.echoed).c_str(), sink.scr.col, wantcol, want.c_str());
                return false;
            }
            return true;
        }
        bool apply(int i) override
        {
            mc::crash_context("%scrash.%s", pre.c_str(), (*symp)[i].name.c_str());
            for (unsigned char c : (*symp)[i].bytes)
                if (!step(c))
                    break;
            return true;
        }
        // The screen is not part of the key: a state is only extended after the oracle found the
        // row equal to prompt+line, the cursor at len(prompt)+cursor and the parser at rest, so on
        // every stored state the screen is a function of the reference state.
        std::string key() override
        {
            std::string k;
            k.reserve(96);
            if constexpr (VT::has_line)
            {
                unsigned len = vt.len();
                k.assign(vt.data(), len <= cap ? len : cap);
                k += '|';
                k += (char)('0' + len);
                k += (char)('0' + vt.cursor());
            }
            vt.privkey(k);
            k += '#';
            k += rf.key();
            if (VT::public_only)
                append_recent(k, recent);
            return k;
        }
    };

    // ================================================================ registration
    // One universe per capacity; the first operation picks the history depth (1..3), so the three
    // configurations share the BFS levels (wider levels, far fewer fork phases). The engine's depth
    // bound therefore is 1 + the number of bytes/keys typed.
    struct Variant
    {
        unsigned hist;
        TermCfg cfg;
        std::string name;
    };
    inline const std::vector<Variant> &hist_variants()
    {
        static std::vector<Variant> v;
        if (v.empty())
            for (unsigned h = 1; h <= 3; h++)
                v.push_back({h, TermCfg(), mc::fmt("history_depth=%u", h)});
        return v;
    }
    // terminal configurations (history depth 2) for the configuration universes
    inline const std::vector<Variant> &cfg_variants()
    {
        static std::vector<Variant> v;
        if (v.empty())
            for (const TermCfg &c : bfs_term_cfgs())
                v.push_back({2, c, c.name()});
        return v;
    }
    template <class M> struct PickHist : mc::Model
    {
        unsigned cap;
        bool keylevel;
        int chosen = -1;
        std::unique_ptr<M> in;
        const std::vector<Sym> *symp;
        const std::vector<Variant> *vars;
        int nsym;
        PickHist(unsigned cap_, bool keylevel_, const std::vector<Sym> *s, const std::vector<Variant> *v = &hist_variants())
            : cap(cap_), keylevel(keylevel_), symp(s), vars(v), nsym((int)s->size())
        {
        }
        // ops 0..nsym-1: the alphabet (enabled once configured); nsym..: the configuration (history
        // depth, terminal settings; enabled only in the initial state). Names do not depend on the state.
        int nops() override { return nsym + (int)vars->size(); }
        std::string opname(int i) override { return i < nsym ? (*symp)[i].name : (*vars)[i - nsym].name; }
        bool apply(int i) override
        {
            if (!in)
            {
                if (i < nsym)
                    return false;
                chosen = i - nsym;
                in.reset(new M(cap, (*vars)[chosen].hist, keylevel, (*vars)[chosen].cfg));
                mc::outcome("config");
                return true;
            }
            if (i >= nsym)
                return false;
            return in->apply(i);
        }
        std::string key() override
        {
            if (!in)
                return "init";
            std::string k = in->key();
            k += (char)('0' + chosen);
            return k;
        }
    };
    template <class SL> struct PickCap : mc::Model
    {
        std::unique_ptr<SlineModel<SL>> in;
        SlineModel<SL> names{5}; // only for nops/opname
        unsigned cap = 0;
        int nops() override { return names.nops() + 4; }
        std::string opname(int i) override
        {
            return i < names.nops() ? names.opname(i) : mc::fmt("capacity=%d", i - names.nops() + 2);
        }
        bool apply(int i) override
        {
            int n = names.nops();
            if (!in)
            {
                if (i < n)
                    return false;
                cap = (unsigned)(i - n) + 2;
                in.reset(new SlineModel<SL>(cap));
                mc::outcome("config");
                return true;
            }
            if (i >= n)
                return false;
            return in->apply(i);
        }
        std::string key() override
        {
            if (!in)
                return "init";
            std::string k = in->key();
            k += (char)('0' + cap);
            return k;
        }
    };

    // ================================================================ large capacities (tree shape)
    // The BFS layers use capacities <= 5. The statement speaks about all capacities >= 2, and the
    // counters (cap/len/cursor, the distances given to ESC[nD) must not be narrower than the
    // line: these cases put the line, the cursor and the edit position on both sides of 127/128
    // and 255/256. One case = (capacity, characters typed, cursor position, action); every call /
    // byte inside the case is checked by the same oracles as in the BFS layers.
    struct BigCase
    {
        unsigned cap, fill, pos;
    };
    inline std::vector<BigCase> make_big_cases(bool sline)
    {
        static const unsigned caps[] = {127, 128, 255, 256, 257, 300};
        std::vector<BigCase> v;
        for (unsigned cap : caps)
        {
            std::vector<unsigned> fills = {cap + 3, cap - 1, cap - 2, 256, 255};
            if (sline)
            {
                fills.push_back(257);
                fills.push_back(254);
                fills.push_back(2);
                fills.push_back(0);
                if (cap - 1 > 254)
                    fills.push_back(cap - 1 - 254);
            }
            std::sort(fills.begin(), fills.end());
            fills.erase(std::unique(fills.begin(), fills.end()), fills.end());
            for (unsigned f : fills)
            {
                if (f > cap + 3)
                    continue;
                unsigned L = f < cap - 1 ? f : cap - 1; // what the line will hold
                std::vector<unsigned> ps = {0, 1, 126, 127, 128, 129, 253, 254, 255, 256, 257, 258, L};
                if (L)
                    ps.push_back(L - 1);
                std::sort(ps.begin(), ps.end());
                ps.erase(std::unique(ps.begin(), ps.end()), ps.end());
                for (unsigned p : ps)
                    if (p <= L)
                        v.push_back({cap, f, p});
            }
        }
        return v;
    }
    inline char big_letter(unsigned i) { return (char)('a' + i % 26); }

    template <class SL> void big_sline_body()
    {
        static const std::vector<BigCase> cases = make_big_cases(true);
        static const char *actname[] = {"putchar",        "backspace(1)",   "backspace(pos)", "backspace(600)", "delete(1)",
                                        "delete(rest)",   "delete(600)",    "newdata(1)",     "newdata(254)",   "newdata(255)",
                                        "newdata(256)",   "newdata(cap)",   "newdata(cap+1)", "getline",        "reset+bulk fill",
                                        "left/right sweep"};
        const int NACT = 16;
        BigCase bc = cases[mc::choose((int)cases.size())];
        int act = mc::choose(NACT);
        mc::describe("sline cap=%u: putchar x %u, left to position %u, then %s", bc.cap, bc.fill, bc.pos, actname[act]);
        SlineModel<SL> m(bc.cap);
        if (bc.fill > 126)
            mc::nontrivial();
        for (unsigned i = 0; i < bc.fill; i++) // the characters beyond cap-1 must be ignored
            if (!m.run(0, big_letter(i)))
                return;
        while (m.rf.cur > bc.pos)
            if (!m.run(4, 0))
                return;
        unsigned rest = (unsigned)m.rf.s.size() - m.rf.cur;
        bool ok = true;
        switch (act)
        {
        case 0:
            ok = m.run(0, 'X');
            break;
        case 1:
            ok = m.run(2, 1);
            break;
        case 2:
            ok = m.run(2, (int)bc.pos);
            break;
        case 3:
            ok = m.run(2, 600);
            break;
        case 4:
            ok = m.run(3, 1);
            break;
        case 5:
            ok = m.run(3, (int)rest);
            break;
        case 6:
            ok = m.run(3, 600);
            break;
        case 7:
            ok = m.run(1, 1);
            break;
        case 8:
            ok = m.run(1, 254);
            break;
        case 9:
            ok = m.run(1, 255);
            break;
        case 10:
            ok = m.run(1, 256);
            break;
        case 11:
            ok = m.run(1, (int)bc.cap);
            break;
        case 12:
            ok = m.run(1, (int)bc.cap + 1);
            break;
        case 13:
            ok = m.run(7, 0);
            break;
        case 14:
            ok = m.run(6, 0) && m.run(1, (int)bc.fill) && m.run(7, 0) && m.run(4, 0) && m.run(1, 3);
            break;
        case 15:
            for (int k = 0; k < 4 && ok; k++)
                ok = m.run(4, 0);
            for (int k = 0; k < 8 && ok; k++)
                ok = m.run(5, 0);
            break;
        }
        if (!ok)
            return;
        // the terminator lands inside the exactly-sized buffer; then walk to the end and back
        if (!m.run(7, 0))
            return;
        while (m.rf.cur < m.rf.s.size())
            if (!m.run(5, 0))
                return;
        if (!m.run(5, 0) || !m.run(4, 0) || !m.run(0, 'Y') || !m.run(7, 0))
            return;
        mc::outcome(mc::fmt("big.%s.cap%u", actname[act], bc.cap));
    }

    // M = ReadlineModel<RL> or VtermModel<VT>, history depth 2
    template <class M> void big_term_body(bool is_vterm)
    {
        static const std::vector<BigCase> cases = make_big_cases(false);
        static const char *actname[] = {"insert X",
                                        "Backspace",
                                        "Delete",
                                        "Right x6 Left x3",
                                        "Enter, second line, recall by Up/Down, Down from inside the long line, Enter",
                                        "Ctrl-C, q, Enter",
                                        "Enter(LF), Up, Backspace, Enter, Up, Up, Enter",
                                        "ESC x, CR LF, a, LF"};
        const int NACT = 8;
        BigCase bc = cases[mc::choose((int)cases.size())];
        int act = mc::choose(NACT);
        mc::describe("%s cap=%u hist=2: type %u characters, Left to position %u, then %s", is_vterm ? "vterm" : "readline", bc.cap,
                     bc.fill, bc.pos, actname[act]);
        M m(bc.cap, 2, false);
        mc::crash_context("%sbig.crash", m.pre.c_str());
        if (bc.fill > 126)
            mc::nontrivial();
        auto feed = [&](const char *p) {
            for (; *p; p++)
                if (!m.step((unsigned char)*p))
                    return false;
            return true;
        };
        auto rep = [&](const char *p, unsigned n) {
            for (unsigned i = 0; i < n; i++)
                if (!feed(p))
                    return false;
            return true;
        };
        for (unsigned i = 0; i < bc.fill; i++) // the characters beyond cap-1 must be ignored, echo included
            if (!m.step((unsigned char)big_letter(i)))
                return;
        while (m.rf.line.cur > bc.pos)
            if (!feed("\x1b[D"))
                return;
        bool ok = true;
        switch (act)
        {
        case 0:
            ok = feed("X") && feed("X");
            break;
        case 1:
            ok = feed("\x08") && feed("\x08");
            break;
        case 2:
            ok = feed("\x1b[3~") && feed("\x1b[3~");
            break;
        case 3:
            ok = rep("\x1b[C", 6) && rep("\x1b[D", 3);
            break;
        case 4:
            // the execute callback gets the whole long line; it is stored and recalled from an
            // exactly-sized history buffer; the last Down leaves a long line from inside it
            ok = feed("\r") && feed("zz\n") && feed("\x1b[A") && feed("\x1b[A") && feed("\x1b[A") && feed("\x1b[B") &&
                 feed("\x1b[A") && rep("\x1b[D", 3) && feed("\x1b[B") && feed("\r");
            break;
        case 5:
            ok = (is_vterm ? feed("\x03") : feed("\x08")) && feed("q\r");
            break;
        case 6:
            ok = feed("\n") && feed("\x1b[A") && feed("\x08") && feed("\r") && feed("\x1b[A") && feed("\x1b[A") && feed("\n");
            break;
        case 7:
            ok = feed("\x1bx") && feed("\r\n") && feed("a\n");
            break;
        }
        if (!ok)
            return;
        // walk to the end of whatever line is there, one more Right (clamped), type one more character
        while (m.rf.line.cur < m.rf.line.s.size())
            if (!feed("\x1b[C"))
                return;
        if (!feed("\x1b[C") || !feed("Y") || !feed("\r"))
            return;
        mc::outcome(mc::fmt("big.act%d.cap%u", act, bc.cap));
    }

    // ================================================================ configuration matrix (tree shape)
    // All 140 combinations of (echo setting x prompt setting x signal callback x execute callback),
    // history depth 1 and 2, capacity 3, each with four scripted key sequences; the prompt given to
    // the setter sits in a read-only mapping with its terminator against an inaccessible page. A
    // second terminal with another configuration is alive and typed into between the steps (state
    // shared between objects would show in one of the two).
    template <class VT> void cfg_matrix_body()
    {
        static const std::vector<TermCfg> cfgs = all_term_cfgs();
        static const char *scripts[] = {
            "ab\rc\n\x1b[A\x1b[A\x1b[B\r\r\n",                   // lines, history walk, CR / CRLF
            "ab\x1b[Dc\x03" "d\r\x03\x03" "a\n",                    // mid-line insert, Ctrl-C, Ctrl-C on an empty line
            "abc\x08\x1b[D\x1b[3~\r\x1b\x03[A\x03\n",             // full line, BS, Delete, Ctrl-C inside an escape sequence
            "a\rb\r\x1b[A\x1b[D\x1b[Ax\x1b[B\x03\x1b[A\r",       // recall from mid-line, Ctrl-C while browsing, recall again
        };
        const int NS = 4;
        int c0 = mc::choose((int)cfgs.size() * 2);
        int sc = mc::choose(NS);
        TermCfg cfg = cfgs[c0 / 2];
        unsigned hist = 1 + (unsigned)(c0 % 2);
        mc::describe("vterm cap=3 hist=%u [%s] script %d (second terminal alive)", hist, cfg.name().c_str(), sc);
        VtermModel<VT> m(3, hist, false, cfg, true);
        TermCfg other = cfgs[(c0 / 2 * 37 + 11) % cfgs.size()];
        VtermModel<VT> d(4, 2, false, other, true);
        mc::crash_context("%scfg.crash", m.pre.c_str());
        if (!cfg.is_default())
            mc::nontrivial();
        unsigned k = 0;
        static const char decoy[] = "xy\x1b[D\x03z\r\x1b[A\n";
        for (const char *p = scripts[sc]; *p; p++)
        {
            if (!m.step((unsigned char)*p))
                return;
            if (!d.step((unsigned char)decoy[k++ % (sizeof decoy - 1)]))
                return;
        }
        mc::outcome(mc::fmt("cfg.%d.%d", cfg.id(), sc));
    }

    struct Depth
    {
        int quick, thorough;
    };
    // bytes typed after the configuration choice, by line capacity (index cap-2)
    static const Depth RAW_DEPTH[4] = {{6, 8}, {6, 8}, {5, 7}, {5, 6}};    // terminal automaton
    static const Depth RL_RAW_DEPTH[3] = {{6, 8}, {5, 7}, {5, 6}};          // decoder alone (subsumed by the above)
    static const Depth KEY_DEPTH[4] = {{9, 12}, {9, 12}, {9, 12}, {9, 12}};

    template <class SL, class RL, class VT> void register_all()
    {
        std::string f = SL::flavour();
        mc::add_bfs(f + "_sline_cap2to5", [] { return std::unique_ptr<mc::Model>(new PickCap<SL>()); });
        mc::add_check(f + "_big_sline", [] { big_sline_body<SL>(); });
        mc::add_check(f + "_big_readline", [] { big_term_body<ReadlineModel<RL>>(false); });
        mc::add_check(f + "_big_vterm", [] { big_term_body<VtermModel<VT>>(true); });
        mc::add_check(f + "_cfg_matrix", [] { cfg_matrix_body<VT>(); });
        {
            // terminal configurations as the first operation of a BFS (history depth 2)
            mc::BfsOpts o;
            o.depth_quick = 1 + 8;
            o.depth_thorough = 1 + 10;
            o.max_states = 12000000;
            mc::add_bfs(f + "_vterm_cfg_keys_cap3",
                        [] {
                            return std::unique_ptr<mc::Model>(
                                new PickHist<VtermModel<VT>>(3, true, &key_alphabet(), &cfg_variants()));
                        },
                        o);
            o.depth_quick = 1 + 5;
            o.depth_thorough = 1 + 7;
            mc::add_bfs(f + "_vterm_cfg_raw_cap2",
                        [] {
                            return std::unique_ptr<mc::Model>(
                                new PickHist<VtermModel<VT>>(2, false, &raw_alphabet(true), &cfg_variants()));
                        },
                        o);
        }
        for (unsigned cap = 2; cap <= 4; cap++)
        {
            mc::BfsOpts o;
            o.depth_quick = 1 + RL_RAW_DEPTH[cap - 2].quick;
            o.depth_thorough = 1 + RL_RAW_DEPTH[cap - 2].thorough;
            o.max_states = 12000000;
            mc::add_bfs(mc::fmt("%s_readline_raw_cap%u", f.c_str(), cap),
                        [cap] {
                            return std::unique_ptr<mc::Model>(
                                new PickHist<ReadlineModel<RL>>(cap, false, &raw_alphabet(false)));
                        },
                        o);
        }
        for (unsigned cap = 2; cap <= 5; cap++)
        {
            mc::BfsOpts o;
            o.depth_quick = 1 + RAW_DEPTH[cap - 2].quick;
            o.depth_thorough = 1 + RAW_DEPTH[cap - 2].thorough;
            o.max_states = 12000000;
            mc::add_bfs(mc::fmt("%s_vterm_raw_cap%u", f.c_str(), cap),
                        [cap] {
                            return std::unique_ptr<mc::Model>(new PickHist<VtermModel<VT>>(cap, false, &raw_alphabet(true)));
                        },
                        o);
        }
        for (unsigned cap = 2; cap <= 5; cap++)
        {
            mc::BfsOpts o;
            o.depth_quick = 1 + KEY_DEPTH[cap - 2].quick;
            o.depth_thorough = 1 + KEY_DEPTH[cap - 2].thorough;
            o.max_states = 12000000;
            mc::add_bfs(mc::fmt("%s_vterm_keys_cap%u", f.c_str(), cap),
                        [cap] { return std::unique_ptr<mc::Model>(new PickHist<VtermModel<VT>>(cap, true, &key_alphabet())); },
                        o);
        }
    }
}
