// C15 — reference line editor, reference terminal and VT100 screen model.
// Pure C++; shared by the C-flavour and the C++-flavour harness TUs (readline.h and
// readlinexx.h share an include guard, so each flavour has its own TU and executable).
//
// Reference semantics (DESIGN.md §5 C15; pinned there with a prototype):
//   * a character is inserted at the cursor if it fits (len + 1 < cap), otherwise ignored;
//   * BS / Delete / arrows clamp to the line;
//   * CR, LF, CRLF and LFCR each end exactly one line. Pairing is defined on the byte stream
//     that reaches the decoder: a CR/LF met in the ground state directly after the *other*
//     newline byte is the second half of a pair and is ignored, unless that previous byte was
//     itself an ignored second half (so CR LF CR LF = two lines, CR LF LF = two lines);
//   * a line is stored in the history unless it is empty or equal to the most recent entry;
//     browse index 0 is the empty line, unused slots are empty, so Up past the oldest stored
//     line (up to the history depth) recalls the empty line; Up/Down put the cursor at the end;
//   * ESC x, ESC [ x with x unknown are swallowed; ESC [ 3 deletes under the cursor and the
//     following byte (normally '~') is swallowed;
//   * Ctrl-C is handled by the terminal layer in every decoder state: it abandons the line and
//     the history browse position and leaves the escape decoder and the CR/LF pairing alone.
#pragma once
#include <cstring>
#include <string>
#include <vector>

namespace ref
{
    struct Line
    {
        std::string s;
        unsigned cur = 0;
        unsigned cap = 0;

        unsigned room() const { return cap - 1 - (unsigned)s.size(); }
        int putchar(char c)
        {
            if (room() == 0)
                return 0;
            s.insert(s.begin() + cur, c);
            cur++;
            return 1;
        }
        int newdata(const char *d, int k)
        {
            if (k > (int)room())
                k = (int)room();
            s.insert(cur, d, (size_t)k);
            cur += (unsigned)k;
            return k;
        }
        int backspace(unsigned k)
        {
            if (k > cur)
                k = cur;
            s.erase(cur - k, k);
            cur -= k;
            return (int)k;
        }
        int del(unsigned k)
        {
            unsigned r = (unsigned)s.size() - cur;
            if (k > r)
                k = r;
            s.erase(cur, k);
            return (int)k;
        }
        int left()
        {
            if (cur == 0)
                return 0;
            cur--;
            return 1;
        }
        int right()
        {
            if (cur == s.size())
                return 0;
            cur++;
            return 1;
        }
        void reset()
        {
            s.clear();
            cur = 0;
        }
        bool midline() const { return cur != s.size(); }
    };

    enum Ev
    {
        EV_CHAR,        // stored
        EV_CHAR_FULL,   // typed into a full line: ignored
        EV_NEWLINE,     // a line is delivered
        EV_PAIR_HALF,   // second half of CRLF / LFCR: ignored
        EV_BS,
        EV_BS_NOOP,
        EV_LEFT,
        EV_LEFT_NOOP,
        EV_RIGHT,
        EV_RIGHT_NOOP,
        EV_UP,
        EV_UP_NOOP,
        EV_DOWN,
        EV_DOWN_NOOP,
        EV_DEL,
        EV_DEL_NOOP,
        EV_ESC,         // ESC / ESC [ seen, sequence continues
        EV_ESC_UNKNOWN, // unknown escape swallowed
        EV_DEL_TERM,    // byte after ESC [ 3 swallowed
        EV_CTRLC
    };

    struct Editor
    {
        Line line;
        int dec = 0;   // 0 ground, 1 after ESC, 2 after ESC [, 3 after ESC [ 3
        char last = 0; // previous byte seen by the decoder (0 after an ignored pair half)
        bool prev_pair_half = false;
        // most recent first, always `depth` entries (no heap: the factory runs per transition)
        struct Hist
        {
            enum
            {
                MAXDEPTH = 4
            };
            std::string e[MAXDEPTH];
            unsigned n = 0;
            bool empty() const { return n == 0; }
            unsigned size() const { return n; }
            std::string &operator[](unsigned i) { return e[i]; }
            const std::string &operator[](unsigned i) const { return e[i]; }
            const std::string &back() const { return e[n - 1]; }
            void push_front_drop_last(const std::string &s)
            {
                for (unsigned i = n - 1; i > 0; i--)
                    e[i].swap(e[i - 1]);
                e[0] = s;
            }
        } hist;
        unsigned browse = 0;

        // per-event information for classification
        bool ev_midline = false;      // cursor was inside the line before the event
        bool ev_after_pair = false;   // previous decoder byte was an ignored pair half
        bool ev_hist_wrapped = false; // a stored line pushed the oldest one out
        std::string delivered;

        void init(unsigned cap, unsigned depth)
        {
            line.cap = cap;
            line.reset();
            hist.n = depth;
            for (auto &h : hist.e)
                h.clear();
            dec = 0;
            last = 0;
            browse = 0;
        }
        void load()
        {
            line.s = browse == 0 ? std::string() : hist[browse - 1];
            line.cur = (unsigned)line.s.size();
        }
        // the outer layer calls this after it has taken the delivered line
        void newline_reset()
        {
            line.reset();
            browse = 0;
        }
        Ev feed(char c)
        {
            ev_midline = line.midline();
            ev_after_pair = prev_pair_half;
            ev_hist_wrapped = false;
            prev_pair_half = false;
            char prev = last;
            last = c;
            switch (dec)
            {
            case 0:
                if (c == '\r' || c == '\n')
                {
                    if ((prev == '\r' || prev == '\n') && prev != c)
                    {
                        last = 0;
                        prev_pair_half = true;
                        return EV_PAIR_HALF;
                    }
                    delivered = line.s;
                    if (!hist.empty() && !line.s.empty() && line.s != hist[0])
                    {
                        ev_hist_wrapped = !hist.back().empty();
                        hist.push_front_drop_last(line.s);
                    }
                    browse = 0;
                    return EV_NEWLINE;
                }
                if (c == 8)
                    return line.backspace(1) ? EV_BS : EV_BS_NOOP;
                if (c == 27)
                {
                    dec = 1;
                    return EV_ESC;
                }
                return line.putchar(c) ? EV_CHAR : EV_CHAR_FULL;
            case 1:
                if (c == '[')
                {
                    dec = 2;
                    return EV_ESC;
                }
                dec = 0;
                return EV_ESC_UNKNOWN;
            case 2:
                dec = 0;
                switch (c)
                {
                case 'A':
                    if (hist.empty() || browse == hist.size())
                        return EV_UP_NOOP;
                    browse++;
                    load();
                    return EV_UP;
                case 'B':
                    if (hist.empty() || browse == 0)
                        return EV_DOWN_NOOP;
                    browse--;
                    load();
                    return EV_DOWN;
                case 'C':
                    return line.right() ? EV_RIGHT : EV_RIGHT_NOOP;
                case 'D':
                    return line.left() ? EV_LEFT : EV_LEFT_NOOP;
                case '3':
                    dec = 3;
                    return line.del(1) ? EV_DEL : EV_DEL_NOOP;
                }
                return EV_ESC_UNKNOWN;
            default:
                dec = 0;
                return EV_DEL_TERM;
            }
        }
        // terminal layer
        Ev ctrlc()
        {
            ev_midline = line.midline();
            ev_after_pair = false;
            ev_hist_wrapped = false;
            line.reset();
            browse = 0;
            return EV_CTRLC;
        }
        std::string key() const
        {
            std::string k;
            k.reserve(48);
            k = line.s;
            k += '|';
            k += (char)('0' + line.cur);
            k += (char)('0' + dec);
            k += last == '\r' ? 'r' : last == '\n' ? 'n' : last == 0 ? '0' : '.';
            k += (char)('0' + browse);
            for (unsigned i = 0; i < hist.n; i++)
            {
                k += '/';
                k += hist[i];
            }
            return k;
        }
    };

    // name of the event class, used in signatures and outcomes (no allocation: hot path)
    inline const char *evclass(const Editor &e, Ev ev)
    {
        switch (ev)
        {
        case EV_CHAR:
            return e.ev_midline ? "char.midline" : "char";
        case EV_CHAR_FULL:
            return e.ev_midline ? "char_full.midline" : "char_full";
        case EV_NEWLINE:
            return e.ev_after_pair ? "newline_after_pair" : "newline";
        case EV_PAIR_HALF:
            return "pair_half";
        case EV_BS:
            return e.ev_midline ? "bs.midline" : "bs";
        case EV_BS_NOOP:
            return "bs_noop";
        case EV_LEFT:
            return "left";
        case EV_LEFT_NOOP:
            return "left_noop";
        case EV_RIGHT:
            return "right";
        case EV_RIGHT_NOOP:
            return "right_noop";
        case EV_UP:
            return e.ev_midline ? "up.from_midline" : "up";
        case EV_UP_NOOP:
            return "up_noop";
        case EV_DOWN:
            return e.ev_midline ? "down.from_midline" : "down";
        case EV_DOWN_NOOP:
            return "down_noop";
        case EV_DEL:
            return "del";
        case EV_DEL_NOOP:
            return "del_noop";
        case EV_ESC:
            return "esc";
        case EV_ESC_UNKNOWN:
            return "esc_unknown";
        case EV_DEL_TERM:
            return "del_term";
        case EV_CTRLC:
            return e.ev_midline ? "ctrlc.midline" : "ctrlc";
        }
        return "?";
    }

    // ------------------------------------------------------------------ VT100 screen model
    // Only the current row is kept: the terminal under test never moves up, and a line feed
    // scrolls to a fresh blank row. Understands printables, CR, LF, BS, ESC[nD, ESC[nC, ESC[K
    // (n omitted or 0 = 1, as on a real VT100). Anything else is recorded in `bad`.
    struct Screen
    {
        enum
        {
            MAXW = 512,
            W = 24 // default width (the BFS layers: prompt 2 + line <= 4 + '^C')
        };
        char row[MAXW];
        int w = W; // columns in use; the large-capacity checks widen it to prompt + cap + margin
        int col = 0;
        int st = 0; // 0 ground, 1 ESC, 2 CSI
        int num = 0;
        bool havenum = false;
        std::string bad;

        Screen() { memset(row, ' ', MAXW); }
        void put(unsigned char c)
        {
            switch (st)
            {
            case 0:
                if (c == 27)
                    st = 1;
                else if (c == '\r')
                    col = 0;
                else if (c == '\n')
                    memset(row, ' ', (size_t)w);
                else if (c == 8)
                {
                    if (col > 0)
                        col--;
                }
                else if (c >= 0x20 && c < 0x7f)
                {
                    if (col >= w)
                    {
                        if (bad.empty())
                            bad = "output beyond the right margin";
                        return;
                    }
                    row[col++] = (char)c;
                }
                else if (bad.empty())
                    bad = "unmodelled control byte " + std::to_string((int)c);
                break;
            case 1:
                if (c == '[')
                {
                    st = 2;
                    num = 0;
                    havenum = false;
                }
                else
                {
                    st = 0;
                    if (bad.empty())
                        bad = "unmodelled escape ESC " + std::to_string((int)c);
                }
                break;
            case 2:
                if (c >= '0' && c <= '9')
                {
                    num = num * 10 + (c - '0');
                    if (num > 9999)
                        num = 9999;
                    havenum = true;
                    break;
                }
                st = 0;
                {
                    int n = (havenum && num > 0) ? num : 1;
                    if (c == 'D')
                        col = col - n < 0 ? 0 : col - n;
                    else if (c == 'C')
                        col = col + n > w - 1 ? w - 1 : col + n;
                    else if (c == 'K')
                    {
                        if (col < w)
                            memset(row + col, ' ', (size_t)(w - col));
                    }
                    else if (bad.empty())
                        bad = std::string("unmodelled sequence ESC [ ") + (char)c;
                }
                break;
            }
        }
        void feed(const char *p, unsigned n)
        {
            for (unsigned i = 0; i < n; i++)
                put((unsigned char)p[i]);
        }
        std::string text() const
        {
            int e = w;
            while (e > 0 && row[e - 1] == ' ')
                e--;
            return std::string(row, (size_t)e);
        }
        std::string key() const
        {
            std::string k(row, (size_t)w);
            k += (char)('0' + col);
            k += (char)('0' + st);
            return k;
        }
    };
}
