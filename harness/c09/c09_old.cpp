// C09, old framework: igris/serialize/{serialize,archive,helper,stdtypes}.h  (igris::serialize(v) -> std::string,
// igris::deserialize<T>(buffer), binary_buffer_reader; user types expose reflect()).
// Compiled NPARTS times with -DPART=k; part k instantiates every type whose list index % NPARTS == k.
// One more TU with -DEXTRAS -DPART=NPARTS (no type matches) carries the big vectors, golden encodings and extra sub-checks.
#include <igris/serialize/serialize.h>
#include <igris/serialize/stdtypes.h>

#include "c09_common.h"
#include "mc.hpp"

#ifndef C09_COMPILER
#define C09_COMPILER "?"
#endif
#ifndef PART
#define PART 0
#endif
#ifndef NPARTS
#define NPARTS 1
#endif

using namespace c09;

namespace
{
    // ---- the type family -------------------------------------------------------------------------
    typedef Rec<u8, i32, u16> RPad; // sizeof 12, wire 7
    typedef Rec<str> RStr;
    typedef Rec<f64, u8> RDbl;
    typedef Rec<str, i64, str> RSIS;
    typedef std::tuple<i8, f64, str> TIDS;

    // a user type with its own serialize/deserialize methods (helper.h: igris_has_serialize path)
    struct Custom
    {
        i16 a = 0;
        str s;
        void serialize(igris::archive::binary_serializer_basic &k) const
        {
            igris::serialize(k, a);
            igris::serialize(k, s);
        }
        void deserialize(igris::archive::binary_deserializer_basic &k)
        {
            igris::deserialize(k, a);
            igris::deserialize(k, s);
        }
        auto fields() { return std::tie(a, s); }
        auto fields() const { return std::tie(a, s); }
        static const char *c09_name() { return "Custom{i16,string}"; }
    };

    // a user type whose reflect() carries fixed-size raw blocks, the library's way to put C arrays into a
    // struct's image: archive::data<T>(ptr, n) and r.do_data(ptr, bytes). Stated layout: the element images, no count.
    struct RawBlk
    {
        u8 tag = 0;
        float arr[2] = {0, 0};
        u8 mac[2] = {0, 0};
        u16 tail = 0;
        template <class R> void reflect(R &r)
        {
            r &tag;
            r &igris::archive::data<float>(arr, 2);
            r.do_data((char *)mac, 2);
            r &tail;
        }
        auto fields() { return std::tie(tag, arr[0], arr[1], mac[0], mac[1], tail); }
        auto fields() const { return std::tie(tag, arr[0], arr[1], mac[0], mac[1], tail); }
        static const char *c09_name() { return "RawBlk{u8,data<float>[2],do_data u8[2],u16}"; }
    };

    // a user type that writes a character block with the counted two-argument keeper.dump(ptr, n)
    // (stated layout: 16-bit count + bytes, the same a std::string / buffer has, and what load(ptr,max) reads)
    struct CountedBlk
    {
        str s;
        u16 tail = 0;
        void serialize(igris::archive::binary_serializer_basic &k) const
        {
            k.dump(s.data(), s.size());
            igris::serialize(k, tail);
        }
        void deserialize(igris::archive::binary_deserializer_basic &k)
        {
            igris::deserialize(k, s);
            igris::deserialize(k, tail);
        }
        auto fields() { return std::tie(s, tail); }
        auto fields() const { return std::tie(s, tail); }
        static const char *c09_name() { return "CountedBlk{dump(ptr,n),u16}"; }
    };

    typedef TL<i8, i16, i32, i64, u8, u16, u32, u64, f32, f64, ld, str> L0;
    typedef TL<std::pair<u8, i32>, std::pair<str, u16>, std::pair<f64, str>, std::pair<i64, i8>, //
               std::tuple<i8>, TIDS, std::tuple<u16, u16, u16, u16>, std::tuple<str, str>,        //
               std::map<u8, u8>, std::map<str, i32>, std::map<i32, str>, std::map<u16, f32>, std::map<str, str>, //
               RPad, RStr, RDbl, RSIS, Plain, Custom, //
               std::pair<ld, i32>, std::tuple<u8, ld, u16>, Rec<ld, u8>, std::map<u8, ld>, DefaultedO, DefaultedN, //
               RawBlk, std::pair<u16, u16>, std::pair<u8, u32>, std::pair<str, i32>, CountedBlk>
        L1x;
    typedef Cat<VecOf<L0>::type, L1x>::type L1;
    typedef TL<std::pair<std::vector<u16>, std::vector<str>>, std::pair<str, std::vector<u16>>, std::pair<RPad, std::map<u8, u8>>, //
               std::tuple<std::vector<u8>, str, std::pair<u8, i32>>, std::tuple<std::map<str, i32>, RStr>,                      //
               std::map<str, std::vector<u16>>, std::map<i32, std::vector<u16>>, std::map<str, TIDS>, std::map<u8, std::pair<str, u16>>,
               std::map<u16, RPad>, std::map<std::pair<u8, u8>, str>, std::map<std::vector<u8>, u8>, //
               Rec<std::vector<u16>, str>, Rec<RPad, u8>, Rec<std::pair<str, u16>, std::map<u8, u8>>, Rec<TIDS>, Rec<Plain, i8>, std::map<u8, Custom>, Rec<Custom, u8>, std::map<u8, DefaultedO>, Rec<DefaultedO, str>, //
               std::pair<std::pair<u8, u32>, std::pair<str, i32>>, std::map<u8, std::pair<u8, u32>>, std::map<str, RawBlk>, Rec<RawBlk, str>, std::map<u8, CountedBlk>>
        L2x;
    typedef Cat<VecOf<L1>::type, L2x>::type L2;
    typedef TL<std::vector<std::vector<std::vector<u8>>>, std::vector<std::vector<std::vector<i32>>>, std::vector<std::vector<std::vector<str>>>,
               std::vector<std::vector<RPad>>, std::vector<std::pair<str, std::vector<u16>>>, std::vector<std::map<str, std::vector<u16>>>,
               std::vector<Rec<std::vector<u16>, str>>, std::vector<std::tuple<std::vector<u8>, str, std::pair<u8, i32>>>,
               std::vector<std::map<u8, std::pair<str, u16>>>, std::vector<Rec<RPad, u8>>,
               std::map<str, std::vector<std::pair<str, u16>>>, std::map<str, std::map<u8, std::vector<u8>>>,
               std::map<u8, Rec<std::vector<u16>, str>>, std::map<str, std::vector<RPad>>,
               std::pair<std::vector<std::vector<u8>>, std::map<str, std::vector<u16>>>,
               std::tuple<std::vector<RStr>, std::map<u8, std::pair<str, u16>>, f32>, //
               Rec<std::vector<RPad>, u8>, Rec<std::map<str, std::vector<u16>>, Rec<RStr, i8>>, Rec<std::vector<std::vector<str>>>,
               Rec<std::vector<Plain>, std::vector<str>>>
        L3;
    typedef Cat<Cat<L0, L1>::type, Cat<L2, L3>::type>::type ALL;

    // ---- decode through the public reader; returns bytes consumed ---------------------------------
    template <class T> long decode(const char *p, size_t n, T &out)
    {
        igris::archive::binary_buffer_reader reader(p, n);
        keep(&out);
        igris::deserialize(reader, out);
        keep(&out);
        return (const char *)reader.pointer() - p;
    }

    template <class T>
    void check_value(const T &v, const T &w, const std::vector<T> &receivers, const std::string &tn, const std::string &cls, const char *what)
    {
        std::string ref, mask;
        ref_enc(ref, v, &mask);
        mc::crash_context("C09.old.serialize.%s", cls.c_str());
        std::string enc = igris::serialize(v);
        mc::outcome(mc::fmt("%s/len%zu", tn.c_str(), enc.size()));
        bool layout_ok = same_layout(enc, ref, mask);
        if (!layout_ok)
            mc::violation("C09.old.layout." + cls,
                          "%s %s: serialize() gives %zu bytes %s, the stated layout (native scalars, u16 count + elements) gives %zu bytes %s",
                          tn.c_str(), what, enc.size(), hexs(enc, 40).c_str(), ref.size(), hexs(ref, 40).c_str());
        {
            // deserialize(serialize(v)) == v, consuming exactly the bytes produced
            Exact e(enc.data(), enc.size());
            T r{};
            mc::crash_context("C09.old.decode.%s", cls.c_str());
            long used = decode(e.p, e.n, r);
            if (!eq(r, v))
                mc::violation("C09.old.roundtrip." + cls, "%s %s: deserialize(serialize(v)) != v (encoding %s, %zu bytes)", tn.c_str(),
                              what, hexs(enc, 40).c_str(), enc.size());
            if (used != (long)enc.size())
                mc::violation("C09.old.consumed." + cls, "%s %s: serialize produced %zu bytes, decoding consumed %ld", tn.c_str(), what,
                              enc.size(), used);
            // the one-call public API on the same exactly-sized copy
            T r2 = igris::deserialize<T>(igris::buffer(e.p, e.n));
            if (!eq(r2, v))
                mc::violation("C09.old.roundtrip." + cls, "%s %s: igris::deserialize<T>(buffer) != v (encoding %s)", tn.c_str(), what,
                              hexs(enc, 40).c_str());
        }
        if (enc.size() == ref.size())
        {
            // the same value through the fixed-buffer writer, into exactly the bytes the layout needs
            Exact e(ref.size(), 0xEE);
            mc::crash_context("C09.old.buffer_writer.%s", cls.c_str());
            igris::archive::binary_buffer_writer wr(e.p, e.n);
            igris::serialize(wr, v);
            if (wr.ptr != e.p + e.n || !same_layout(e.p, e.n, ref, mask))
                mc::violation("C09.old.buffer_writer." + cls, "%s %s: binary_buffer_writer wrote %ld bytes %s, want %zu bytes %s", tn.c_str(), what,
                              (long)(wr.ptr - e.p), mc::hex(e.p, e.n < 40 ? e.n : 40).c_str(), ref.size(), hexs(ref, 40).c_str());
        }
        if (const char *ro = ReadOnly::hold(enc.data(), enc.size()))
        {
            // the same bytes held in read-only memory that ends at an inaccessible page
            T r{};
            mc::crash_context("C09.old.decode_readonly_input.%s", cls.c_str());
            long used = decode(ro, enc.size(), r);
            if (!eq(r, v) || used != (long)enc.size())
                mc::violation("C09.old.roundtrip_readonly_input." + cls, "%s %s: decoding from read-only memory gives %s, consumed %ld of %zu", tn.c_str(), what,
                              eq(r, v) ? "v" : "another value", used, enc.size());
        }
        {
            // decode in place into an object that already holds a DIFFERENT value: the result is v, nothing of
            // the old content survives (strings shrink, containers are replaced, not appended to)
            Exact e(enc.data(), enc.size());
            for (const T &old : receivers)
            {
                T r = old;
                mc::crash_context("C09.old.decode_inplace.%s", cls.c_str());
                long used = decode(e.p, e.n, r);
                if (!eq(r, v) || used != (long)enc.size())
                {
                    std::string oref;
                    ref_enc(oref, old);
                    mc::violation("C09.old.inplace." + cls, "%s %s: decoding %s (%zu bytes) into an object holding the value %s (%zu bytes): result %s, consumed %ld",
                                  tn.c_str(), what, hexs(enc, 32).c_str(), enc.size(), hexs(oref, 32).c_str(), oref.size(),
                                  eq(r, v) ? "ok" : "is NOT the encoded value", used);
                    break;
                }
            }
            mc::more_cases(receivers.size(), receivers.size());
            mc::count("inplace_decodes", (long)receivers.size());
        }
        if (!layout_ok)
        {
            // which side left the stated layout? a recorded (stated-layout) encoding must keep decoding to v
            Exact e(ref.data(), ref.size());
            T r{};
            mc::crash_context("C09.old.decode_stated_layout.%s", cls.c_str());
            long used = decode(e.p, e.n, r);
            if (!eq(r, v) || used != (long)ref.size())
                mc::violation("C09.old.decode_stated_layout." + cls, "%s %s: decoding the stated-layout bytes %s gives %s, consumed %ld of %zu",
                              tn.c_str(), what, hexs(ref, 40).c_str(), eq(r, v) ? "v" : "another value", used, ref.size());
        }
        {
            // concatenated values decode in sequence
            mc::crash_context("C09.old.serialize.%s", cls.c_str());
            std::string cat = enc + igris::serialize(w);
            Exact e(cat.data(), cat.size());
            igris::archive::binary_buffer_reader reader(e.p, e.n);
            T a{}, b{};
            mc::crash_context("C09.old.decode_concat.%s", cls.c_str());
            igris::deserialize(reader, a);
            igris::deserialize(reader, b);
            long used = (const char *)reader.pointer() - e.p;
            if (!eq(a, v) || !eq(b, w) || used != (long)cat.size())
                mc::violation("C09.old.concat." + cls, "%s %s: decode(enc(a)||enc(b)): first %s, second %s, consumed %ld of %zu", tn.c_str(),
                              what, eq(a, v) ? "ok" : "WRONG", eq(b, w) ? "ok" : "WRONG", used, cat.size());
        }
        mc::crash_context("C09.old.harness");
    }

    template <class T> struct Run
    {
        static void run(long i)
        {
            std::string tn = tname<T>(), cls = tclass<T>();
            long n = count<T>(0);
            T v = make<T>(0, i);
            T w = make<T>(0, (i + 1) % n); // the value that follows in the concatenation
            std::string ref;
            ref_enc(ref, v);
            mc::describe("old[" C09_COMPILER "] %s value #%ld/%ld stated-layout bytes %s (%zu)", tn.c_str(), i, n, hexs(ref).c_str(), ref.size());
            if (!is_scalar_v<T> && ref.size() > 2)
                mc::nontrivial();
            std::vector<T> receivers;
            for (long j : receiver_indices(i, n))
                receivers.push_back(make<T>(0, j));
            check_value(v, w, receivers, tn, cls, mc::fmt("value #%ld", i).c_str());
        }
    };

    // ---- big vectors: byte image crosses the 16-bit limit / largest count ----------------------------
    template <class T, int N> void big_run(int, int)
    {
        std::vector<T> v(N), w(1);
        for (int k = 0; k < N; k++)
            v[k] = (T)(k * 7 + 1);
        w[0] = scalar_value<T>(0);
        std::string tn = tname<std::vector<T>>();
        mc::describe("old %s with %d elements (%zu payload bytes)", tn.c_str(), N, (size_t)N * sizeof(T));
        mc::nontrivial();
        std::vector<std::vector<T>> receivers = {w, std::vector<T>(N < 65535 ? N + 1 : N, scalar_value<T>(1))};
        check_value(v, w, receivers, tn, (size_t)N * sizeof(T) > 65535 ? std::string("vector_of_arithmetic.image_over_65535_bytes")
                                                             : std::string("vector_of_arithmetic"),
                    mc::fmt("%d elements", N).c_str());
    }
    // ---- big maps: counts above 32767 (the sign bit of the 16-bit count) up to the largest count --------
    template <int N> void big_map_run(int, int)
    {
        typedef std::map<u16, u8> M;
        M v, w, full;
        for (int k = 0; k < N; k++)
            v[(u16)(65535 - k)] = (u8)(k * 7 + 1); // the N largest keys
        w[(u16)3] = 4;
        for (int k = 0; k < 65535; k++)
            full[(u16)k] = (u8)(k + 1);
        std::string tn = tname<M>();
        mc::describe("old %s with %d entries", tn.c_str(), N);
        mc::nontrivial();
        std::vector<M> receivers = {w, full};
        check_value(v, w, receivers, tn, "map", mc::fmt("%d entries", N).c_str());
    }
    template <int N> void add_big_map()
    {
        BigEntry b;
        b.name = mc::fmt("map<u16,u8> x %d", N);
        b.chunks = 1;
        b.run = &big_map_run<N>;
        bigs().push_back(b);
    }
    template <class T, int N> void add_big()
    {
        BigEntry b;
        b.name = mc::fmt("%s x %d", tname<std::vector<T>>().c_str(), N);
        b.chunks = 1;
        b.run = &big_run<T, N>;
        bigs().push_back(b);
    }

    // ---- recorded encodings -------------------------------------------------------------------------
    template <class T> void golden(const char *name, const T &v, const std::string &bytes)
    {
        mc::describe("old golden %s = %s", name, hexs(bytes, 64).c_str());
        mc::nontrivial();
        mc::crash_context("C09.old.golden");
        std::string enc = igris::serialize(v);
        mc::outcome(std::string("golden/") + name);
        std::string ref, mask;
        ref_enc(ref, v, &mask); // only for the positions of padding bytes inside scalar images
        if (mask.size() != bytes.size())
            mask.assign(bytes.size(), '1');
        if (!same_layout(enc, bytes, mask))
            mc::violation("C09.old.golden.encode", "%s: serialize gives %s, recorded %s", name, hexs(enc, 64).c_str(), hexs(bytes, 64).c_str());
        Exact e(bytes.data(), bytes.size());
        T r{};
        long used = decode(e.p, e.n, r);
        if (!eq(r, v) || used != (long)bytes.size())
            mc::violation("C09.old.golden.decode", "%s: recorded bytes %s decode to %s, consumed %ld of %zu", name, hexs(bytes, 64).c_str(),
                          eq(r, v) ? "the value" : "another value", used, bytes.size());
    }
#define B(lit) std::string(lit, sizeof(lit) - 1)

    // ---- igris::buffer / string_view as values: u16 length + bytes; decoded as a view into the input
    //      (settable_buffer) or copied into a caller buffer of sufficient capacity (writable_buffer)
    static const size_t BUFLEN[] = {0, 1, 2, 3, 255, 256, 257, 4096, 65534, 65535};
    static std::string buf_content(size_t n, int pat)
    {
        std::string s(n, '\0');
        for (size_t i = 0; i < n; i++)
            s[i] = pat == 0 ? (char)(i * 31 + 7) : pat == 1 ? '\0' : (char)0xFF;
        return s;
    }
    static void buffers_case()
    {
        const int NL = sizeof(BUFLEN) / sizeof(BUFLEN[0]);
        int c = mc::choose(NL * NL);
        int pat = mc::choose(3);
        int slack = mc::choose(3); // capacity of the caller's buffer = length + {0, 1, 40}
        size_t la = BUFLEN[c / NL], lb = BUFLEN[c % NL];
        std::string a = buf_content(la, pat), b = buf_content(lb, (pat + 1) % 3);
        mc::describe("old buffer of %zu bytes then buffer of %zu bytes, pattern %d, caller capacity +%d", la, lb, pat, slack == 2 ? 40 : slack);
        if (la + lb > 0)
            mc::nontrivial();
        std::string ref;
        ref_enc(ref, a);
        size_t first = ref.size();
        ref_enc(ref, b);
        mc::crash_context("C09.old.serialize.buffer");
        Exact ea(a.data(), a.size()), eb(b.data(), b.size());
        std::string enc = igris::serialize(igris::buffer(ea.p, ea.n)) + igris::serialize(igris::buffer(eb.p, eb.n));
        std::string encv = igris::serialize(std::string_view(ea.p, ea.n)) + igris::serialize(std::string_view(eb.p, eb.n));
        {
            // the counted two-argument dump(ptr, n) straight on the archive
            std::string enc2;
            igris::archive::binary_string_writer w2(enc2);
            w2.dump((const char *)ea.p, ea.n);
            w2.dump((const char *)eb.p, eb.n);
            if (enc2 != ref)
                mc::violation("C09.old.layout.dump_ptr_n", "dump(ptr,%zu); dump(ptr,%zu): %zu bytes %s, stated layout (u16 count + bytes) %zu bytes %s", la, lb,
                              enc2.size(), hexs(enc2, 16).c_str(), ref.size(), hexs(ref, 16).c_str());
            // ... and its mirror load(ptr, max) on what dump(ptr, n) wrote
            size_t extra = slack == 2 ? 40 : slack;
            Exact e2(enc2.data(), enc2.size()), ca(la + extra, 0xEE), cb(lb + extra, 0xEE);
            igris::archive::binary_buffer_reader reader(e2.p, e2.n);
            mc::crash_context("C09.old.decode.load_ptr_max");
            reader.load(ca.p, (uint16_t)(ca.n > 65535 ? 65535 : ca.n)); // max is a 16-bit parameter
            long mid = (const char *)reader.pointer() - e2.p;
            reader.load(cb.p, (uint16_t)(cb.n > 65535 ? 65535 : cb.n));
            long used = (const char *)reader.pointer() - e2.p;
            bool oka = la == 0 || memcmp(ca.p, a.data(), la) == 0, okb = lb == 0 || memcmp(cb.p, b.data(), lb) == 0, untouched = true;
            for (size_t i = la; i < ca.n; i++)
                untouched = untouched && (unsigned char)ca.p[i] == 0xEE;
            for (size_t i = lb; i < cb.n; i++)
                untouched = untouched && (unsigned char)cb.p[i] == 0xEE;
            if (!oka || !okb || !untouched || mid != (long)(2 + la) || used != (long)(4 + la + lb))
                mc::violation("C09.old.roundtrip.dump_ptr_n", "dump(ptr,%zu); dump(ptr,%zu) then load(ptr,max) twice: blocks %s/%s, bytes past the length %s, consumed %ld then %ld (want %zu, %zu)",
                              la, lb, oka ? "ok" : "WRONG", okb ? "ok" : "WRONG", untouched ? "untouched" : "OVERWRITTEN", mid, used, 2 + la, 4 + la + lb);
            mc::crash_context("C09.old.serialize.buffer");
        }
        mc::outcome(mc::fmt("buffers/len%zu", enc.size()));
        if (enc != ref)
            mc::violation("C09.old.layout.buffer", "buffer(%zu)||buffer(%zu): serialize gives %zu bytes %s, stated layout %zu bytes %s", la, lb,
                          enc.size(), hexs(enc, 16).c_str(), ref.size(), hexs(ref, 16).c_str());
        if (encv != ref)
            mc::violation("C09.old.layout.string_view", "string_view(%zu)||string_view(%zu): serialize gives %zu bytes %s, stated layout %zu bytes %s",
                          la, lb, encv.size(), hexs(encv, 16).c_str(), ref.size(), hexs(ref, 16).c_str());
        Exact e(enc.data(), enc.size());
        {
            // zero-copy views
            igris::archive::binary_buffer_reader reader(e.p, e.n);
            igris::buffer va, vb;
            mc::crash_context("C09.old.decode.buffer_view");
            reader.load_set_buffer(va);
            long mid = (const char *)reader.pointer() - e.p;
            reader.load_set_buffer(vb);
            long used = (const char *)reader.pointer() - e.p;
            bool oka = va.size() == la && (la == 0 || memcmp(va.data(), a.data(), la) == 0);
            bool okb = vb.size() == lb && (lb == 0 || memcmp(vb.data(), b.data(), lb) == 0);
            bool inside = (la == 0 || (va.data() >= e.p && va.data() + la <= e.p + e.n)) && (lb == 0 || (vb.data() >= e.p && vb.data() + lb <= e.p + e.n));
            if (!oka || !okb || !inside || mid != (long)first || used != (long)enc.size())
                mc::violation("C09.old.roundtrip.buffer_view", "buffer(%zu)||buffer(%zu): views %s/%s, inside input %d, consumed %ld then %ld of %zu", la,
                              lb, oka ? "ok" : "WRONG", okb ? "ok" : "WRONG", (int)inside, mid, used, enc.size());
        }
        {
            // copies into caller storage
            size_t extra = slack == 2 ? 40 : slack;
            Exact ca(la + extra, 0xEE), cb(lb + extra, 0xEE);
            igris::archive::writable_buffer wa, wb;
            wa = igris::buffer(ca.p, ca.n);
            wb = igris::buffer(cb.p, cb.n);
            igris::archive::binary_buffer_reader reader(e.p, e.n);
            mc::crash_context("C09.old.decode.buffer_copy");
            igris::deserialize(reader, wa);
            igris::deserialize(reader, wb);
            long used = (const char *)reader.pointer() - e.p;
            bool oka = wa.size() == la && wa.data() == ca.p && (la == 0 || memcmp(ca.p, a.data(), la) == 0);
            bool okb = wb.size() == lb && wb.data() == cb.p && (lb == 0 || memcmp(cb.p, b.data(), lb) == 0);
            bool untouched = true;
            for (size_t i = la; i < ca.n; i++)
                untouched = untouched && (unsigned char)ca.p[i] == 0xEE;
            for (size_t i = lb; i < cb.n; i++)
                untouched = untouched && (unsigned char)cb.p[i] == 0xEE;
            if (!oka || !okb || !untouched || used != (long)enc.size())
                mc::violation("C09.old.roundtrip.buffer_copy", "buffer(%zu)||buffer(%zu) into capacity +%zu: copies %s/%s, bytes past the length %s, consumed %ld of %zu",
                              la, lb, extra, oka ? "ok" : "WRONG", okb ? "ok" : "WRONG", untouched ? "untouched" : "OVERWRITTEN", used, enc.size());
        }
        {
            // and as std::string (same wire format)
            igris::archive::binary_buffer_reader reader(e.p, e.n);
            str sa, sb;
            mc::crash_context("C09.old.decode.string");
            igris::deserialize(reader, sa);
            igris::deserialize(reader, sb);
            if (sa != a || sb != b || (const char *)reader.pointer() != e.p + e.n)
                mc::violation("C09.old.roundtrip.buffer_as_string", "buffer(%zu)||buffer(%zu) decoded as strings: %s/%s", la, lb, sa == a ? "ok" : "WRONG",
                              sb == b ? "ok" : "WRONG");
        }
        mc::crash_context("C09.old.harness");
    }
}

namespace
{
    // ---- igris::archive::data<T>(ptr, n) as a value of its own: the raw image of n elements, no count ----
    template <class T> void raw_block(size_t n, int pat)
    {
        std::vector<T> src(n), dst(n, scalar_value<T>(1));
        for (size_t k = 0; k < n; k++)
            src[k] = pat == 0 ? (T)(k * 7 + 1) : scalar_value<T>((int)(k % 6));
        std::string ref, tn = "data<" + tname<T>() + ">";
        for (size_t k = 0; k < n; k++)
            ref_enc(ref, src[k]);
        mc::describe("old[" C09_COMPILER "] archive::%s x %zu, pattern %d (%zu bytes)", tn.c_str(), n, pat, ref.size());
        if (n)
            mc::nontrivial();
        mc::crash_context("C09.old.serialize.raw_block");
        Exact in((const char *)src.data(), n * sizeof(T)); // exactly-sized source: an over-read of the block is a report
        std::string enc = igris::serialize(igris::archive::data<T>((const T *)in.p, n));
        std::string twice = enc + igris::serialize(igris::archive::data<T>((const T *)in.p, n));
        mc::outcome(mc::fmt("raw/%s/%zu", tn.c_str(), enc.size()));
        if (enc != ref)
            mc::violation("C09.old.layout.raw_block", "%s x %zu: serialize gives %zu bytes %s, the element images are %zu bytes %s", tn.c_str(), n,
                          enc.size(), hexs(enc, 24).c_str(), ref.size(), hexs(ref, 24).c_str());
        Exact e(twice.data(), twice.size());
        Exact out(n * sizeof(T), 0xEE), out2(n * sizeof(T), 0xEE);
        igris::archive::binary_buffer_reader reader(e.p, e.n);
        mc::crash_context("C09.old.decode.raw_block");
        igris::archive::data<T> d1((T *)out.p, n), d2((T *)out2.p, n);
        igris::deserialize(reader, d1);
        long mid = (const char *)reader.pointer() - e.p;
        igris::deserialize(reader, d2);
        long used = (const char *)reader.pointer() - e.p;
        bool ok1 = memcmp(out.p, src.data(), n * sizeof(T)) == 0, ok2 = memcmp(out2.p, src.data(), n * sizeof(T)) == 0;
        if (!ok1 || !ok2 || mid != (long)enc.size() || used != (long)twice.size())
            mc::violation("C09.old.roundtrip.raw_block", "%s x %zu twice: blocks %s/%s, consumed %ld then %ld of %zu", tn.c_str(), n, ok1 ? "ok" : "WRONG",
                          ok2 ? "ok" : "WRONG", mid, used, twice.size());
        mc::crash_context("C09.old.harness");
    }
    static void raw_blocks_case()
    {
        static const size_t N[] = {0, 1, 2, 3, 127, 128, 255, 256, 257, 4095};
        int c = mc::choose(10 * 6);
        int pat = mc::choose(2);
        size_t n = N[c / 6];
        switch (c % 6)
        {
        case 0:
            raw_block<u8>(c / 6 == 9 ? 65535 : n, pat); // largest block the 16-bit byte count of do_data can carry
            break;
        case 1:
            raw_block<u16>(c / 6 == 9 ? 32767 : n, pat);
            break;
        case 2:
            raw_block<i32>(n, pat);
            break;
        case 3:
            raw_block<u64>(n, pat);
            break;
        case 4:
            raw_block<f32>(n, pat);
            break;
        default:
            raw_block<f64>(n, pat);
            break;
        }
    }
}

namespace
{
    // ---- archive / reader / writer / buffer objects that were copied, moved, returned or relocated before use ----
    static const size_t RLEN[] = {0, 1, 14, 15, 16, 17, 31, 32, 300};
    static void relocated_case()
    {
        const int NCLS = 6, NL = sizeof(RLEN) / sizeof(RLEN[0]);
        int c = mc::choose(NCLS * W_COUNT * NL);
        int cls = c / (W_COUNT * NL), way = c / NL % W_COUNT;
        size_t len = RLEN[c % NL];
        int pre_n = mc::choose(2); // values handled before the relocation: 0 or 1
        static const char *CN[] = {"binary_buffer_reader", "binary_buffer_writer", "binary_string_writer", "igris::buffer", "writable_buffer", "settable_buffer"};
        mc::describe("old[" C09_COMPILER "] %s %s after %d value(s), payload strings of %zu bytes", CN[cls], way_name(way), pre_n, len);
        std::string a = buf_content(len, 0), b = buf_content(len, 2);
        std::string wire;
        ref_enc(wire, a);
        ref_enc(wire, b);
        Exact in(wire.data(), wire.size()); // caller's memory, alive throughout
        bool ok = true, done = true;
        std::string why;
        mc::crash_context("C09.old.relocated.%s", CN[cls]);
        switch (cls)
        {
        case 0:
            done = with_relocated<igris::archive::binary_buffer_reader>(
                way, [&] { return igris::archive::binary_buffer_reader(in.p, in.n); },
                [&](igris::archive::binary_buffer_reader &r) {
                    if (pre_n)
                    {
                        str x;
                        igris::deserialize(r, x);
                        ok = ok && x == a;
                    }
                },
                [&](igris::archive::binary_buffer_reader &r) {
                    str x, y;
                    if (!pre_n)
                        igris::deserialize(r, x);
                    igris::deserialize(r, y);
                    ok = ok && (pre_n || x == a) && y == b && (const char *)r.pointer() == in.p + in.n && r.end() == in.p + in.n;
                });
            break;
        case 1:
        {
            Exact out(wire.size(), 0xEE);
            done = with_relocated<igris::archive::binary_buffer_writer>(
                way, [&] { return igris::archive::binary_buffer_writer(out.p, out.n); },
                [&](igris::archive::binary_buffer_writer &w) {
                    if (pre_n)
                        igris::serialize(w, a);
                },
                [&](igris::archive::binary_buffer_writer &w) {
                    if (!pre_n)
                        igris::serialize(w, a);
                    igris::serialize(w, b);
                    ok = ok && w.ptr == out.p + out.n && memcmp(out.p, wire.data(), out.n) == 0;
                });
            break;
        }
        case 2:
        {
            std::string target;
            done = with_relocated<igris::archive::binary_string_writer>(
                way, [&] { return igris::archive::binary_string_writer(target); },
                [&](igris::archive::binary_string_writer &w) {
                    if (pre_n)
                        igris::serialize(w, a);
                },
                [&](igris::archive::binary_string_writer &w) {
                    if (!pre_n)
                        igris::serialize(w, a);
                    igris::serialize(w, b);
                    ok = ok && target == wire;
                });
            break;
        }
        case 3:
            done = with_relocated<igris::buffer>(
                way, [&] { return igris::buffer(in.p, in.n); }, [&](igris::buffer &) {},
                [&](igris::buffer &v) {
                    ok = ok && v.data() == in.p && v.size() == in.n && (in.n == 0 || memcmp(v.data(), wire.data(), in.n) == 0) &&
                         igris::serialize(v).size() == in.n + 2;
                });
            break;
        case 4:
        {
            Exact ca(len, 0xEE);
            done = with_relocated<igris::archive::writable_buffer>(
                way,
                [&] {
                    igris::archive::writable_buffer w;
                    w = igris::buffer(ca.p, ca.n);
                    return w;
                },
                [&](igris::archive::writable_buffer &) {},
                [&](igris::archive::writable_buffer &w) {
                    igris::archive::binary_buffer_reader r(in.p, in.n);
                    igris::deserialize(r, w);
                    ok = ok && w.size() == len && w.data() == ca.p && (len == 0 || memcmp(ca.p, a.data(), len) == 0) &&
                         (const char *)r.pointer() == in.p + 2 + len;
                });
            break;
        }
        default:
        {
            igris::buffer view;
            done = with_relocated<igris::archive::settable_buffer>(
                way, [&] { return igris::archive::settable_buffer(view); }, [&](igris::archive::settable_buffer &) {},
                [&](igris::archive::settable_buffer &sb) {
                    igris::archive::binary_buffer_reader r(in.p, in.n);
                    r.load(sb);
                    ok = ok && view.size() == len && view.data() == in.p + 2 && (const char *)r.pointer() == in.p + 2 + len;
                });
            break;
        }
        }
        if (!done)
        {
            mc::describe("old[" C09_COMPILER "] %s cannot be %s (not assignable)", CN[cls], way_name(way));
            return;
        }
        if (way != W_DIRECT)
            mc::nontrivial();
        mc::outcome(mc::fmt("reloc/%s/%d/%zu", CN[cls], way, len));
        if (!ok)
            mc::violation(std::string("C09.old.relocated.") + CN[cls], "%s %s after %d value(s), strings of %zu bytes: wrong data / position after the relocation",
                          CN[cls], way_name(way), pre_n, len);
        mc::crash_context("C09.old.harness");
    }
}

namespace
{
    // ---- nested serialize() of the same type from inside reflect() ----------------------------------
    struct Envelope
    {
        u8 id = 0;
        std::vector<Envelope> kids;
        u16 tail = 0;
        template <class R> void reflect(R &r)
        {
            r &id;
            if constexpr (std::is_base_of<igris::archive::binary_serializer_basic, R>::value)
            {
                u16 n = (u16)kids.size();
                r &n;
                for (const Envelope &k : kids)
                {
                    std::string blob = igris::serialize(k); // nested top-level call, same T, outer call still running
                    r &blob;
                }
            }
            else
            {
                u16 n = 0;
                r &n;
                kids.clear();
                for (int i = 0; i < n; i++)
                {
                    std::string blob;
                    r &blob;
                    kids.push_back(igris::deserialize<Envelope>(blob)); // nested top-level decode
                }
            }
            r &tail;
        }
    };
    static void nested_case()
    {
        const int H = 4;
        long n = tree_count(H);
        long i = mc::choose((int)n);
        int counter = 0;
        Envelope v = make_tree<Envelope>(i, H, counter);
        counter = 100;
        Envelope w = make_tree<Envelope>((i + 1) % n, H, counter);
        std::string ref, refw;
        ref_tree(ref, v);
        ref_tree(refw, w);
        mc::describe("old[" C09_COMPILER "] envelope tree #%ld/%ld (height %d, %d nodes, %zu bytes): sub-records encoded by nested igris::serialize() inside reflect()", i, n,
                     tree_height(v), counter - 100, ref.size());
        if (!v.kids.empty())
            mc::nontrivial();
        mc::crash_context("C09.old.nested_serialize");
        std::string enc = igris::serialize(v), encw = igris::serialize(w), again = igris::serialize(v);
        mc::outcome(mc::fmt("nested/%zu", enc.size()));
        if (enc != ref || encw != refw || again != ref)
            mc::violation("C09.old.layout.nested_serialize", "tree #%ld: serialize gives %zu bytes %s (second call %zu bytes), stated layout %zu bytes %s", i, enc.size(),
                          hexs(enc, 32).c_str(), again.size(), ref.size(), hexs(ref, 32).c_str());
        std::string cat = ref + refw; // decode what the layout says, so that the decoder is judged on its own
        Exact e(cat.data(), cat.size());
        igris::archive::binary_buffer_reader reader(e.p, e.n);
        Envelope a, b = v; // b: in place over another tree
        mc::crash_context("C09.old.nested_deserialize");
        igris::deserialize(reader, a);
        long mid = (const char *)reader.pointer() - e.p;
        igris::deserialize(reader, b);
        long used = (const char *)reader.pointer() - e.p;
        if (!eq_tree(a, v) || !eq_tree(b, w) || mid != (long)ref.size() || used != (long)cat.size())
            mc::violation("C09.old.roundtrip.nested_serialize", "tree #%ld then #%ld: first %s, second %s, consumed %ld then %ld of %zu", i, (i + 1) % n,
                          eq_tree(a, v) ? "ok" : "WRONG", eq_tree(b, w) ? "ok" : "WRONG", mid, used, cat.size());
        Envelope r1 = igris::deserialize<Envelope>(enc);
        if (!eq_tree(r1, v))
            mc::violation("C09.old.roundtrip.nested_serialize", "tree #%ld: deserialize<T>(serialize(v)) != v", i);
        mc::crash_context("C09.old.harness");
    }

    // ---- two archives of the same class alive at once, used alternately (+ top-level calls in between) ----
    static void interleaved_case()
    {
        static const size_t L[4] = {0, 1, 16, 300};
        int c = mc::choose(256);
        str A[2] = {buf_content(L[c & 3], 0), buf_content(L[c >> 2 & 3], 2)}, B[2] = {buf_content(L[c >> 4 & 3], 2), buf_content(L[c >> 6 & 3], 0)};
        std::vector<u16> X = {1, 2, 3}, Y = {0xFFFF};
        mc::describe("old[" C09_COMPILER "] two writers / two readers used alternately, strings of %zu,%zu and %zu,%zu bytes", A[0].size(), A[1].size(), B[0].size(),
                     B[1].size());
        mc::nontrivial();
        std::string ra, rb;
        ref_enc(ra, A[0]);
        ref_enc(ra, X);
        ref_enc(ra, A[1]);
        ref_enc(rb, B[0]);
        ref_enc(rb, Y);
        ref_enc(rb, B[1]);
        mc::crash_context("C09.old.interleaved");
        std::string s1, s2;
        bool ok = true;
        {
            igris::archive::binary_string_writer w1(s1), w2(s2);
            Exact o1(ra.size(), 0xEE), o2(rb.size(), 0xEE);
            igris::archive::binary_buffer_writer bw1(o1.p, o1.n), bw2(o2.p, o2.n);
            igris::serialize(w1, A[0]);
            igris::serialize(bw2, B[0]);
            igris::serialize(w2, B[0]);
            ok = ok && igris::serialize(A[1]).size() == A[1].size() + 2; // a top-level call while four writers are open
            igris::serialize(bw1, A[0]);
            igris::serialize(w2, Y);
            igris::serialize(w1, X);
            igris::serialize(bw1, X);
            igris::serialize(bw2, Y);
            igris::serialize(w1, A[1]);
            igris::serialize(bw2, B[1]);
            igris::serialize(w2, B[1]);
            igris::serialize(bw1, A[1]);
            ok = ok && s1 == ra && s2 == rb && bw1.ptr == o1.p + o1.n && bw2.ptr == o2.p + o2.n && memcmp(o1.p, ra.data(), o1.n) == 0 &&
                 memcmp(o2.p, rb.data(), o2.n) == 0;
        }
        if (!ok)
            mc::violation("C09.old.interleaved.writers", "two string writers and two buffer writers used alternately: an output differs from its own values' encoding");
        {
            Exact e1(ra.data(), ra.size()), e2(rb.data(), rb.size());
            igris::archive::binary_buffer_reader r1(e1.p, e1.n), r2(e2.p, e2.n);
            str a0, a1, b0, b1;
            std::vector<u16> x, y;
            igris::deserialize(r1, a0);
            igris::deserialize(r2, b0);
            igris::deserialize(r2, y);
            bool top = igris::deserialize<str>(igris::serialize(B[1])) == B[1]; // top-level round trip while two readers are open
            igris::deserialize(r1, x);
            igris::deserialize(r1, a1);
            igris::deserialize(r2, b1);
            if (!top || a0 != A[0] || a1 != A[1] || b0 != B[0] || b1 != B[1] || !eq(x, X) || !eq(y, Y) || (const char *)r1.pointer() != e1.p + e1.n ||
                (const char *)r2.pointer() != e2.p + e2.n)
                mc::violation("C09.old.interleaved.readers", "two readers used alternately: a decoded value or a final position is wrong");
        }
        mc::outcome(mc::fmt("interleaved/%zu/%zu", ra.size(), rb.size()));
        mc::crash_context("C09.old.harness");
    }
}

namespace
{
    // ---- long histories on ONE object: a writer reused for many messages while the caller clears / shrinks /
    //      appends to the string it borrows; one reader and one buffer writer over a stream of > 200000 bytes ----
    template <class F> void with_value(long i, int seed, F f)
    {
        static const size_t L[4] = {0, 1, 16, 3000};
        long k = i * 7 + seed;
        switch (k % 10)
        {
        case 0:
            f((u8)(i * 31 + 1));
            break;
        case 1:
            f((u16)(i * 257 + 1));
            break;
        case 2:
            f((u32)(i * 65537u + 3));
            break;
        case 3:
            f((u64)((u64)i * 0x0101010101010101ull + 5));
            break;
        case 4:
            f((f64)i / 3.0);
            break;
        case 5:
            f(buf_content(L[(((uint32_t)i + (uint32_t)seed) * 2654435761u >> 13) % 4], (int)(i % 3)));
            break;
        case 6:
            f(std::vector<u16>((size_t)(i % 5), (u16)(i * 3 + 1)));
            break;
        case 7:
            f(std::pair<u8, u32>((u8)i, (u32)(i * 11 + 2)));
            break;
        case 8:
            f(std::map<u8, str>{{(u8)i, buf_content(L[i % 4], 0)}, {(u8)(i + 1), str("x")}});
            break;
        default:
        {
            Plain p;
            p.a = (i32)(i * 7);
            p.b = (u8)i;
            p.c = (i16)(-i);
            p.d = (f64)i * 0.5;
            f(p);
            break;
        }
        }
    }
    static bool tail_equal(const std::string &a, const std::string &b)
    {
        if (a.size() != b.size())
            return false;
        size_t n = a.size() < 96 ? a.size() : 96;
        return memcmp(a.data() + a.size() - n, b.data() + b.size() - n, n) == 0;
    }
    static void long_history_case()
    {
        int seed = mc::choose(4);
        long N = mc::thorough() ? 300000 : 70000;
        mc::describe("old[" C09_COMPILER "] long history #%d: %ld operations on ONE binary_string_writer (caller clears / shrinks / appends to the borrowed string in between), "
                     "then ONE binary_buffer_writer and ONE binary_buffer_reader over the whole stream",
                     seed, N);
        mc::nontrivial();
        std::string out, expect, stream;
        igris::archive::binary_string_writer w(out);
        long writes = 0, clears = 0, maxlen = 0;
        mc::crash_context("C09.old.long_history.string_writer");
        for (long i = 0; i < N; i++)
        {
            int op = (int)((i * 5 + seed) % 8);
            const char *what = "write";
            if (op <= 4)
            {
                with_value(i, seed, [&](const auto &v) {
                    igris::serialize(w, v);
                    ref_enc(expect, v);
                    ref_enc(stream, v);
                });
                writes++;
            }
            else if (op == 5)
            {
                what = "caller appends a byte";
                out.push_back((char)0x7E);
                expect.push_back((char)0x7E);
            }
            else if (op == 6)
            {
                what = "caller drops the last bytes";
                size_t cut = out.size() < 3 ? out.size() : 3;
                out.resize(out.size() - cut);
                expect.resize(expect.size() - cut);
            }
            else if (i >= N / 2 || out.size() > 250000)
            { // first half: the string grows past 65536 and 200000 bytes before it is cleared; second half: a transmit loop
                what = "caller clears the string";
                if (out != expect)
                    mc::violation("C09.old.long_history.string_writer", "history #%d op %ld: before the caller's clear() the string (%zu bytes) differs from the expected bytes (%zu)",
                                  seed, i, out.size(), expect.size());
                out.clear();
                expect.clear();
                clears++;
            }
            if ((long)out.size() > maxlen)
                maxlen = (long)out.size();
            if (!tail_equal(out, expect) || (i % 256 == 0 && out != expect))
            {
                mc::violation("C09.old.long_history.string_writer", "history #%d op %ld (%s; %ld writes, %ld clears so far): the borrowed string has %zu bytes ..%s, expected %zu bytes ..%s",
                              seed, i, what, writes, clears, out.size(), hexs(out.substr(out.size() > 16 ? out.size() - 16 : 0), 16).c_str(), expect.size(),
                              hexs(expect.substr(expect.size() > 16 ? expect.size() - 16 : 0), 16).c_str());
                return;
            }
            if (i % 4096 == 0)
                mc::tick();
        }
        mc::count("long_history_writes", writes);
        mc::count("long_history_clears", clears);
        if (maxlen < 200000 || stream.size() < 200000)
            mc::harness_error("long history too short: longest string %ld, stream %zu", maxlen, stream.size());
        {
            // ONE buffer writer over the whole stream, exactly-sized destination
            Exact dst(stream.size(), 0xEE);
            igris::archive::binary_buffer_writer bw(dst.p, dst.n);
            mc::crash_context("C09.old.long_history.buffer_writer");
            size_t pos = 0;
            for (long i = 0; i < N; i++)
                if ((i * 5 + seed) % 8 <= 4)
                {
                    size_t before = pos;
                    with_value(i, seed, [&](const auto &v) {
                        igris::serialize(bw, v);
                        std::string r;
                        ref_enc(r, v);
                        pos += r.size();
                    });
                    if (bw.ptr != dst.p + pos || memcmp(dst.p + before, stream.data() + before, pos - before) != 0)
                    {
                        mc::violation("C09.old.long_history.buffer_writer", "history #%d value %ld at stream offset %zu: wrong bytes or position (%ld, want %zu)", seed, i, before,
                                      (long)(bw.ptr - dst.p), pos);
                        return;
                    }
                }
        }
        {
            // ONE reader over the whole stream
            Exact src(stream.data(), stream.size());
            igris::archive::binary_buffer_reader rd(src.p, src.n);
            mc::crash_context("C09.old.long_history.buffer_reader");
            size_t pos = 0;
            bool bad = false;
            for (long i = 0; i < N && !bad; i++)
                if ((i * 5 + seed) % 8 <= 4)
                    with_value(i, seed, [&](const auto &v) {
                        std::remove_cv_t<std::remove_reference_t<decltype(v)>> r{};
                        igris::deserialize(rd, r);
                        std::string e;
                        ref_enc(e, v);
                        pos += e.size();
                        if (!eq(r, v) || (const char *)rd.pointer() != src.p + pos)
                        {
                            mc::violation("C09.old.long_history.buffer_reader", "history #%d value %ld (%zu bytes into the stream): %s, reader at %ld, want %zu", seed, i,
                                          pos - e.size(), eq(r, v) ? "value ok" : "WRONG value", (long)((const char *)rd.pointer() - src.p), pos);
                            bad = true;
                        }
                    });
            if (!bad && pos != stream.size())
                mc::harness_error("stream accounting");
        }
        mc::more_cases((uint64_t)N, (uint64_t)N);
        mc::outcome(mc::fmt("long/%d/%zu", seed, stream.size()));
        mc::crash_context("C09.old.harness");
    }
}

#ifdef EXTRAS
const char *const c09::framework = "old";
#endif

MC_INIT
{
    register_part<Run, PART, NPARTS>(ALL());
#ifdef EXTRAS
    add_big<u8, 65535>();
    add_big<u16, 32767>(); // 65534 bytes: last image that fits 16 bits
    add_big<u16, 32768>(); // 65536 bytes
    add_big<u16, 65535>();
    add_big<u64, 8191>();
    add_big<u64, 8192>(); // 65536 bytes
    add_big<f64, 20000>();
    add_big<u32, 65535>();
    add_big<ld, 4096>(); // 65536 bytes
    add_big_map<32767>();
    add_big_map<32768>();
    add_big_map<40000>();
    add_big_map<65535>();

    goldens().push_back({"i32 0x01020304", [] { golden<i32>("i32 0x01020304", 0x01020304, B("\x04\x03\x02\x01")); }});
    goldens().push_back({"u64", [] { golden<u64>("u64 0x0102030405060708", 0x0102030405060708ull, B("\x08\x07\x06\x05\x04\x03\x02\x01")); }});
    goldens().push_back({"double 1.0", [] { golden<f64>("double 1.0", 1.0, B("\x00\x00\x00\x00\x00\x00\xf0\x3f")); }});
    goldens().push_back({"string a\\0b", [] { golden<str>("string a\\0b", str("a\0b", 3), B("\x03\x00\x61\x00\x62")); }});
    goldens().push_back({"string empty", [] { golden<str>("string empty", str(), B("\x00\x00")); }});
    goldens().push_back({"vector<i32>{33,44,55}", [] {
                             golden<std::vector<i32>>("vector<i32>{33,44,55}", {33, 44, 55},
                                                      B("\x03\x00\x21\x00\x00\x00\x2c\x00\x00\x00\x37\x00\x00\x00"));
                         }});
    goldens().push_back({"map<string,i32>{A:33,B:44}", [] {
                             golden<std::map<str, i32>>("map<string,i32>{A:33,B:44}", {{"A", 33}, {"B", 44}},
                                                        B("\x02\x00\x01\x00\x41\x21\x00\x00\x00\x01\x00\x42\x2c\x00\x00\x00"));
                         }});
    goldens().push_back({"pair<u8,i32>", [] { golden<std::pair<u8, i32>>("pair<u8,i32>{7,-2}", {7, -2}, B("\x07\xfe\xff\xff\xff")); }});
    goldens().push_back({"tuple<i8,double,string>", [] {
                             golden<TIDS>("tuple<i8,double,string>{-1,1.0,\"hi\"}", TIDS{-1, 1.0, "hi"},
                                          B("\xff\x00\x00\x00\x00\x00\x00\xf0\x3f\x02\x00hi"));
                         }});
    goldens().push_back({"Plain", [] { golden<Plain>("Plain{34,83,17,0.5}", Plain(), B("\x22\x00\x00\x00\x53\x11\x00\x00\x00\x00\x00\x00\x00\xe0\x3f")); }});
    goldens().push_back({"vector<string>{\"ab\",\"\"}", [] {
                             golden<std::vector<str>>("vector<string>{\"ab\",\"\"}", {"ab", ""}, B("\x02\x00\x02\x00\x61\x62\x00\x00"));
                         }});
    goldens().push_back({"long double 1.0", [] {
                             golden<ld>("long double 1.0 (6 padding bytes not compared)", 1.0L,
                                        B("\x00\x00\x00\x00\x00\x00\x00\x80\xff\x3f\x00\x00\x00\x00\x00\x00"));
                         }});
    goldens().push_back({"pair<long double,i32>", [] {
                             golden<std::pair<ld, i32>>("pair<long double,i32>{-2.0,5}", {-2.0L, 5},
                                                        B("\x00\x00\x00\x00\x00\x00\x00\x80\x00\xc0\x00\x00\x00\x00\x00\x00\x05\x00\x00\x00"));
                         }});
    goldens().push_back({"Defaulted pump", [] {
                             DefaultedO d;
                             d.name = "pump";
                             d.v = {9};
                             d.m = {};
                             d.x = 1;
                             golden<DefaultedO>("Defaulted{\"pump\",{9},{},1}", d, B("\x04\x00pump\x01\x00\x09\x00\x00\x00\x01\x00\x00\x00"));
                         }});
    goldens().push_back({"Custom", [] {
                             Custom c;
                             c.a = -2;
                             c.s = "xy";
                             golden<Custom>("Custom{-2,\"xy\"}", c, B("\xfe\xff\x02\x00xy"));
                         }});
    mc::add_check("old.buffers", buffers_case);
    mc::add_check("old.raw_blocks", raw_blocks_case);
    mc::add_check("old.relocated_archives", relocated_case);
    mc::add_check("old.nested_serialize", nested_case);
    mc::add_check("old.long_history", long_history_case);
    mc::add_check("old.interleaved_archives", interleaved_case);
    goldens().push_back({"CountedBlk", [] {
                             CountedBlk c;
                             c.s = "abc";
                             c.tail = 0x0102;
                             golden<CountedBlk>("CountedBlk{dump(\"abc\",3),0x0102}", c, B("\x03\x00\x61\x62\x63\x02\x01"));
                         }});
    goldens().push_back({"RawBlk", [] {
                             RawBlk b;
                             b.tag = 7;
                             b.arr[0] = 1.0f;
                             b.arr[1] = -2.5f;
                             b.mac[0] = 0xAA;
                             b.mac[1] = 0xBB;
                             b.tail = 0x0102;
                             golden<RawBlk>("RawBlk{7,{1.0f,-2.5f},{aa,bb},0x0102}", b,
                                            B("\x07\x00\x00\x80\x3f\x00\x00\x20\xc0\xaa\xbb\x02\x01"));
                         }});
    goldens().push_back({"pair<string,i32>", [] {
                             golden<std::pair<str, i32>>("pair<string,i32>{\"ab\",258}", {"ab", 258}, B("\x02\x00\x61\x62\x02\x01\x00\x00"));
                         }});
    goldens().push_back({"pair<u16,u16>", [] { golden<std::pair<u16, u16>>("pair<u16,u16>{1,2}", {1, 2}, B("\x01\x00\x02\x00")); }});
    goldens().push_back({"map<u8,pair<u8,u32>>", [] {
                             golden<std::map<u8, std::pair<u8, u32>>>("map<u8,pair<u8,u32>>{5:{6,7}}", {{5, {6, 7}}}, B("\x01\x00\x05\x06\x07\x00\x00\x00"));
                         }});
    goldens().push_back({"vector<struct{u8,i32,u16}>", [] {
                             Rec<u8, i32, u16> a;
                             a.f = std::make_tuple((u8)1, (i32)2, (u16)3);
                             golden<std::vector<Rec<u8, i32, u16>>>("vector<struct{u8,i32,u16}>{{1,2,3}}", {a},
                                                                    B("\x01\x00\x01\x02\x00\x00\x00\x03\x00"));
                         }});
#endif
}
