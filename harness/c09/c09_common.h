// C09 — framework-independent part: the generated type family, the value generator,
// the INDEPENDENT reference encoder (written from the stated layout, never calling igris),
// structural equality, type names, the registry shared by the part TUs, exact heap copies.
//
// Stated layout (properties.jsonl C09): scalars = fixed-width native-endian image;
// containers (string, vector, map) = 16-bit count followed by the elements;
// pair / tuple / reflectable struct = the members in declaration (reflect) order, nothing else.
#pragma once
#include <cfloat>
#include <cstdint>
#include <cstdlib>
#include <cstring>
#include <map>
#include <new>
#include <string>
#include <tuple>
#include <type_traits>
#include <utility>
#include <vector>
#include <sys/mman.h>

namespace c09
{
    typedef int8_t i8;
    typedef int16_t i16;
    typedef int32_t i32;
    typedef int64_t i64;
    typedef uint8_t u8;
    typedef uint16_t u16;
    typedef uint32_t u32;
    typedef uint64_t u64;
    typedef float f32;
    typedef double f64;
    typedef long double ld; // x86-64: 16-byte object, 10 value bytes (x87 extended), 6 indeterminate padding bytes
    typedef std::string str;

    // ---------------------------------------------------------------- reflectable structs
    // Rec<F...>: a user type exposing reflect (old framework) and serialize_reflect (new framework)
    // over its members in order. std::tuple lays the members out with padding, so sizeof(Rec) is in
    // general not the wire size.
    template <class... F> struct Rec
    {
        std::tuple<F...> f;
        template <class R> void reflect(R &r)
        {
            std::apply([&](auto &...x) { ((r & x), ...); }, f);
        }
        template <class A> void serialize_reflect(A &a)
        {
            std::apply([&](auto &...x) { ((a & x), ...); }, f);
        }
        template <class A> void serialize_reflect(A &a) const
        {
            std::apply([&](const auto &...x) { ((a & x), ...); }, f);
        }
        auto fields() { return std::apply([](auto &...x) { return std::tie(x...); }, f); }
        auto fields() const { return std::apply([](const auto &...x) { return std::tie(x...); }, f); }
    };

    // a plain hand-written struct, the way the library's own (unbuilt) tests use the API
    struct Plain
    {
        int32_t a = 34;
        uint8_t b = 83;
        int16_t c = 17;
        double d = 0.5;
        template <class R> void reflect(R &r)
        {
            r &a;
            r &b;
            r &c;
            r &d;
        }
        template <class A> void serialize_reflect(A &r)
        {
            r &a;
            r &b;
            r &c;
            r &d;
        }
        template <class A> void serialize_reflect(A &r) const
        {
            r &a;
            r &b;
            r &c;
            r &d;
        }
        auto fields() { return std::tie(a, b, c, d); }
        auto fields() const { return std::tie(a, b, c, d); }
        static const char *c09_name() { return "Plain{i32,u8,i16,double}"; }
    };

    // user types whose default-constructed state is NOT empty: the object that receives a decoded value
    // (deserialize<T>() starts from T{}) already holds longer strings / non-empty containers.
    struct DefaultedN // scalars and vectors only (both frameworks)
    {
        std::vector<uint16_t> v = {1, 2, 3};
        int32_t x = 7;
        std::vector<std::vector<uint8_t>> vv = {{9}, {}};
        template <class R> void reflect(R &r)
        {
            r &v;
            r &x;
            r &vv;
        }
        template <class A> void serialize_reflect(A &r)
        {
            r &v;
            r &x;
            r &vv;
        }
        template <class A> void serialize_reflect(A &r) const
        {
            r &v;
            r &x;
            r &vv;
        }
        auto fields() { return std::tie(v, x, vv); }
        auto fields() const { return std::tie(v, x, vv); }
        static const char *c09_name() { return "Defaulted{vector<u16>={1,2,3},i32=7,vector<vector<u8>>={{9},{}}}"; }
    };
    struct DefaultedO // old framework: string, vector and map members with defaults
    {
        std::string name = "unnamed-device";
        std::vector<uint16_t> v = {1, 2, 3};
        std::map<uint8_t, std::string> m = {{1, "one"}, {200, "two hundred"}};
        int32_t x = 7;
        template <class R> void reflect(R &r)
        {
            r &name;
            r &v;
            r &m;
            r &x;
        }
        auto fields() { return std::tie(name, v, m, x); }
        auto fields() const { return std::tie(name, v, m, x); }
        static const char *c09_name() { return "Defaulted{string=\"unnamed-device\",vector<u16>={1,2,3},map<u8,string>={..},i32=7}"; }
    };

    // bytes of a scalar object that carry its value (the rest is padding the statement cannot pin)
    template <class T> constexpr size_t value_bytes()
    {
        if constexpr (std::is_same<T, long double>::value && LDBL_MANT_DIG == 64)
            return 10;
        else
            return sizeof(T);
    }

    // ---------------------------------------------------------------- traits
    template <class T> struct is_vector : std::false_type
    {
    };
    template <class T> struct is_vector<std::vector<T>> : std::true_type
    {
    };
    template <class T> struct is_pair : std::false_type
    {
    };
    template <class A, class B> struct is_pair<std::pair<A, B>> : std::true_type
    {
    };
    template <class T> struct is_tuple : std::false_type
    {
    };
    template <class... A> struct is_tuple<std::tuple<A...>> : std::true_type
    {
    };
    template <class T> struct is_map : std::false_type
    {
    };
    template <class K, class V> struct is_map<std::map<K, V>> : std::true_type
    {
    };
    template <class T, class = void> struct is_record : std::false_type
    {
    };
    template <class T> struct is_record<T, std::void_t<decltype(std::declval<T &>().fields())>> : std::true_type
    {
    };
    template <class T> constexpr bool is_scalar_v = std::is_arithmetic<T>::value;
    template <class T, class = void> struct has_name : std::false_type
    {
    };
    template <class T> struct has_name<T, std::void_t<decltype(T::c09_name())>> : std::true_type
    {
    };

    // ---------------------------------------------------------------- type names (hand-made: stable across compilers)
    template <class T> std::string tname();
    template <class Tup, size_t... I> std::string tnames(std::index_sequence<I...>)
    {
        std::string s;
        ((s += (I ? "," : "") + tname<std::remove_cv_t<std::remove_reference_t<std::tuple_element_t<I, Tup>>>>()), ...);
        return s;
    }
    template <class T> std::string tname()
    {
        if constexpr (std::is_same<T, i8>::value)
            return "i8";
        else if constexpr (std::is_same<T, i16>::value)
            return "i16";
        else if constexpr (std::is_same<T, i32>::value)
            return "i32";
        else if constexpr (std::is_same<T, i64>::value)
            return "i64";
        else if constexpr (std::is_same<T, u8>::value)
            return "u8";
        else if constexpr (std::is_same<T, u16>::value)
            return "u16";
        else if constexpr (std::is_same<T, u32>::value)
            return "u32";
        else if constexpr (std::is_same<T, u64>::value)
            return "u64";
        else if constexpr (std::is_same<T, f32>::value)
            return "float";
        else if constexpr (std::is_same<T, f64>::value)
            return "double";
        else if constexpr (std::is_same<T, ld>::value)
            return "long double";
        else if constexpr (std::is_same<T, str>::value)
            return "string";
        else if constexpr (has_name<T>::value)
            return T::c09_name();
        else if constexpr (is_vector<T>::value)
            return "vector<" + tname<typename T::value_type>() + ">";
        else if constexpr (is_pair<T>::value)
            return "pair<" + tname<typename T::first_type>() + "," + tname<typename T::second_type>() + ">";
        else if constexpr (is_tuple<T>::value)
            return "tuple<" + tnames<T>(std::make_index_sequence<std::tuple_size<T>::value>()) + ">";
        else if constexpr (is_map<T>::value)
            return "map<" + tname<typename T::key_type>() + "," + tname<typename T::mapped_type>() + ">";
        else if constexpr (is_record<T>::value)
        {
            typedef decltype(std::declval<T &>().fields()) FT;
            return "struct{" + tnames<FT>(std::make_index_sequence<std::tuple_size<FT>::value>()) + "}";
        }
        else
            static_assert(sizeof(T) == 0, "tname: unsupported type");
    }

    // does the type contain, anywhere, a vector whose element type is not arithmetic?
    template <class T> constexpr bool has_vec_nonarith();
    template <class Tup, size_t... I> constexpr bool has_vec_nonarith_tup(std::index_sequence<I...>)
    {
        return (has_vec_nonarith<std::remove_cv_t<std::remove_reference_t<std::tuple_element_t<I, Tup>>>>() || ...);
    }
    template <class T> constexpr bool has_vec_nonarith()
    {
        if constexpr (is_scalar_v<T> || std::is_same<T, str>::value)
            return false;
        else if constexpr (is_vector<T>::value)
            return !is_scalar_v<typename T::value_type> || has_vec_nonarith<typename T::value_type>();
        else if constexpr (is_pair<T>::value)
            return has_vec_nonarith<typename T::first_type>() || has_vec_nonarith<typename T::second_type>();
        else if constexpr (is_tuple<T>::value)
            return has_vec_nonarith_tup<T>(std::make_index_sequence<std::tuple_size<T>::value>());
        else if constexpr (is_map<T>::value)
            return has_vec_nonarith<typename T::key_type>() || has_vec_nonarith<typename T::mapped_type>();
        else
        {
            typedef decltype(std::declval<T &>().fields()) FT;
            return has_vec_nonarith_tup<FT>(std::make_index_sequence<std::tuple_size<FT>::value>());
        }
    }
    // input class used in signatures: the construct the type is built from (narrow, value independent)
    template <class T> std::string tclass()
    {
        if constexpr (has_vec_nonarith<T>())
            return "vector_of_nonarithmetic";
        else if constexpr (is_scalar_v<T>)
            return "scalar";
        else if constexpr (std::is_same<T, str>::value)
            return "string";
        else if constexpr (is_vector<T>::value)
            return "vector_of_arithmetic";
        else if constexpr (is_pair<T>::value)
            return "pair";
        else if constexpr (is_tuple<T>::value)
            return "tuple";
        else if constexpr (is_map<T>::value)
            return "map";
        else
            return "struct";
    }

    // ---------------------------------------------------------------- value generator
    // count<T>(d) values of T when T sits at nesting depth d (0 = the value being serialized);
    // make<T>(d, i) builds the i-th. Alphabets shrink with depth so the full product stays enumerable.
    template <class T> long count(int d);
    template <class T> T make(int d, long i);

    template <class T> T scalar_value(int k)
    {
        // order: most interesting first (deeper positions take a prefix)
        if constexpr (std::is_same<T, long double>::value)
        {
            // legitimate x87 values only (full mantissa, quiet NaN, -0, 1, max, 0)
            static const long double val[6] = {1.0L / 3.0L, __builtin_nanl(""), -0.0L, 1.0L, LDBL_MAX, 0.0L};
            return val[k];
        }
        else if constexpr (std::is_floating_point<T>::value)
        {
            T v;
            if (sizeof(T) == 4)
            {
                static const uint32_t img[6] = {0x01020304u, 0x7FC00001u /*NaN with payload*/, 0x80000000u /*-0.0*/,
                                                0x3F800000u /*1.0*/, 0x7F7FFFFFu /*max*/, 0u};
                memcpy(&v, &img[k], 4);
            }
            else
            {
                static const uint64_t img[6] = {0x0102030405060708ull, 0x7FF8000000000001ull, 0x8000000000000000ull,
                                                0x3FF0000000000000ull, 0x7FEFFFFFFFFFFFFFull, 0ull};
                memcpy(&v, &img[k], 8);
            }
            return v;
        }
        else
        {
            typedef typename std::make_unsigned<T>::type U;
            const U top = (U)((U)1 << (sizeof(T) * 8 - 1));
            switch (k)
            {
            case 0:
                return (T)(U)0x0102030405060708ull; // every byte different: byte order and width are visible
            case 1:
                return std::is_signed<T>::value ? (T)top : (T)(U)~(U)0; // min / max
            case 2:
                return (T)0;
            case 3:
                return (T)1;
            case 4:
                return std::is_signed<T>::value ? (T)-1 : (T)top;
            default:
                return (T)(U)(top - 1); // signed max
            }
        }
    }
    inline str string_value(int k)
    {
        switch (k)
        {
        case 0:
            return str("a\0b", 3); // embedded NUL
        case 1:
            return str();
        case 2:
            return str(256, 'x'); // count needs the second byte
        case 3:
            return str(65535, 'x'); // largest count
        case 4:
            return str("a");
        default:
            return str(255, 'x');
        }
    }

    template <class Tup, size_t... I> long count_tup(int d, std::index_sequence<I...>)
    {
        return (count<std::remove_cv_t<std::remove_reference_t<std::tuple_element_t<I, Tup>>>>(d) * ... * 1L);
    }
    template <class Tup, size_t... I> void fill_tup(Tup &&t, int d, long i, std::index_sequence<I...>)
    {
        // mixed radix, first member fastest
        auto one = [&](auto &x) {
            typedef std::remove_cv_t<std::remove_reference_t<decltype(x)>> X;
            long n = count<X>(d);
            x = make<X>(d, i % n);
            i /= n;
        };
        (one(std::get<I>(t)), ...);
    }

    // two-element containers: at nesting depth 0 and 1 every ordered pair of element values when the element
    // alphabet has at most 99 values (n*n pairs); otherwise, and in deeper positions, each element value followed
    // by its successor in the element list (n pairs). No type then exceeds 10^4 (thorough: 6.3*10^4) values.
    // (thorough tier: larger alphabets in nested positions and all pairs at depth 0..2 up to 250 element values.)
    extern int level; // 0 = quick, 1 = thorough; set by the sub-check body before anything is counted
    inline bool all_pairs(int d, long n) { return level ? (d <= 2 && n <= 250) : (d <= 1 && n <= 99); }
    inline long container_count(int d, long n) { return 1 + n + (all_pairs(d, n) ? n * n : n); }
    inline void pair_of(int d, long n, long j, long &a, long &b)
    {
        if (all_pairs(d, n))
        {
            a = j % n;
            b = j / n;
        }
        else
        {
            a = j;
            b = (j + 1) % n;
        }
    }

    template <class T> long count(int d)
    {
        if constexpr (is_scalar_v<T>)
            return level ? (d <= 1 ? 6 : d == 2 ? 3 : 2) : (d == 0 ? 6 : d == 1 ? 3 : 2);
        else if constexpr (std::is_same<T, str>::value)
            return level ? (d <= 1 ? 6 : d == 2 ? 4 : 2) : (d == 0 ? 6 : d == 1 ? 4 : d == 2 ? 3 : 2);
        else if constexpr (is_vector<T>::value)
        {
            long n = count<typename T::value_type>(d + 1);
            return container_count(d, n); // sizes 0, 1, 2 (see pair_of)
        }
        else if constexpr (is_map<T>::value)
        {
            long n = count<typename T::key_type>(d + 1) * count<typename T::mapped_type>(d + 1);
            return container_count(d, n); // 0, 1, 2 insertions (equal keys collapse: still a value of the type)
        }
        else if constexpr (is_pair<T>::value)
            return count<typename T::first_type>(d + 1) * count<typename T::second_type>(d + 1);
        else if constexpr (is_tuple<T>::value)
            return count_tup<T>(d + 1, std::make_index_sequence<std::tuple_size<T>::value>());
        else
        {
            typedef decltype(std::declval<T &>().fields()) FT;
            return count_tup<FT>(d + 1, std::make_index_sequence<std::tuple_size<FT>::value>());
        }
    }
    template <class T> T make(int d, long i)
    {
        if constexpr (is_scalar_v<T>)
            return scalar_value<T>((int)i);
        else if constexpr (std::is_same<T, str>::value)
            return string_value((int)i);
        else if constexpr (is_vector<T>::value)
        {
            typedef typename T::value_type E;
            long n = count<E>(d + 1);
            T v;
            if (i == 0)
                return v;
            if (i <= n)
            {
                v.push_back(make<E>(d + 1, i - 1));
                return v;
            }
            long a, b;
            pair_of(d, n, i - n - 1, a, b);
            v.push_back(make<E>(d + 1, a));
            v.push_back(make<E>(d + 1, b));
            return v;
        }
        else if constexpr (is_map<T>::value)
        {
            typedef typename T::key_type K;
            typedef typename T::mapped_type V;
            long nk = count<K>(d + 1), nv = count<V>(d + 1), n = nk * nv;
            T m;
            if (i == 0)
                return m;
            if (i <= n)
            {
                m.insert(std::make_pair(make<K>(d + 1, (i - 1) % nk), make<V>(d + 1, (i - 1) / nk)));
                return m;
            }
            long a, b;
            pair_of(d, n, i - n - 1, a, b);
            m.insert(std::make_pair(make<K>(d + 1, a % nk), make<V>(d + 1, a / nk)));
            m.insert(std::make_pair(make<K>(d + 1, b % nk), make<V>(d + 1, b / nk)));
            return m;
        }
        else if constexpr (is_pair<T>::value)
        {
            long n = count<typename T::first_type>(d + 1);
            return T(make<typename T::first_type>(d + 1, i % n), make<typename T::second_type>(d + 1, i / n));
        }
        else if constexpr (is_tuple<T>::value)
        {
            T t;
            fill_tup(t, d + 1, i, std::make_index_sequence<std::tuple_size<T>::value>());
            return t;
        }
        else
        {
            T t;
            typedef decltype(t.fields()) FT;
            fill_tup(t.fields(), d + 1, i, std::make_index_sequence<std::tuple_size<FT>::value>());
            return t;
        }
    }

    // ---------------------------------------------------------------- reference encoder (independent of igris)
    // `mask` (optional) gets one char per encoded byte: '1' = pinned by the layout, '0' = padding inside a scalar
    // image (long double) that the writer copies from indeterminate memory; see same_layout().
    inline void ref_u16(std::string &o, size_t n, std::string *mask)
    {
        uint16_t c = (uint16_t)n;
        o.append((const char *)&c, 2);
        if (mask)
            mask->append(2, '1');
    }
    template <class T> void ref_enc(std::string &o, const T &v, std::string *mask = nullptr)
    {
        if constexpr (is_scalar_v<T>)
        {
            o.append((const char *)&v, value_bytes<T>());
            o.append(sizeof(T) - value_bytes<T>(), '\0');
            if (mask)
            {
                mask->append(value_bytes<T>(), '1');
                mask->append(sizeof(T) - value_bytes<T>(), '0');
            }
        }
        else if constexpr (std::is_same<T, str>::value)
        {
            ref_u16(o, v.size(), mask);
            o.append(v);
            if (mask)
                mask->append(v.size(), '1');
        }
        else if constexpr (is_vector<T>::value)
        {
            ref_u16(o, v.size(), mask);
            for (size_t k = 0; k < v.size(); k++)
                ref_enc(o, v[k], mask);
        }
        else if constexpr (is_map<T>::value)
        {
            ref_u16(o, v.size(), mask);
            for (auto it = v.begin(); it != v.end(); ++it)
            {
                ref_enc(o, it->first, mask);
                ref_enc(o, it->second, mask);
            }
        }
        else if constexpr (is_pair<T>::value)
        {
            ref_enc(o, v.first, mask);
            ref_enc(o, v.second, mask);
        }
        else if constexpr (is_tuple<T>::value)
            std::apply([&](const auto &...x) { (ref_enc(o, x, mask), ...); }, v);
        else
            std::apply([&](const auto &...x) { (ref_enc(o, x, mask), ...); }, v.fields());
    }
    // byte-for-byte comparison with the stated layout, padding bytes inside scalar images excluded
    inline bool same_layout(const char *enc, size_t n, const std::string &ref, const std::string &mask)
    {
        if (n != ref.size())
            return false;
        for (size_t i = 0; i < n; i++)
            if (mask[i] == '1' && enc[i] != ref[i])
                return false;
        return true;
    }
    inline bool same_layout(const std::string &enc, const std::string &ref, const std::string &mask)
    {
        return same_layout(enc.data(), enc.size(), ref, mask);
    }

    // ---------------------------------------------------------------- structural equality (scalars by image: NaN, -0.0)
    template <class T> bool eq(const T &a, const T &b)
    {
        if constexpr (is_scalar_v<T>)
            return memcmp(&a, &b, value_bytes<T>()) == 0;
        else if constexpr (std::is_same<T, str>::value)
            return a == b;
        else if constexpr (is_vector<T>::value)
        {
            if (a.size() != b.size())
                return false;
            for (size_t k = 0; k < a.size(); k++)
                if (!eq(a[k], b[k]))
                    return false;
            return true;
        }
        else if constexpr (is_map<T>::value)
        {
            if (a.size() != b.size())
                return false;
            auto i = a.begin();
            auto j = b.begin();
            for (; i != a.end(); ++i, ++j)
                if (!eq(i->first, j->first) || !eq(i->second, j->second))
                    return false;
            return true;
        }
        else if constexpr (is_pair<T>::value)
            return eq(a.first, b.first) && eq(a.second, b.second);
        else if constexpr (is_tuple<T>::value)
        {
            bool r = true;
            auto cmp = [&]<size_t... I>(std::index_sequence<I...>)
            {
                ((r = r && eq(std::get<I>(a), std::get<I>(b))), ...);
            };
            cmp(std::make_index_sequence<std::tuple_size<T>::value>());
            return r;
        }
        else
        {
            auto fa = a.fields();
            auto fb = b.fields();
            bool r = true;
            auto cmp = [&]<size_t... I>(std::index_sequence<I...>)
            {
                ((r = r && eq(std::get<I>(fa), std::get<I>(fb))), ...);
            };
            cmp(std::make_index_sequence<std::tuple_size<decltype(fa)>::value>());
            return r;
        }
    }

    // the decoded object escapes: the compiler may not drop the loads that fill it (a dropped load is an
    // over-read ASan never sees)
    inline void keep(const void *p) { asm volatile("" : : "r"(p) : "memory"); }

    // ---------------------------------------------------------------- exactly-sized heap copy: [p, p+n) ends at the redzone
    struct Exact
    {
        char *blk, *p;
        size_t n;
        Exact(const char *src, size_t n_) : n(n_)
        {
            blk = (char *)malloc(n + 16);
            p = blk + 16;
            if (n)
                memcpy(p, src, n);
        }
        Exact(size_t n_, int fill) : n(n_) // output buffer of exactly n bytes
        {
            blk = (char *)malloc(n + 16);
            p = blk + 16;
            memset(blk, fill, n + 16);
        }
        Exact(const Exact &) = delete;
        ~Exact() { free(blk); }
    };

    // ---------------------------------------------------------------- envelopes: a record that stores its sub-records as
    // opaque length-prefixed blobs produced by a NESTED top-level igris::serialize(sub) of the SAME type, called from
    // inside the record's own reflect()/serialize_reflect() while the outer serialize() is still running.
    // E has members: u8 id; std::vector<E> kids; u16 tail. Stated layout: id, u16 count, per kid u16 length + the
    // kid's encoding, tail. Shapes: every tree of height <= h with 0..2 kids per node.
    inline long tree_count(int h) { return h <= 1 ? 1 : 1 + tree_count(h - 1) + tree_count(h - 1) * tree_count(h - 1); }
    template <class E> E make_tree(long idx, int h, int &counter)
    {
        E e;
        e.id = (u8)(counter * 37 + 1);
        e.tail = (u16)(0x0102 + counter * 0x0101);
        counter++;
        if (h <= 1 || idx == 0)
            return e;
        long f = tree_count(h - 1);
        if (idx <= f)
        {
            e.kids.push_back(make_tree<E>(idx - 1, h - 1, counter));
            return e;
        }
        idx -= f + 1;
        e.kids.push_back(make_tree<E>(idx % f, h - 1, counter));
        e.kids.push_back(make_tree<E>(idx / f, h - 1, counter));
        return e;
    }
    template <class E> void ref_tree(std::string &o, const E &e)
    {
        o.append((const char *)&e.id, 1);
        ref_u16(o, e.kids.size(), nullptr);
        for (const E &k : e.kids)
        {
            std::string sub;
            ref_tree(sub, k);
            ref_u16(o, sub.size(), nullptr);
            o += sub;
        }
        o.append((const char *)&e.tail, 2);
    }
    template <class E> bool eq_tree(const E &a, const E &b)
    {
        if (a.id != b.id || a.tail != b.tail || a.kids.size() != b.kids.size())
            return false;
        for (size_t i = 0; i < a.kids.size(); i++)
            if (!eq_tree(a.kids[i], b.kids[i]))
                return false;
        return true;
    }
    template <class E> int tree_height(const E &e)
    {
        int h = 0;
        for (const E &k : e.kids)
            h = std::max(h, tree_height(k));
        return h + 1;
    }

    // ---------------------------------------------------------------- read-only, exactly-sized input
    // The encoded bytes in PROT_READ memory, their end flush against a PROT_NONE page: a decoder that patches its
    // input (and restores it) or reads one byte too many faults. One mapping per process, reused.
    struct ReadOnly
    {
        static const size_t CAP = 1 << 20;
        static char *base()
        {
            static char *b = nullptr;
            if (!b)
            {
                b = (char *)mmap(nullptr, CAP + 4096, PROT_READ | PROT_WRITE, MAP_PRIVATE | MAP_ANONYMOUS, -1, 0);
                mprotect(b + CAP, 4096, PROT_NONE);
            }
            return b;
        }
        // returns nullptr when the data does not fit
        static const char *hold(const char *src, size_t n)
        {
            if (n > CAP)
                return nullptr;
            char *b = base();
            mprotect(b, CAP, PROT_READ | PROT_WRITE);
            char *p = b + CAP - n;
            if (n)
                memcpy(p, src, n);
            mprotect(b, CAP, PROT_READ);
            return p;
        }
    };

    // ---------------------------------------------------------------- registry (filled by the part TUs, index = position in the type list)
    struct TypeEntry
    {
        std::string name, cls;
        long (*count)() = nullptr; // number of values at the current tier
        int depth = 0;
        void (*run)(long) = nullptr;
    };
    struct BigEntry
    {
        std::string name;
        int chunks = 1;                 // truncation points are split over this many cases
        void (*run)(int chunk, int nchunks) = nullptr;
    };
    struct GoldenEntry
    {
        std::string name;
        void (*run)() = nullptr;
    };
    std::vector<TypeEntry> &types();
    std::vector<BigEntry> &bigs();
    std::vector<GoldenEntry> &goldens();
    void set_type(size_t index, const TypeEntry &e);
    extern const char *const framework; // "old" / "new", defined by the framework TU (part 0)

    template <class... T> struct TL
    {
        static constexpr size_t size = sizeof...(T);
    };
    template <class A, class B> struct Cat;
    template <class... A, class... B> struct Cat<TL<A...>, TL<B...>>
    {
        typedef TL<A..., B...> type;
    };
    template <class L> struct VecOf;
    template <class... A> struct VecOf<TL<A...>>
    {
        typedef TL<std::vector<A>...> type;
    };
    template <class T> constexpr int tdepth();
    template <class Tup, size_t... I> constexpr int tdepth_tup(std::index_sequence<I...>)
    {
        int m = 0;
        ((m = std::max(m, tdepth<std::remove_cv_t<std::remove_reference_t<std::tuple_element_t<I, Tup>>>>())), ...);
        return m;
    }
    template <class T> constexpr int tdepth()
    {
        if constexpr (is_scalar_v<T> || std::is_same<T, str>::value)
            return 0;
        else if constexpr (is_vector<T>::value)
            return 1 + tdepth<typename T::value_type>();
        else if constexpr (is_pair<T>::value)
            return 1 + std::max(tdepth<typename T::first_type>(), tdepth<typename T::second_type>());
        else if constexpr (is_tuple<T>::value)
            return 1 + tdepth_tup<T>(std::make_index_sequence<std::tuple_size<T>::value>());
        else if constexpr (is_map<T>::value)
            return 1 + std::max(tdepth<typename T::key_type>(), tdepth<typename T::mapped_type>());
        else
        {
            typedef decltype(std::declval<T &>().fields()) FT;
            return 1 + tdepth_tup<FT>(std::make_index_sequence<std::tuple_size<FT>::value>());
        }
    }

    // registers, in this TU, every type of the list whose index % nparts == part.
    // RUN<T>::run(long) is the framework-specific case body.
    template <template <class> class RUN, int PK, int NP, class... T, size_t... I>
    void register_part_impl(TL<T...>, std::index_sequence<I...>)
    {
        auto one = [](auto idx, auto tag) {
            constexpr size_t K = decltype(idx)::value;
            typedef typename decltype(tag)::type X;
            if constexpr ((int)(K % NP) == PK)
            {
                TypeEntry e;
                e.name = tname<X>();
                e.cls = tclass<X>();
                e.count = [] { return count<X>(0); };
                e.depth = tdepth<X>();
                e.run = &RUN<X>::run;
                set_type(K, e);
            }
        };
        (one(std::integral_constant<size_t, I>(), std::type_identity<T>()), ...);
    }
    template <template <class> class RUN, int PK, int NP, class... T> void register_part(TL<T...> l)
    {
        register_part_impl<RUN, PK, NP>(l, std::make_index_sequence<sizeof...(T)>());
    }

    std::string hexs(const std::string &s, size_t max = 24);

    // ---------------------------------------------------------------- relocated archive / storage objects
    // An archive, reader, writer or storage object is built, optionally used for a prefix (pre), then copied /
    // moved / assigned / returned by value / relocated by a growing std::vector; the SOURCE object is destroyed,
    // its bytes scribbled (0xEE) and its memory freed before the relocated object is used. Whatever the object
    // refers to in the CALLER's memory stays alive; anything it kept inside the source object is dead.
    enum Way
    {
        W_DIRECT,
        W_COPY,
        W_MOVE,
        W_COPY_ASSIGN,
        W_MOVE_ASSIGN,
        W_RETURNED,
        W_RETURNED_MOVED,
        W_VECTOR_GROWTH,
        W_COUNT
    };
    inline const char *way_name(int w)
    {
        static const char *n[] = {"used directly", "copy-constructed", "move-constructed", "copy-assigned", "move-assigned",
                                  "returned by value", "returned by value (moved)", "relocated by a growing std::vector"};
        return n[w];
    }
    template <class R, class Make, class Pre> __attribute__((noinline)) R give_back(Make &make, Pre &pre, bool moved)
    {
        char pad[64];
        memset(pad, 0x5A, sizeof pad);
        keep(pad);
        R a(make());
        pre(a);
        if (moved)
            return R(std::move(a));
        return a;
    }
    inline void scribble_stack()
    {
        volatile char junk[2048];
        for (size_t i = 0; i < sizeof junk; i++)
            junk[i] = (char)0xEE;
    }
    // returns false when the class does not offer this way (not assignable)
    template <class R, class Make, class Pre, class Use> bool with_relocated(int way, Make make, Pre pre, Use use)
    {
        if (way == W_RETURNED || way == W_RETURNED_MOVED)
        {
            R c(give_back<R>(make, pre, way == W_RETURNED_MOVED));
            scribble_stack();
            use(c);
            return true;
        }
        void *mem = malloc(sizeof(R));
        R *src = new (mem) R(make());
        pre(*src);
        auto kill = [&] {
            src->~R();
            memset(mem, 0xEE, sizeof(R));
            free(mem);
        };
        switch (way)
        {
        case W_DIRECT:
            use(*src);
            kill();
            return true;
        case W_COPY:
        {
            R c(*src);
            kill();
            use(c);
            return true;
        }
        case W_MOVE:
        {
            R c(std::move(*src));
            kill();
            use(c);
            return true;
        }
        case W_COPY_ASSIGN:
            if constexpr (std::is_copy_assignable<R>::value)
            {
                R c(make());
                c = *src;
                kill();
                use(c);
                return true;
            }
            break;
        case W_MOVE_ASSIGN:
            if constexpr (std::is_move_assignable<R>::value)
            {
                R c(make());
                c = std::move(*src);
                kill();
                use(c);
                return true;
            }
            break;
        case W_VECTOR_GROWTH:
        {
            std::vector<R> v;
            v.reserve(1);
            v.push_back(*src);
            kill();
            for (int i = 0; i < 9; i++)
                v.push_back(v.front()); // reallocates several times; elements are copied or moved
            use(v.front());
            return true;
        }
        }
        kill();
        return false;
    }

    // value indices used as the pre-populated receiver of an in-place decode of value i (of n):
    // every other value when the type has at most 40 values, else the neighbours, the last and the middle one
    inline std::vector<long> receiver_indices(long i, long n)
    {
        std::vector<long> r;
        if (n <= 40)
        {
            for (long j = 0; j < n; j++)
                if (j != i)
                    r.push_back(j);
            return r;
        }
        long cand[4] = {(i + 1) % n, (i + n - 1) % n, n - 1, n / 2};
        for (long c : cand)
        {
            bool dup = c == i;
            for (long x : r)
                dup = dup || x == c;
            if (!dup)
                r.push_back(c);
        }
        return r;
    }
}
