// C09 — registry and the sub-checks (framework independent; linked once into each of the two executables).
#include "c09_common.h"
#include "mc.hpp"

namespace c09
{
    std::vector<TypeEntry> &types()
    {
        static std::vector<TypeEntry> v;
        return v;
    }
    std::vector<BigEntry> &bigs()
    {
        static std::vector<BigEntry> v;
        return v;
    }
    std::vector<GoldenEntry> &goldens()
    {
        static std::vector<GoldenEntry> v;
        return v;
    }
    void set_type(size_t index, const TypeEntry &e)
    {
        auto &v = types();
        if (v.size() <= index)
            v.resize(index + 1);
        v[index] = e;
    }
    std::string hexs(const std::string &s, size_t max)
    {
        std::string r = mc::hex(s.data(), s.size() < max ? s.size() : max);
        if (s.size() > max)
            r += "..";
        return r;
    }
}

static const int SHARDS = 8; // value-index residues per type in the first choice
static long value_cap() { return c09::level ? 100000 : 10000; }
namespace c09
{
    int level = 0;
}

MC_INIT
{
    // every (type, value) of the family: first choice = type x value-residue (wide: sharding unit)
    mc::add_check(std::string(c09::framework) + ".type_family", [] {
        c09::level = mc::thorough() ? 1 : 0;
        auto &T = c09::types();
        int nt = (int)T.size();
        int c = mc::choose(nt * SHARDS);
        const c09::TypeEntry &e = T[c / SHARDS];
        int res = c % SHARDS;
        if (!e.run)
            mc::harness_error("type slot %d not registered by any part TU", c / SHARDS);
        long n = e.count();
        if (n > value_cap())
        {
            mc::cap(mc::fmt("%s: %ld values, first %ld enumerated", e.name.c_str(), n, value_cap()));
            n = value_cap();
        }
        long mine = n > res ? (n - res + SHARDS - 1) / SHARDS : 0;
        if (mine == 0)
        {
            mc::describe("%s: no value with index = %d mod %d", e.name.c_str(), res, SHARDS);
            return;
        }
        long k = mine <= 1 ? 0 : mc::choose((int)mine);
        e.run(res + k * SHARDS);
    });

    // the 16-bit boundaries: vectors whose byte image crosses 65535, the largest count
    mc::add_check(std::string(c09::framework) + ".big_vectors", [] {
        auto &B = c09::bigs();
        int total = 0;
        for (auto &b : B)
            total += b.chunks;
        int c = mc::choose(total);
        for (auto &b : B)
        {
            if (c < b.chunks)
            {
                b.run(c, b.chunks);
                return;
            }
            c -= b.chunks;
        }
    });

    // recorded encodings (wire-format stability, little-endian host)
    mc::add_check(std::string(c09::framework) + ".golden_encodings", [] {
        auto &G = c09::goldens();
        int c = mc::choose((int)G.size());
        G[c].run();
    });
}
int main(int argc, char **argv)
{
    if (getenv("C09_TYPES"))
    { // development aid: the generated family with its value counts
        long tot = 0;
        c09::level = atoi(getenv("C09_TYPES")) > 1;
        for (size_t i = 0; i < c09::types().size(); i++)
        {
            auto &e = c09::types()[i];
            long n = e.count();
            printf("%3zu depth%d %7ld  %-24s %s\n", i, e.depth, n, e.cls.c_str(), e.name.c_str());
            tot += n > value_cap() ? value_cap() : n;
        }
        printf("%zu types, %ld values\n", c09::types().size(), tot);
        for (auto &b : c09::bigs())
            printf("big: %s (%d chunks)\n", b.name.c_str(), b.chunks);
        return 0;
    }
    return mc::main_(argc, argv);
}
