#!/bin/bash
# C09: the old and the new framework both define igris::serialize / igris::deserialize and cannot share a TU
# -> one executable each; and each is built by BOTH clang and gcc, because the library is header-only template
# code whose behaviour can depend on the compiler (order of evaluation of function arguments: clang evaluates
# left to right, gcc right to left). The two builds also differ in mode: the clang build is the checked/debug build
# (asserts active, -D_GLIBCXX_ASSERTIONS: libstdc++ precondition checks), the gcc build is the release build (-DNDEBUG:
# an assert that carries a side effect vanishes). 4 executables = 4 runs. Each framework's type family is instantiated in NP
# part TUs compiled in parallel, plus one EXTRAS TU (big containers, golden encodings, extra sub-checks).
set -e
. $MC/par.sh
H=$VERIF/harness/c09
NP_OLD=10
NP_NEW=7
INC="-I$REPO -I$MC -I$H"
# -ftrivial-auto-var-init=zero (new framework): a truncated decode leaves the unread part of a scalar (e.g. a
# 16-bit count) uninitialised; the statement does not constrain the decoded value, zero makes the exploration
# deterministic.
CLANG_F="-std=c++20 -O1 -D_GLIBCXX_ASSERTIONS -gline-tables-only -fsanitize=address -fno-omit-frame-pointer $INC"
CLANG_N="$CLANG_F -ftrivial-auto-var-init=zero -enable-trivial-auto-var-init-zero-knowing-it-will-be-removed-from-clang"
GCC_F="-std=c++20 -O1 -DNDEBUG -g1 -fsanitize=address -fno-omit-frame-pointer $INC"
GCC_N="$GCC_F -ftrivial-auto-var-init=zero"

# the engine is compiled per flavour with the same library-mode defines (one definition of every inline std:: function per executable)
par clang++ -std=c++20 -O2 -D_GLIBCXX_ASSERTIONS -c -I$MC $MC/mc.cpp -o $BUILD/clang_mc.o
par g++ -std=c++20 -O2 -c -I$MC $MC/mc.cpp -o $BUILD/gcc_mc.o
par clang++ $CLANG_F -c $H/c09_main.cpp -o $BUILD/clang_main.o
par g++ $GCC_F -c $H/c09_main.cpp -o $BUILD/gcc_main.o

# flavour <tag> <compiler> <flags old> <flags new>
objs() { # <tag> <fw> <np>
  local o=""
  for k in $(seq 0 $(($3 - 1))); do o="$o $BUILD/$1_$2$k.o"; done
  echo "$o $BUILD/$1_$2x.o"
}
compile() { # <tag> <compiler> <fw> <np> <flags...>
  local tag=$1 cxx=$2 fw=$3 np=$4
  shift 4
  for k in $(seq 0 $((np - 1))); do
    par $cxx "$@" -DPART=$k -DNPARTS=$np -c $H/c09_$fw.cpp -o $BUILD/${tag}_$fw$k.o
  done
  par $cxx "$@" -DEXTRAS -DPART=$np -DNPARTS=$np -c $H/c09_$fw.cpp -o $BUILD/${tag}_${fw}x.o
}
compile clang clang++ old $NP_OLD $CLANG_F -DC09_COMPILER='"clang,checked"'
compile clang clang++ new $NP_NEW $CLANG_N -DC09_COMPILER='"clang,checked"'
compile gcc g++ old $NP_OLD $GCC_F -DC09_COMPILER='"gcc,NDEBUG"'
compile gcc g++ new $NP_NEW $GCC_N -DC09_COMPILER='"gcc,NDEBUG"'
parwait
par clang++ -fsanitize=address $(objs clang old $NP_OLD) $BUILD/clang_main.o $BUILD/clang_mc.o -o $BUILD/c09_old
par clang++ -fsanitize=address $(objs clang new $NP_NEW) $BUILD/clang_main.o $BUILD/clang_mc.o -o $BUILD/c09_new
par g++ -fsanitize=address $(objs gcc old $NP_OLD) $BUILD/gcc_main.o $BUILD/gcc_mc.o -o $BUILD/c09_old_gcc
par g++ -fsanitize=address $(objs gcc new $NP_NEW) $BUILD/gcc_main.o $BUILD/gcc_mc.o -o $BUILD/c09_new_gcc
parwait
{
  echo "old $BUILD/c09_old"
  echo "new $BUILD/c09_new"
  echo "old_gcc $BUILD/c09_old_gcc"
  echo "new_gcc $BUILD/c09_new_gcc"
} > $BUILD/runs.txt
