#!/bin/bash
# C09: two executables (the old and the new framework both define igris::serialize / igris::deserialize
# and cannot share a TU). Each framework's type family is instantiated in NP part TUs compiled in parallel.
set -e
. $MC/par.sh
H=$VERIF/harness/c09
NP_OLD=10
NP_NEW=7
# -ftrivial-auto-var-init=zero: a truncated decode leaves the unread part of a scalar (e.g. a 16-bit count)
# uninitialised; the statement does not constrain the decoded value, zero makes the exploration deterministic.
CF="-std=c++20 -O1 -gline-tables-only -fsanitize=address -fno-omit-frame-pointer -I$REPO -I$MC -I$H"
CFN="$CF -ftrivial-auto-var-init=zero -enable-trivial-auto-var-init-zero-knowing-it-will-be-removed-from-clang"
par clang++ -std=c++17 -O2 -c -I$MC $MC/mc.cpp -o $BUILD/mc.o
par clang++ $CF -c $H/c09_main.cpp -o $BUILD/main.o
OLD_O=""
for k in $(seq 0 $((NP_OLD - 1))); do
  par clang++ $CF -DPART=$k -DNPARTS=$NP_OLD -c $H/c09_old.cpp -o $BUILD/old$k.o
  OLD_O="$OLD_O $BUILD/old$k.o"
done
par clang++ $CF -DEXTRAS -DPART=$NP_OLD -DNPARTS=$NP_OLD -c $H/c09_old.cpp -o $BUILD/oldx.o
OLD_O="$OLD_O $BUILD/oldx.o"
NEW_O=""
for k in $(seq 0 $((NP_NEW - 1))); do
  par clang++ $CFN -DPART=$k -DNPARTS=$NP_NEW -c $H/c09_new.cpp -o $BUILD/new$k.o
  NEW_O="$NEW_O $BUILD/new$k.o"
done
par clang++ $CFN -DEXTRAS -DPART=$NP_NEW -DNPARTS=$NP_NEW -c $H/c09_new.cpp -o $BUILD/newx.o
NEW_O="$NEW_O $BUILD/newx.o"
parwait
par clang++ -fsanitize=address $OLD_O $BUILD/main.o $BUILD/mc.o -o $BUILD/c09_old
par clang++ -fsanitize=address $NEW_O $BUILD/main.o $BUILD/mc.o -o $BUILD/c09_new
parwait
{
  echo "old $BUILD/c09_old"
  echo "new $BUILD/c09_new"
} > $BUILD/runs.txt
