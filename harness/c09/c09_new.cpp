// C09, new framework: igris/serialize/serialize_archive.h (serializer/deserializer over binary_protocol,
// string_storage writer, deserialize_buffer_storage = the bounded storage reader; user types expose serialize_reflect()).
// Supported types here: arithmetic scalars, std::vector<T>, serialize_reflect structs, nested (no string/pair/tuple/map).
// Compiled NPARTS times with -DPART=k; part k instantiates every type whose list index % NPARTS == k.
// One more TU with -DEXTRAS -DPART=NPARTS (no type matches) carries the big vectors, golden encodings and extra sub-checks.
#include <cstring>
#include <type_traits>
#include <vector>

#include <igris/serialize/serialize_archive.h>

#include "c09_common.h"
#include "mc.hpp"

#ifndef C09_COMPILER
#define C09_COMPILER "?"
#endif
#ifndef PART
#define PART 0
#endif
#ifndef NPARTS
#define NPARTS 1
#endif

using namespace c09;

namespace
{
    typedef Rec<u8, i32, u16> RPad; // sizeof 12, wire 7
    typedef Rec<f64, u8> RDbl;
    typedef Rec<i64> RI;

    typedef TL<i8, i16, i32, i64, u8, u16, u32, u64, f32, f64, ld> L0;
    typedef Cat<VecOf<L0>::type, TL<RPad, RDbl, RI, Rec<ld, u8>, DefaultedN>>::type L1a;
    typedef Cat<L1a, TL<Plain>>::type L1;
    typedef TL<Rec<std::vector<u16>, u8>, Rec<RPad, u8>, Rec<std::vector<u8>, std::vector<f64>>, Rec<RDbl, RI>, Rec<Plain, i8>, Rec<DefaultedN, u8>, Rec<u8, ld, u16>> L2r;
    typedef Cat<VecOf<L1>::type, L2r>::type L2;
    typedef TL<Rec<std::vector<RPad>, u8>, Rec<std::vector<std::vector<u16>>>, Rec<Rec<std::vector<u16>, u8>, i8>,
               Rec<std::vector<Plain>, std::vector<std::vector<i8>>>, Rec<Rec<RDbl, RI>, std::vector<RI>>>
        L3r;
    typedef Cat<VecOf<L2>::type, L3r>::type L3;
    typedef Cat<Cat<L0, L1>::type, Cat<L2, L3>::type>::type ALL;

    // decode from [p, p+n) through the bounded storage reader; returns bytes left (avail) or -1000 if an exception was thrown
    template <class T> int decode(const char *p, size_t n, T &out, bool &threw)
    {
        igris::deserialize_buffer_storage storage(igris::buffer(p, n));
        threw = false;
        keep(&out);
        try
        {
            out = igris::deserialize<T>(storage);
            keep(&out);
        }
        catch (mc::Abort &)
        {
            throw;
        }
        catch (...)
        {
            threw = true; // an error on truncated input is allowed; reading past the input is not
        }
        return storage.avail();
    }

    // truncation points explored for an encoding of len bytes; chunk/nchunks splits them over cases
    static void truncation_points(size_t len, int chunk, int nchunks, std::vector<size_t> &out)
    {
        bool all = len <= 4096 || (mc::thorough() && len <= 70000);
        for (size_t k = 0; k < len; k++)
        {
            if ((int)(k % nchunks) != chunk)
                continue;
            if (all || k < 300 || k + 300 >= len || k % 509 == 0 || (mc::thorough() && k % 61 == 0))
                out.push_back(k);
        }
        if (!all)
            mc::count("encodings_with_sampled_truncation_points");
    }

    template <class T>
    void check_value(const T &v, const T &w, const std::vector<T> &receivers, const std::string &tn, const std::string &cls, const char *what, int chunk, int nchunks)
    {
        std::string ref, mask;
        ref_enc(ref, v, &mask);
        mc::crash_context("C09.new.serialize.%s", cls.c_str());
        std::string enc = igris::serialize(v);
        mc::outcome(mc::fmt("%s/len%zu", tn.c_str(), enc.size()));
        bool threw = false;
        if (chunk == 0)
        {
            bool layout_ok = same_layout(enc, ref, mask);
            if (!layout_ok)
                mc::violation("C09.new.layout." + cls,
                              "%s %s: serialize() gives %zu bytes %s, the stated layout (native scalars, u16 count + elements) gives %zu bytes %s",
                              tn.c_str(), what, enc.size(), hexs(enc, 40).c_str(), ref.size(), hexs(ref, 40).c_str());
            {
                Exact e(enc.data(), enc.size());
                T r{};
                mc::crash_context("C09.new.decode.%s", cls.c_str());
                int left = decode(e.p, e.n, r, threw);
                if (threw)
                    mc::violation("C09.new.roundtrip." + cls, "%s %s: decoding the complete encoding threw", tn.c_str(), what);
                else if (!eq(r, v))
                    mc::violation("C09.new.roundtrip." + cls, "%s %s: deserialize(serialize(v)) != v (encoding %s, %zu bytes)", tn.c_str(),
                                  what, hexs(enc, 40).c_str(), enc.size());
                if (left != 0)
                    mc::violation("C09.new.consumed." + cls, "%s %s: serialize produced %zu bytes, decoding left %d unread", tn.c_str(), what,
                                  enc.size(), left);
                // the one-call public API
                T r2 = igris::deserialize<T>(enc);
                if (!eq(r2, v))
                    mc::violation("C09.new.roundtrip." + cls, "%s %s: igris::deserialize<T>(string) != v", tn.c_str(), what);
            }
            if (!layout_ok)
            {
                Exact e(ref.data(), ref.size());
                T r{};
                mc::crash_context("C09.new.decode_stated_layout.%s", cls.c_str());
                int left = decode(e.p, e.n, r, threw);
                if (threw || !eq(r, v) || left != 0)
                    mc::violation("C09.new.decode_stated_layout." + cls, "%s %s: decoding the stated-layout bytes %s gives %s, %d left", tn.c_str(),
                                  what, hexs(ref, 40).c_str(), eq(r, v) ? "v" : "another value", left);
            }
            {
                mc::crash_context("C09.new.serialize.%s", cls.c_str());
                std::string cat = enc + igris::serialize(w);
                {
                    // writing both values into one storage is the concatenation
                    igris::string_storage both;
                    igris::serialize(v, both);
                    igris::serialize(w, both);
                    std::string cref = ref, cmask = mask;
                    ref_enc(cref, w, &cmask);
                    if (both.storage().size() != cat.size() || !same_layout(both.storage(), cat, cmask.size() == cat.size() ? cmask : std::string(cat.size(), '1')))
                        mc::violation("C09.new.concat_write." + cls, "%s %s: serialize(a,storage); serialize(b,storage) gives %zu bytes, enc(a)||enc(b) is %zu",
                                      tn.c_str(), what, both.storage().size(), cat.size());
                }
                Exact e(cat.data(), cat.size());
                igris::deserialize_buffer_storage storage(igris::buffer(e.p, e.n));
                mc::crash_context("C09.new.decode_concat.%s", cls.c_str());
                T a = igris::deserialize<T>(storage);
                int mid = storage.avail();
                T b = igris::deserialize<T>(storage);
                int left = storage.avail();
                if (!eq(a, v) || !eq(b, w) || left != 0 || mid != (int)(cat.size() - enc.size()))
                    mc::violation("C09.new.concat." + cls, "%s %s: decode(enc(a)||enc(b)): first %s, second %s, left after first %d (want %zu), at end %d",
                                  tn.c_str(), what, eq(a, v) ? "ok" : "WRONG", eq(b, w) ? "ok" : "WRONG", mid, cat.size() - enc.size(), left);
            }
        }
        if (chunk == 0)
            if (const char *ro = ReadOnly::hold(enc.data(), enc.size()))
            {
                // the same bytes held in read-only memory that ends at an inaccessible page
                T r{};
                mc::crash_context("C09.new.decode_readonly_input.%s", cls.c_str());
                int left = decode(ro, enc.size(), r, threw);
                if (threw || !eq(r, v) || left != 0)
                    mc::violation("C09.new.roundtrip_readonly_input." + cls, "%s %s: decoding from read-only memory gives %s, %d bytes left", tn.c_str(), what,
                                  eq(r, v) ? "v" : "another value", left);
            }
        if (chunk == 0)
        {
            // decode in place (deserializer::deserialize(T&)) into an object that already holds a DIFFERENT value:
            // the result is v, nothing of the old content survives (containers are replaced, not appended to)
            Exact e(enc.data(), enc.size());
            for (const T &old : receivers)
            {
                T r = old;
                keep(&r);
                igris::deserialize_buffer_storage storage(igris::buffer(e.p, e.n));
                igris::deserializer<igris::deserialize_buffer_storage> ar(storage);
                mc::crash_context("C09.new.decode_inplace.%s", cls.c_str());
                ar.deserialize(r);
                keep(&r);
                if (!eq(r, v) || storage.avail() != 0)
                {
                    std::string oref;
                    ref_enc(oref, old);
                    mc::violation("C09.new.inplace." + cls, "%s %s: decoding %s (%zu bytes) into an object holding the value %s (%zu bytes): result %s, %d bytes left",
                                  tn.c_str(), what, hexs(enc, 32).c_str(), enc.size(), hexs(oref, 32).c_str(), oref.size(),
                                  eq(r, v) ? "ok" : "is NOT the encoded value", storage.avail());
                    break;
                }
            }
            mc::more_cases(receivers.size(), receivers.size());
            mc::count("inplace_decodes", (long)receivers.size());
        }
        // every truncation point, exactly-sized copy, bounded storage reader
        std::vector<size_t> pts;
        truncation_points(enc.size(), chunk, nchunks, pts);
        for (size_t k : pts)
        {
            Exact e(enc.data(), k);
            T r{};
            mc::crash_context("C09.new.decode_truncated.%s", cls.c_str());
            int left = decode(e.p, e.n, r, threw);
            if (left < 0 || left > (int)k)
                mc::violation("C09.new.truncated.cursor." + cls, "%s %s: %zu of %zu bytes supplied, reader reports %d bytes left", tn.c_str(), what,
                              k, enc.size(), left);
            mc::tick();
        }
        mc::more_cases(pts.size(), pts.size());
        mc::count("truncated_decodes", (long)pts.size());
        mc::crash_context("C09.new.harness");
    }

    template <class T> struct Run
    {
        static void run(long i)
        {
            std::string tn = tname<T>(), cls = tclass<T>();
            long n = count<T>(0);
            T v = make<T>(0, i);
            T w = make<T>(0, (i + 1) % n);
            std::string ref;
            ref_enc(ref, v);
            mc::describe("new[" C09_COMPILER "] %s value #%ld/%ld stated-layout bytes %s (%zu), every truncation point", tn.c_str(), i, n, hexs(ref).c_str(),
                         ref.size());
            if (!is_scalar_v<T> && ref.size() > 2)
                mc::nontrivial();
            std::vector<T> receivers;
            for (long j : receiver_indices(i, n))
                receivers.push_back(make<T>(0, j));
            check_value(v, w, receivers, tn, cls, mc::fmt("value #%ld", i).c_str(), 0, 1);
        }
    };

    template <class T, int N> void big_run(int chunk, int nchunks)
    {
        std::vector<T> v(N), w(1);
        for (int k = 0; k < N; k++)
            v[k] = (T)(k * 7 + 1);
        w[0] = scalar_value<T>(0);
        std::string tn = tname<std::vector<T>>();
        mc::describe("new %s with %d elements (%zu payload bytes), truncation points = %d mod %d", tn.c_str(), N, (size_t)N * sizeof(T), chunk,
                     nchunks);
        mc::nontrivial();
        std::vector<std::vector<T>> receivers;
        if (chunk == 0)
            receivers = {w, std::vector<T>(N < 65535 ? N + 1 : N, scalar_value<T>(1))};
        check_value(v, w, receivers, tn, (size_t)N * sizeof(T) > 65535 ? std::string("vector_of_arithmetic.image_over_65535_bytes")
                                                             : std::string("vector_of_arithmetic"),
                    mc::fmt("%d elements", N).c_str(), chunk, nchunks);
    }
    template <class T, int N> void add_big(int chunks)
    {
        BigEntry b;
        b.name = mc::fmt("%s x %d", tname<std::vector<T>>().c_str(), N);
        b.chunks = chunks;
        b.run = &big_run<T, N>;
        bigs().push_back(b);
    }

    template <class T> void golden(const char *name, const T &v, const std::string &bytes)
    {
        mc::describe("new golden %s = %s", name, hexs(bytes, 64).c_str());
        mc::nontrivial();
        mc::crash_context("C09.new.golden");
        std::string enc = igris::serialize(v);
        mc::outcome(std::string("golden/") + name);
        std::string ref, mask;
        ref_enc(ref, v, &mask); // only for the positions of padding bytes inside scalar images
        if (mask.size() != bytes.size())
            mask.assign(bytes.size(), '1');
        if (!same_layout(enc, bytes, mask))
            mc::violation("C09.new.golden.encode", "%s: serialize gives %s, recorded %s", name, hexs(enc, 64).c_str(), hexs(bytes, 64).c_str());
        Exact e(bytes.data(), bytes.size());
        T r{};
        bool threw;
        int left = decode(e.p, e.n, r, threw);
        if (threw || !eq(r, v) || left != 0)
            mc::violation("C09.new.golden.decode", "%s: recorded bytes %s decode to %s, %d bytes left", name, hexs(bytes, 64).c_str(),
                          eq(r, v) ? "the value" : "another value", left);
    }
#define B(lit) std::string(lit, sizeof(lit) - 1)

    // ---- the bounded storage reader on its own: every sequence of up to three load()/loads() requests
    //      against every buffer length 0..12, each request from {0,1,2,3,8,len,len+1,70000}
    static void storage_reader_case()
    {
        int len = mc::choose(13);
        int nreq = 1 + mc::choose(3);
        size_t req[3];
        int how[3];
        for (int i = 0; i < nreq; i++)
        {
            int r = mc::choose(8);
            static const size_t R[6] = {0, 1, 2, 3, 8, 70000};
            req[i] = r < 5 ? R[r] : r == 5 ? (size_t)len : r == 6 ? (size_t)len + 1 : R[5];
            how[i] = mc::choose(2); // load(char*,n) / loads(n)
        }
        std::string data(len, '\0');
        for (int i = 0; i < len; i++)
            data[i] = (char)(0xA0 + i);
        mc::describe("new deserialize_buffer_storage over %d bytes, requests %zu%s %zu%s %zu%s", len, req[0], how[0] ? "s" : "", nreq > 1 ? req[1] : 0,
                     nreq > 1 && how[1] ? "s" : "", nreq > 2 ? req[2] : 0, nreq > 2 && how[2] ? "s" : "");
        Exact e(data.data(), data.size());
        igris::deserialize_buffer_storage st(igris::buffer(e.p, e.n));
        size_t cur = 0;
        mc::crash_context("C09.new.storage_reader");
        if (st.avail() != len)
            mc::violation("C09.new.storage_reader.avail", "fresh reader over %d bytes reports %d available", len, st.avail());
        for (int i = 0; i < nreq; i++)
        {
            size_t want = req[i], give = want < (size_t)len - cur ? want : (size_t)len - cur;
            std::string got;
            if (how[i])
                got = st.loads(want);
            else
            {
                Exact out(want, 0xEE); // destination of exactly the requested size
                st.load(out.p, want);
                got.assign(out.p, want);
            }
            if (give < want)
                mc::nontrivial();
            if (got.size() != want || memcmp(got.data(), data.data() + cur, give) != 0)
                mc::violation("C09.new.storage_reader.data", "%d bytes, request %d of %zu at cursor %zu: wrong bytes delivered", len, i, want, cur);
            cur += give;
            if (st.avail() != (int)(len - cur))
                mc::violation("C09.new.storage_reader.avail", "%d bytes, after request %d of %zu: avail() = %d, want %zu", len, i, want, st.avail(),
                              len - cur);
        }
        mc::outcome(mc::fmt("storage/%d/%zu", len, cur));
        mc::crash_context("C09.new.harness");
    }
}

namespace
{
    // ---- storage / archive objects that were copied, moved, returned or relocated before use ----
    static const size_t RLEN[] = {0, 1, 13, 14, 15, 16, 17, 31, 32, 300};
    static void relocated_case()
    {
        const int NCLS = 5, NL = sizeof(RLEN) / sizeof(RLEN[0]);
        int c = mc::choose(NCLS * W_COUNT * NL);
        int cls = c / (W_COUNT * NL), way = c / NL % W_COUNT;
        size_t len = RLEN[c % NL];
        int pre_n = mc::choose(2); // something is read / written before the relocation
        static const char *CN[] = {"deserialize_buffer_storage", "deserialize_buffer_storage.decode", "string_storage", "serializer", "deserializer"};
        mc::describe("new[" C09_COMPILER "] %s %s after %d use(s), payload of %zu bytes", CN[cls], way_name(way), pre_n, len);
        std::string raw(len, '\0');
        for (size_t i = 0; i < len; i++)
            raw[i] = (char)(i * 31 + 7);
        std::vector<u8> va(raw.begin(), raw.end()), vb(raw.rbegin(), raw.rend());
        std::string wire;
        ref_enc(wire, va);
        ref_enc(wire, vb);
        Exact in_raw(raw.data(), raw.size()), in_wire(wire.data(), wire.size()); // caller's memory, alive throughout
        bool ok = true, done = true;
        typedef igris::deserialize_buffer_storage DBS;
        mc::crash_context("C09.new.relocated.%s", CN[cls]);
        switch (cls)
        {
        case 0: // the bounded reader as a byte source
        {
            size_t k = pre_n ? (len < 3 ? len : 3) : 0;
            done = with_relocated<DBS>(
                way, [&] { return DBS(igris::buffer(in_raw.p, in_raw.n)); },
                [&](DBS &st) {
                    std::string x = st.loads(k);
                    ok = ok && x == raw.substr(0, k);
                },
                [&](DBS &st) {
                    ok = ok && st.avail() == (int)(len - k);
                    std::string x = st.loads(len - k);
                    ok = ok && x == raw.substr(k) && st.avail() == 0;
                    std::string y = st.loads(5); // nothing left: delivers nothing, reads nothing
                    ok = ok && st.avail() == 0;
                });
            break;
        }
        case 1: // ... and under igris::deserialize<T>(storage)
            done = with_relocated<DBS>(
                way, [&] { return DBS(igris::buffer(in_wire.p, in_wire.n)); },
                [&](DBS &st) {
                    if (pre_n)
                        ok = ok && eq(igris::deserialize<std::vector<u8>>(st), va);
                },
                [&](DBS &st) {
                    if (!pre_n)
                        ok = ok && eq(igris::deserialize<std::vector<u8>>(st), va);
                    ok = ok && eq(igris::deserialize<std::vector<u8>>(st), vb) && st.avail() == 0;
                });
            break;
        case 2: // the owning writer storage
            done = with_relocated<igris::string_storage>(
                way, [&] { return igris::string_storage(); },
                [&](igris::string_storage &st) {
                    if (pre_n)
                        igris::serialize(va, st);
                },
                [&](igris::string_storage &st) {
                    if (!pre_n)
                        igris::serialize(va, st);
                    igris::serialize(vb, st);
                    ok = ok && st.storage() == wire;
                });
            break;
        case 3: // archive objects refer to the caller's storage
        {
            igris::string_storage st;
            typedef igris::serializer<igris::string_storage> SER;
            done = with_relocated<SER>(
                way, [&] { return SER(st); },
                [&](SER &ar) {
                    if (pre_n)
                        ar.serialize(va);
                },
                [&](SER &ar) {
                    if (!pre_n)
                        ar.serialize(va);
                    ar &vb;
                    ok = ok && st.storage() == wire;
                });
            break;
        }
        default:
        {
            DBS st(igris::buffer(in_wire.p, in_wire.n));
            typedef igris::deserializer<DBS> DES;
            done = with_relocated<DES>(
                way, [&] { return DES(st); },
                [&](DES &ar) {
                    if (pre_n)
                        ok = ok && eq(ar.deserialize<std::vector<u8>>(), va);
                },
                [&](DES &ar) {
                    std::vector<u8> x = va, y;
                    if (!pre_n)
                        ar.deserialize(x);
                    ar &y;
                    ok = ok && eq(x, va) && eq(y, vb) && st.avail() == 0;
                });
            break;
        }
        }
        if (!done)
        {
            mc::describe("new[" C09_COMPILER "] %s cannot be %s (not assignable)", CN[cls], way_name(way));
            return;
        }
        if (way != W_DIRECT)
            mc::nontrivial();
        mc::outcome(mc::fmt("reloc/%s/%d/%zu", CN[cls], way, len));
        if (!ok)
            mc::violation(std::string("C09.new.relocated.") + CN[cls], "%s %s after %d use(s), payload of %zu bytes: wrong data / position after the relocation",
                          CN[cls], way_name(way), pre_n, len);
        mc::crash_context("C09.new.harness");
    }
}

namespace
{
    // ---- nested serialize() of the same type from inside serialize_reflect() ---------------------------
    struct Envelope
    {
        u8 id = 0;
        std::vector<Envelope> kids;
        u16 tail = 0;
        template <class A> void serialize_reflect(A &a) const
        {
            a &id;
            u16 n = (u16)kids.size();
            a &n;
            for (const Envelope &k : kids)
            {
                std::string b = igris::serialize(k); // nested top-level call, same T, outer call still running
                std::vector<u8> blob(b.begin(), b.end());
                a &blob;
            }
            a &tail;
        }
        template <class A> void serialize_reflect(A &a)
        {
            a &id;
            u16 n = 0;
            a &n;
            kids.clear();
            for (int i = 0; i < n; i++)
            {
                std::vector<u8> blob;
                a &blob;
                kids.push_back(igris::deserialize<Envelope>(std::string(blob.begin(), blob.end()))); // nested top-level decode
            }
            a &tail;
        }
    };
    static void nested_case()
    {
        const int H = 4;
        long n = tree_count(H);
        long i = mc::choose((int)n);
        int counter = 0;
        Envelope v = make_tree<Envelope>(i, H, counter);
        counter = 100;
        Envelope w = make_tree<Envelope>((i + 1) % n, H, counter);
        std::string ref, refw;
        ref_tree(ref, v);
        ref_tree(refw, w);
        mc::describe("new[" C09_COMPILER "] envelope tree #%ld/%ld (height %d, %d nodes, %zu bytes): sub-records encoded by nested igris::serialize() inside serialize_reflect()",
                     i, n, tree_height(v), counter - 100, ref.size());
        if (!v.kids.empty())
            mc::nontrivial();
        mc::crash_context("C09.new.nested_serialize");
        std::string enc = igris::serialize(v), encw = igris::serialize(w), again = igris::serialize(v);
        mc::outcome(mc::fmt("nested/%zu", enc.size()));
        if (enc != ref || encw != refw || again != ref)
            mc::violation("C09.new.layout.nested_serialize", "tree #%ld: serialize gives %zu bytes %s (second call %zu bytes), stated layout %zu bytes %s", i, enc.size(),
                          hexs(enc, 32).c_str(), again.size(), ref.size(), hexs(ref, 32).c_str());
        std::string cat = ref + refw;
        Exact e(cat.data(), cat.size());
        igris::deserialize_buffer_storage st(igris::buffer(e.p, e.n));
        mc::crash_context("C09.new.nested_deserialize");
        Envelope a = igris::deserialize<Envelope>(st);
        int mid = st.avail();
        Envelope b = v; // in place over another tree
        igris::deserializer<igris::deserialize_buffer_storage> ar(st);
        ar.deserialize(b);
        if (!eq_tree(a, v) || !eq_tree(b, w) || mid != (int)refw.size() || st.avail() != 0)
            mc::violation("C09.new.roundtrip.nested_serialize", "tree #%ld then #%ld: first %s, second %s, left %d then %d", i, (i + 1) % n, eq_tree(a, v) ? "ok" : "WRONG",
                          eq_tree(b, w) ? "ok" : "WRONG", mid, st.avail());
        Envelope r1 = igris::deserialize<Envelope>(enc);
        if (!eq_tree(r1, v))
            mc::violation("C09.new.roundtrip.nested_serialize", "tree #%ld: deserialize<T>(serialize(v)) != v", i);
        // every truncation point of the tree's encoding through the bounded reader
        for (size_t k = 0; k < ref.size(); k++)
        {
            Exact t(ref.data(), k);
            igris::deserialize_buffer_storage ts(igris::buffer(t.p, t.n));
            mc::crash_context("C09.new.nested_deserialize_truncated");
            Envelope x;
            keep(&x);
            try
            {
                x = igris::deserialize<Envelope>(ts);
            }
            catch (mc::Abort &)
            {
                throw;
            }
            catch (...)
            {
            }
            keep(&x);
            if (ts.avail() < 0 || ts.avail() > (int)k)
                mc::violation("C09.new.truncated.cursor.nested_serialize", "tree #%ld, %zu of %zu bytes: reader reports %d left", i, k, ref.size(), ts.avail());
        }
        mc::more_cases(ref.size(), ref.size());
        mc::crash_context("C09.new.harness");
    }

    // ---- two storages / archives of the same class alive at once, used alternately ----
    static void interleaved_case()
    {
        static const size_t L[4] = {0, 1, 16, 300};
        int c = mc::choose(256);
        auto bytes = [](size_t n, int pat) {
            std::vector<u8> v(n);
            for (size_t i = 0; i < n; i++)
                v[i] = pat ? (u8)0xFF : (u8)(i * 31 + 7);
            return v;
        };
        std::vector<u8> A[2] = {bytes(L[c & 3], 0), bytes(L[c >> 2 & 3], 1)}, B[2] = {bytes(L[c >> 4 & 3], 1), bytes(L[c >> 6 & 3], 0)};
        std::vector<u16> X = {1, 2, 3}, Y = {0xFFFF};
        mc::describe("new[" C09_COMPILER "] two storages / archives used alternately, vectors of %zu,%zu and %zu,%zu bytes", A[0].size(), A[1].size(), B[0].size(),
                     B[1].size());
        mc::nontrivial();
        std::string ra, rb;
        ref_enc(ra, A[0]);
        ref_enc(ra, X);
        ref_enc(ra, A[1]);
        ref_enc(rb, B[0]);
        ref_enc(rb, Y);
        ref_enc(rb, B[1]);
        mc::crash_context("C09.new.interleaved");
        {
            igris::string_storage s1, s2;
            igris::serializer<igris::string_storage> w1(s1), w2(s2);
            w1 &A[0];
            w2 &B[0];
            bool top = igris::serialize(A[1]).size() == A[1].size() + 2;
            w2 &Y;
            w1 &X;
            igris::serialize(A[1], s1);
            w2 &B[1];
            if (!top || s1.storage() != ra || s2.storage() != rb)
                mc::violation("C09.new.interleaved.writers", "two storages written alternately: an output differs from its own values' encoding");
        }
        {
            Exact e1(ra.data(), ra.size()), e2(rb.data(), rb.size());
            igris::deserialize_buffer_storage t1(igris::buffer(e1.p, e1.n)), t2(igris::buffer(e2.p, e2.n));
            igris::deserializer<igris::deserialize_buffer_storage> r1(t1), r2(t2);
            std::vector<u8> a0, a1, b0, b1;
            std::vector<u16> x, y;
            r1 &a0;
            r2 &b0;
            r2 &y;
            bool top = eq(igris::deserialize<std::vector<u8>>(igris::serialize(B[1])), B[1]);
            x = igris::deserialize<std::vector<u16>>(t1);
            r1 &a1;
            r2 &b1;
            if (!top || !eq(a0, A[0]) || !eq(a1, A[1]) || !eq(b0, B[0]) || !eq(b1, B[1]) || !eq(x, X) || !eq(y, Y) || t1.avail() != 0 || t2.avail() != 0)
                mc::violation("C09.new.interleaved.readers", "two bounded readers used alternately: a decoded value or a final position is wrong");
        }
        mc::outcome(mc::fmt("interleaved/%zu/%zu", ra.size(), rb.size()));
        mc::crash_context("C09.new.harness");
    }
}

namespace
{
    // ---- long histories on ONE object: one storage + serializer written to for many messages, one bounded
    //      reader + deserializer decoding a stream of > 200000 bytes value by value ----
    template <class F> void with_value(long i, int seed, F f)
    {
        static const size_t L[4] = {0, 1, 16, 3000};
        long k = i * 7 + seed;
        switch (k % 10)
        {
        case 0:
            f((u8)(i * 31 + 1));
            break;
        case 1:
            f((u16)(i * 257 + 1));
            break;
        case 2:
            f((u32)(i * 65537u + 3));
            break;
        case 3:
            f((u64)((u64)i * 0x0101010101010101ull + 5));
            break;
        case 4:
            f((f64)i / 3.0);
            break;
        case 5:
            f(std::vector<u8>(L[(((uint32_t)i + (uint32_t)seed) * 2654435761u >> 13) % 4], (u8)(i * 3 + 1)));
            break;
        case 6:
            f(std::vector<u16>((size_t)(i % 5), (u16)(i * 3 + 1)));
            break;
        case 7:
        {
            RPad r;
            r.f = std::make_tuple((u8)i, (i32)(i * 11 + 2), (u16)(i * 5));
            f(r);
            break;
        }
        case 8:
        {
            DefaultedN d;
            d.v = std::vector<u16>((size_t)(i % 3), (u16)i);
            d.x = (i32)i;
            d.vv = {std::vector<u8>((size_t)(i % 2), (u8)i)};
            f(d);
            break;
        }
        default:
        {
            Plain p;
            p.a = (i32)(i * 7);
            p.b = (u8)i;
            p.c = (i16)(-i);
            p.d = (f64)i * 0.5;
            f(p);
            break;
        }
        }
    }
    static void long_history_case()
    {
        int seed = mc::choose(4);
        long N = mc::thorough() ? 300000 : 70000;
        mc::describe("new[" C09_COMPILER "] long history #%d: %ld values through ONE string_storage + serializer, then ONE deserialize_buffer_storage + deserializer", seed, N);
        mc::nontrivial();
        std::string stream;
        {
            igris::string_storage st;
            igris::serializer<igris::string_storage> ar(st);
            mc::crash_context("C09.new.long_history.writer");
            for (long i = 0; i < N; i++)
            {
                with_value(i, seed, [&](const auto &v) {
                    if (i & 1)
                        ar.serialize(v);
                    else
                        igris::serialize(v, st); // a fresh archive over the same storage
                    ref_enc(stream, v);
                });
                const std::string &got = st.storage();
                size_t n = got.size() < 96 ? got.size() : 96;
                if (got.size() != stream.size() || memcmp(got.data() + got.size() - n, stream.data() + stream.size() - n, n) != 0)
                {
                    mc::violation("C09.new.long_history.writer", "history #%d value %ld: the storage holds %zu bytes, expected %zu (or its last bytes differ)", seed, i, got.size(),
                                  stream.size());
                    return;
                }
                if (i % 4096 == 0)
                    mc::tick();
            }
            if (st.storage() != stream)
                mc::violation("C09.new.long_history.writer", "history #%d: after %ld values the storage differs from the concatenation of the encodings", seed, N);
        }
        if (stream.size() < 200000)
            mc::harness_error("long history too short: stream %zu", stream.size());
        {
            Exact src(stream.data(), stream.size());
            igris::deserialize_buffer_storage st(igris::buffer(src.p, src.n));
            igris::deserializer<igris::deserialize_buffer_storage> ar(st);
            mc::crash_context("C09.new.long_history.reader");
            size_t pos = 0;
            bool bad = false;
            for (long i = 0; i < N && !bad; i++)
                with_value(i, seed, [&](const auto &v) {
                    typedef std::remove_cv_t<std::remove_reference_t<decltype(v)>> T;
                    T r{};
                    if (i % 3 == 0)
                        r = igris::deserialize<T>(st); // a fresh archive over the same storage
                    else
                        ar.deserialize(r);
                    std::string e;
                    ref_enc(e, v);
                    pos += e.size();
                    if (!eq(r, v) || st.avail() != (int)(stream.size() - pos))
                    {
                        mc::violation("C09.new.long_history.reader", "history #%d value %ld (%zu bytes into the stream): %s, %d bytes left, want %zu", seed, i, pos - e.size(),
                                      eq(r, v) ? "value ok" : "WRONG value", st.avail(), stream.size() - pos);
                        bad = true;
                    }
                    if (i % 4096 == 0)
                        mc::tick();
                });
        }
        mc::more_cases((uint64_t)N, (uint64_t)N);
        mc::outcome(mc::fmt("long/%d/%zu", seed, stream.size()));
        mc::crash_context("C09.new.harness");
    }
}

#ifdef EXTRAS
const char *const c09::framework = "new";
#endif

MC_INIT
{
    register_part<Run, PART, NPARTS>(ALL());
#ifdef EXTRAS
    add_big<u8, 65535>(64);
    add_big<u16, 32767>(64);
    add_big<u16, 32768>(64);
    add_big<u64, 8192>(64);
    add_big<u16, 65535>(32); // 131072 bytes: sampled truncation points (see config.json)
    add_big<u64, 65535>(32);
    add_big<ld, 4096>(64); // 65536 bytes of 16-byte images

    mc::add_check("new.storage_reader", storage_reader_case);
    mc::add_check("new.relocated_storages", relocated_case);
    mc::add_check("new.nested_serialize", nested_case);
    mc::add_check("new.long_history", long_history_case);
    mc::add_check("new.interleaved_archives", interleaved_case);
    goldens().push_back({"i32", [] { golden<i32>("i32 0x01020304", 0x01020304, B("\x04\x03\x02\x01")); }});
    goldens().push_back({"u64", [] { golden<u64>("u64 0x0102030405060708", 0x0102030405060708ull, B("\x08\x07\x06\x05\x04\x03\x02\x01")); }});
    goldens().push_back({"i16 -2", [] { golden<i16>("i16 -2", -2, B("\xfe\xff")); }});
    goldens().push_back({"double 1.0", [] { golden<f64>("double 1.0", 1.0, B("\x00\x00\x00\x00\x00\x00\xf0\x3f")); }});
    goldens().push_back({"float -2.5", [] { golden<f32>("float -2.5", -2.5f, B("\x00\x00\x20\xc0")); }});
    goldens().push_back({"vector<u32>{31,32,33,34}", [] {
                             golden<std::vector<u32>>("vector<u32>{31,32,33,34}", {31, 32, 33, 34},
                                                      B("\x04\x00\x1f\x00\x00\x00\x20\x00\x00\x00\x21\x00\x00\x00\x22\x00\x00\x00"));
                         }});
    goldens().push_back({"long double 1.0", [] {
                             golden<ld>("long double 1.0 (6 padding bytes not compared)", 1.0L,
                                        B("\x00\x00\x00\x00\x00\x00\x00\x80\xff\x3f\x00\x00\x00\x00\x00\x00"));
                         }});
    goldens().push_back({"Defaulted", [] {
                             DefaultedN d;
                             d.v = {9};
                             d.x = 1;
                             d.vv = {};
                             golden<DefaultedN>("Defaulted{{9},1,{}}", d, B("\x01\x00\x09\x00\x01\x00\x00\x00\x00\x00"));
                         }});
    goldens().push_back({"vector<u8>{}", [] { golden<std::vector<u8>>("vector<u8>{}", {}, B("\x00\x00")); }});
    goldens().push_back({"vector<vector<u16>>", [] {
                             golden<std::vector<std::vector<u16>>>("vector<vector<u16>>{{1,2},{}}", {{1, 2}, {}},
                                                                   B("\x02\x00\x02\x00\x01\x00\x02\x00\x00\x00"));
                         }});
    goldens().push_back({"Plain", [] { golden<Plain>("Plain{34,83,17,0.5}", Plain(), B("\x22\x00\x00\x00\x53\x11\x00\x00\x00\x00\x00\x00\x00\xe0\x3f")); }});
    goldens().push_back({"vector<struct{u8,i32,u16}>", [] {
                             RPad a;
                             a.f = std::make_tuple((u8)1, (i32)2, (u16)3);
                             golden<std::vector<RPad>>("vector<struct{u8,i32,u16}>{{1,2,3}}", {a}, B("\x01\x00\x01\x02\x00\x00\x00\x03\x00"));
                         }});
#endif
}
