// Re-entrancy of the printf engine's entry points — the text a call produces is a function of its
// format and arguments: two calls running in two threads, each with its own sink, share nothing.
//
// Shape T on /verif/mc/sched: two real threads, one running at a time; each thread makes two calls and
// has scheduling points at its start, INSIDE each call (the output callback / fdputc yields when it
// receives its second character, so the other thread can run whole calls while digits of ours are
// built but not yet emitted), between its calls and at its end; every interleaving up to preemption
// bound 2.  The engine contains no synchronisation, so under ThreadSanitizer any memory both calls
// touch with a write (a static digit buffer, a static state word) is a reported race in every schedule;
// the texts and return values are also compared with glibc's (C06) / with the same call made alone (C13).
//
// Compiled twice: for C06 (integer/char/string/pointer formats; -DREENT_ID="C06") and for C13
// (floating formats; -DREENT_ID="C13" -DREENT_FLOAT).
#include "mc.hpp"
#include "sched/sched.hpp"
#include <atomic>
#include <cstdarg>
#include <cstdio>
#include <cstdlib>
#include <cstring>
#include <igris/util/printf_impl.h>
#include <string>

#ifndef REENT_ID
#define REENT_ID "C13"
#endif

extern "C"
{
    int igc_sprintf(char *buf, const char *format, ...);
    int igc_fdprintf(int fd, const char *format, ...);
    long igc_write(int fd, const void *buf, unsigned long n);
}

struct Sink
{
    char buf[512];
    size_t n = 0;
    void put(int c)
    {
        if (n < sizeof buf)
            buf[n] = (char)c;
        n++;
        if (n == 2 && sched::self() >= 0)
            sched::yield(); // in the middle of a conversion: its remaining characters are still in the engine
    }
};
static Sink *g_fd_sink[2]; // descriptor = thread id: 0 and 1 are as valid as any other
long igc_write(int fd, const void *buf, unsigned long n)
{ // the device behind fdprintf.c / fdputc.c
    for (unsigned long i = 0; i < n; i++)
        g_fd_sink[fd]->put(((const char *)buf)[i]);
    return (long)n;
}
static void sink_cb(void *d, int c) { ((Sink *)d)->put(c); }
static int via_printf(Sink *s, const char *fmt, ...)
{
    va_list ap;
    va_start(ap, fmt);
    int r = __printf(sink_cb, s, fmt, ap);
    va_end(ap);
    return r;
}

// the formats; `call(fmt, args...)` is the entry point under test or the glibc reference
#ifdef REENT_FLOAT
enum
{
    NF = 8
};
static const char *fname[NF] = {"%f", "%.3e", "%g", "%#.10G", "%020.4f", "%-14.2E|", "%.17g", "%f(1e300)"};
template <class F> static int fire(int f, F &&call)
{
    switch (f)
    {
    case 0:
        return call("%f", 12345.678901);
    case 1:
        return call("%.3e", -6.02214076e23);
    case 2:
        return call("%g", 0.000123456);
    case 3:
        return call("%#.10G", 9876543.21);
    case 4:
        return call("%020.4f", -3.14159265);
    case 5:
        return call("%-14.2E|", 299792458.0);
    case 6:
        return call("%.17g", 0.1);
    default:
        return call("%.0f", 1e300 / 3);
    }
}
#else
enum
{
    NF = 8
};
static const char *fname[NF] = {"%d|%5d", "%llx %lo", "%s|%-8.3s|", "%c%c%%", "%020.10u", "%+lld/%#X", "%*.*d|%hhd", "text %i text"};
template <class F> static int fire(int f, F &&call)
{
    switch (f)
    {
    case 0:
        return call("%d|%5d", -12345, 42);
    case 1:
        return call("%llx %lo", 0xdeadbeefcafeLL, 1L << 40);
    case 2:
        return call("%s|%-8.3s|", "hello", "abcdef");
    case 3:
        return call("%c%c%%", 'x', 0x41);
    case 4:
        return call("%020.10u", 123456789u);
    case 5:
        return call("%+lld/%#X", 9223372036854775807LL, 0xBEEFu);
    case 6:
        return call("%*.*d|%hhd", 9, 4, -77, 0x1ff);
    default:
        return call("text %i text", 2147483647);
    }
}
#endif
enum
{
    E_PRINTF,
    E_SPRINTF,
    E_FDPRINTF,
    NE
};
static const char *ename[NE] = {"__printf", "sprintf", "fdprintf"};

struct Side
{
    int id, entry, fmt[2];
    Sink sink[2];
    int ret[2];
    std::atomic<int> done{0};
    void one(int k)
    {
        Sink *s = &sink[k];
        switch (entry)
        {
        case E_PRINTF:
            ret[k] = fire(fmt[k], [&](const char *f, auto... a) { return via_printf(s, f, a...); });
            break;
        case E_SPRINTF:
            ret[k] = fire(fmt[k], [&](const char *f, auto... a) { return igc_sprintf(s->buf, f, a...); });
            s->n = strnlen(s->buf, sizeof s->buf);
            break;
        default:
            g_fd_sink[id] = s;
            ret[k] = fire(fmt[k], [&](const char *f, auto... a) { return igc_fdprintf(id, f, a...); });
            break;
        }
    }
    void body()
    {
        one(0);
        sched::yield(); // the other thread may run whole calls between ours
        one(1);
        done.store(1, std::memory_order_release);
    }
};

MC_INIT
{
    mc::add_check("reentrancy.two_threads", [] {
        int first = mc::choose(NF * NF * NE);
        // any lazily initialised state survives in the process: every case gets a fresh worker
        mc::request_restart();
        int entry = first % NE, fa = first / NE / NF, fb = first / NE % NF;
        Side *S[2] = {new Side, new Side}; // deliberately leaked if the execution does not finish
        std::string want[2][2];
        for (int t = 0; t < 2; t++)
        {
            S[t]->id = t;
            S[t]->entry = entry;
            S[t]->fmt[0] = t ? fb : fa;
            S[t]->fmt[1] = t ? fa : fb; // second call: the other thread's format
            memset(S[t]->sink[0].buf, 0, sizeof S[t]->sink[0].buf);
            memset(S[t]->sink[1].buf, 0, sizeof S[t]->sink[1].buf);
#ifndef REENT_FLOAT
            // integer / char / string conversions: glibc's text is the reference
            for (int k = 0; k < 2; k++)
            {
                char b[512];
                int n = fire(S[t]->fmt[k], [&](const char *f, auto... a) { return snprintf(b, sizeof b, f, a...); });
                want[t][k].assign(b, n < 0 ? 0 : (size_t)n);
            }
#endif
        }
        std::string who = mc::fmt("%s in two threads: A formats %s then %s, B formats %s then %s", ename[entry], fname[fa], fname[fb], fname[fb],
                                  fname[fa]);
        mc::crash_context(REENT_ID ".reentrancy.%s.shared_state", ename[entry]);
        mc::describe("%s (the execution died before it completed)", who.c_str());
        sched::Options o;
        o.preemption_bound = 2;
        sched::begin(o);
        sched::spawn([S] { S[0]->body(); }, "A");
        sched::spawn([S] { S[1]->body(); }, "B");
        sched::Result r = sched::run();
        mc::describe("%s; preemptions=%d steps=%d: %s", who.c_str(), r.preemptions, r.steps, r.trace.c_str());
        mc::nontrivial();
        if (r.deadlock || r.horizon_hit || !S[0]->done.load(std::memory_order_acquire) || !S[1]->done.load(std::memory_order_acquire))
        {
            mc::violation(REENT_ID ".reentrancy.did_not_finish", "%s: %s", who.c_str(), r.trace.c_str());
            return;
        }
        mc::crash_context(REENT_ID ".harness");
#ifdef REENT_FLOAT
        // floating conversions: the statement does not demand glibc's digits (C13 checks shape and accuracy
        // elsewhere); the reference is the same call made alone, after both threads have finished
        for (int t = 0; t < 2; t++)
            for (int k = 0; k < 2; k++)
            {
                Sink solo;
                fire(S[t]->fmt[k], [&](const char *f, auto... a) { return via_printf(&solo, f, a...); });
                want[t][k].assign(solo.buf, solo.n < sizeof solo.buf ? solo.n : sizeof solo.buf);
            }
#endif
        for (int t = 0; t < 2; t++)
            for (int k = 0; k < 2; k++)
            {
                Sink &s = S[t]->sink[k];
                std::string got(s.buf, s.n < sizeof s.buf ? s.n : sizeof s.buf);
                if (got != want[t][k] || S[t]->ret[k] != (int)want[t][k].size())
                    mc::violation(mc::fmt(REENT_ID ".reentrancy.%s.text", ename[entry]),
                                  "%s: thread %c call %d produced \"%s\" (returned %d), alone it produces \"%s\" (%zu); schedule: %s", who.c_str(),
                                  'A' + t, k, got.c_str(), S[t]->ret[k], want[t][k].c_str(), want[t][k].size(), r.trace.c_str());
            }
        mc::outcome(mc::fmt("preemptions=%d", r.preemptions));
        delete S[0];
        delete S[1];
    });
}
MC_MAIN
