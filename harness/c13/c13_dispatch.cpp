// c13_dispatch.cpp — the only TU of the C13 harness that instantiates the typed-call thunks
// (int / 64-bit / pointer / double arguments, up to PF_MAXARGS of them).
#include "pfdispatch.hpp"
