#!/bin/bash
set -e
. $MC/par.sh
H=$VERIF/harness/c13
SAN="-fsanitize=address -fno-omit-frame-pointer"
DEF="-DPF_WITH_DOUBLE -DPF_MAXARGS=4"
# the engine, ASan-instrumented: print_f's digit buffer is a stack object, so an under-run is a report.
# -fno-finite-loops: a loop the source cannot leave must be observed as a hang, not deleted by the optimiser.
par clang -c -O1 -g $SAN -fno-finite-loops -I$REPO $REPO/igris/util/printf_impl.c -o $BUILD/printf_impl.o
par clang++ -std=c++17 -c -O1 -g $DEF -I$REPO -I$MC -I$H $H/c13_printf_float.cpp -o $BUILD/h.o
par clang++ -std=c++17 -c -O0 $DEF -I$REPO -I$MC -I$H $H/c13_dispatch.cpp -o $BUILD/d.o
par clang++ -std=c++17 -O2 -c -I$MC $MC/mc.cpp -o $BUILD/mc.o
parwait
clang++ $SAN $BUILD/h.o $BUILD/d.o $BUILD/printf_impl.o $BUILD/mc.o -lm -o $BUILD/c13
echo "printf_float $BUILD/c13" > $BUILD/runs.txt
