#!/bin/bash
set -e
. $MC/par.sh
H=$VERIF/harness/c13
SAN="-fsanitize=address -fno-omit-frame-pointer"
DEF="-DPF_WITH_DOUBLE -DPF_MAXARGS=4"
# the engine, ASan-instrumented: print_f's digit buffer is a stack object, so an under-run is a report.
# -fno-finite-loops: a loop the source cannot leave must be observed as a hang, not deleted by the optimiser.
par clang -c -O1 -g $SAN -fno-finite-loops -I$REPO $REPO/igris/util/printf_impl.c -o $BUILD/printf_impl.o
par clang++ -std=c++20 -c -O1 -g $DEF -I$REPO -I$MC -I$H $H/c13_printf_float.cpp -o $BUILD/h.o
par clang++ -std=c++20 -c -O0 $DEF -I$REPO -I$MC -I$H $H/c13_dispatch.cpp -o $BUILD/d.o
par clang++ -std=c++20 -O2 -c -I$MC $MC/mc.cpp -o $BUILD/mc.o
# re-entrancy run: the engine (and the libc entry points on top of it) under ThreadSanitizer, two threads on the
# controlled scheduler (sched.cpp and mc.cpp stay uninstrumented: TSan then sees only what the code under test does)
TF="-O1 -g -DNDEBUG -fsanitize=thread -fno-omit-frame-pointer -I$REPO -I$MC" # the TSan build is also the release (NDEBUG) build
par gcc -c $TF $REPO/igris/util/printf_impl.c -o $BUILD/printf_impl_tsan.o
par gcc -c $TF -fno-builtin -Wno-implicit-function-declaration $REPO/compat/libc/stdio/sprintf.c -o $BUILD/sprintf_tsan.o
par gcc -c $TF -fno-builtin -Wno-implicit-function-declaration $REPO/compat/libc/stdio/fdprintf.c -o $BUILD/fdprintf_tsan.o
par gcc -c $TF -fno-builtin -Wno-implicit-function-declaration $REPO/compat/libc/stdio/fdputc.c -o $BUILD/fdputc_tsan.o
par g++ -std=c++20 -c $TF -DREENT_ID='"C13"' -DREENT_FLOAT $H/c13_reentrancy.cpp -o $BUILD/h_tsan.o
par g++ -std=c++20 -O2 -g -I$MC -c $MC/sched/sched.cpp -o $BUILD/sched.o
par g++ -std=c++20 -O2 -c -I$MC $MC/mc.cpp -o $BUILD/mc_gcc.o
# build-mode variant of the engine: the other compiler at -O2, release mode (-DNDEBUG) and plain char unsigned
# (-funsigned-char); no sanitizer, harness objects shared with the main build
par gcc -c -O2 -g -DNDEBUG -funsigned-char -I$REPO $REPO/igris/util/printf_impl.c -o $BUILD/printf_impl_var.o
parwait
clang++ $BUILD/h.o $BUILD/d.o $BUILD/printf_impl_var.o $BUILD/mc.o -lm -ldl -o $BUILD/c13_variant
objcopy --redefine-sym sprintf=igc_sprintf --redefine-sym vsprintf=igc_vsprintf --redefine-sym snprintf=igc_snprintf $BUILD/sprintf_tsan.o
objcopy --redefine-sym fdprintf=igc_fdprintf --redefine-sym vfdprintf=igc_vfdprintf --redefine-sym fdputc=igc_fdputc --redefine-sym write=igc_write $BUILD/fdprintf_tsan.o
objcopy --redefine-sym fdputc=igc_fdputc --redefine-sym write=igc_write $BUILD/fdputc_tsan.o
g++ -fsanitize=thread $BUILD/h_tsan.o $BUILD/printf_impl_tsan.o $BUILD/sprintf_tsan.o $BUILD/fdprintf_tsan.o $BUILD/fdputc_tsan.o $BUILD/sched.o $BUILD/mc_gcc.o -lm -ldl -lpthread -o $BUILD/c13_tsan
clang++ $SAN $BUILD/h.o $BUILD/d.o $BUILD/printf_impl.o $BUILD/mc.o -lm -o $BUILD/c13
echo "printf_float $BUILD/c13" > $BUILD/runs.txt
echo "reentrancy $BUILD/c13_tsan" >> $BUILD/runs.txt
echo "ndebug_unsigned_char_gcc_O2 $BUILD/c13_variant --only flags_x_widths,wide_fields,long_precisions,first_conversion,reentrant_callback" >> $BUILD/runs.txt
